(** * Relations: gearpy.utils.relations (add_gear_mating, add_worm_gear_mating, add_fixed_joint) and Powertrain.__init__,
    operation for operation, generic in the arithmetic.  No proofs here. *)
From Coq Require Import ZArith QArith String List Bool PrimFloat.
From GP Require Import ArithDef UnitsCore PyUnits QOps.
From GP.gen Require Import UnitsGen.
Import ListNotations.
Open Scope string_scope.

Section Relations.
Context {A : Arith}.
Notation qty := (qty A).

Inductive ekind := EMotor | EFly | ESpur | EHelical | EWorm | EWheel.
Definition ekind_eqb (a b : ekind) : bool :=
  match a, b with EMotor, EMotor | EFly, EFly | ESpur, ESpur | EHelical, EHelical | EWorm, EWorm | EWheel, EWheel => true | _, _ => false end.
Definition is_gearbase (k : ekind) : bool := match k with ESpur | EHelical | EWheel => true | _ => false end.   (* isinstance(x, GearBase) *)
Definition has_helix (k : ekind) : bool := match k with EHelical | EWheel | EWorm => true | _ => false end.     (* hasattr(x, 'helix_angle') *)
Definition is_wormish (k : ekind) : bool := match k with EWorm | EWheel => true | _ => false end.

(** constructor data of an element that the relation functions read *)
Record edecl := { d_kind : ekind; d_name : string; d_n : Z;                  (* teeth number / number of starts *)
                  d_module : option qty; d_helix : option qty; d_pa : option qty }.
Inductive role := RMaster | RSlave.
Record elink := { l_drives : option nat; l_driven_by : option nat; l_role : option role;
                  l_ratio : option (num A); l_eff : num A; l_selflock : option bool }.
Definition fresh_link (k : ekind) : elink :=
  {| l_drives := None; l_driven_by := None; l_role := None; l_ratio := None; l_eff := one;
     l_selflock := None |}.
Definition rstate := list (edecl * elink).

Definition get (s : rstate) (i : nat) : res (edecl * elink) := match nth_error s i with Some x => Ok x | None => Err IndexError end.
Fixpoint set_nth (s : rstate) (i : nat) (x : edecl * elink) : rstate :=
  match s, i with
  | [], _ => []
  | _ :: t, O => x :: t
  | y :: t, S i' => y :: set_nth t i' x
  end.
Definition upd (s : rstate) (i : nat) (f : elink -> elink) : rstate :=
  match nth_error s i with Some (d, l) => set_nth s i (d, f l) | None => s end.

(** Angle.cos() / tan() / sin(): f(2*pi*frequency*self.to('rad').value), frequency = 1/2/pi *)
Definition two : num A := of_Z 2.
Definition freq : num A := div (div one two) pi.
Definition trig_arg (q : qty) : res (num A) := r <- q_to q "rad" ;; Ok (mul (mul (mul two pi) freq) (qv r)).
Definition qcos (q : qty) : res (num A) := x <- trig_arg q ;; Ok (fcos x).
Definition qtan (q : qty) : res (num A) := x <- trig_arg q ;; Ok (ftan x).
Definition qsin (q : qty) : res (num A) := x <- trig_arg q ;; Ok (fsin x).

Definition opt_ne (a b : option qty) : res bool :=          (* a != b when both are given *)
  match a, b with Some x, Some y => q_cmp MNe x y | _, _ => Ok false end.
Definition the (o : option qty) : res qty := match o with Some q => Ok q | None => Err AttributeError end.

(** add_gear_mating(master=i, slave=j, efficiency) *)
Definition gear_mating (s : rstate) (i j : nat) (eff : num A) : res rstate :=
  m <- get s i ;; sl <- get s j ;;
  let (dm, lm) := m in let (ds, ls) := sl in
  if negb (is_gearbase (d_kind dm)) then Err TypeError else
  if negb (is_gearbase (d_kind ds)) then Err TypeError else
  if Nat.eqb i j then Err ValueError else
  if ltb one eff || ltb eff zero then Err ValueError else
  ne_mod <- opt_ne (d_module dm) (d_module ds) ;;
  if ne_mod then Err ValueError else
  bad_helix <- (if has_helix (d_kind dm) then
                  if has_helix (d_kind ds) then (a <- the (d_helix dm) ;; b <- the (d_helix ds) ;; q_cmp MNe a b)
                  else Ok true
                else Ok (has_helix (d_kind ds))) ;;
  if bad_helix then Err ValueError else
  let ratio := div (of_Z (d_n ds)) (of_Z (d_n dm)) in
  if leb ratio zero then Err ValueError else                      (* master_gear_ratio setter *)
  let s1 := upd s i (fun l => {| l_drives := Some j; l_driven_by := l_driven_by l; l_role := Some RMaster; l_ratio := l_ratio l; l_eff := l_eff l; l_selflock := l_selflock l |}) in
  Ok (upd s1 j (fun l => {| l_drives := l_drives l; l_driven_by := Some i; l_role := Some RSlave; l_ratio := Some ratio; l_eff := eff; l_selflock := l_selflock l |})).

(** add_worm_gear_mating(master=i, slave=j, friction_coefficient) (as repaired by the D9 fix commit: validate before linking) *)
Definition worm_mating (s : rstate) (i j : nat) (f : num A) : res rstate :=
  m <- get s i ;; sl <- get s j ;;
  let (dm, lm) := m in let (ds, ls) := sl in
  if negb (is_wormish (d_kind dm)) then Err TypeError else
  if negb (is_wormish (d_kind ds)) then Err TypeError else
  if ekind_eqb (d_kind dm) (d_kind ds) then Err TypeError else
  if ltb one f || ltb f zero then Err ValueError else
  pam <- the (d_pa dm) ;; pas <- the (d_pa ds) ;;
  ne_pa <- q_cmp MNe pam pas ;;
  if ne_pa then Err ValueError else
  hm <- the (d_helix dm) ;;
  c <- qcos pam ;; t <- qtan hm ;;
  worm_drives <- Ok (ekind_eqb (d_kind dm) EWorm) ;;
  r <- (if worm_drives then
          x <- pydiv f t ;; e <- pydiv (sub c (mul f t)) (add c x) ;; Ok (pair (div (of_Z (d_n ds)) (of_Z (d_n dm))) e)
        else
          x <- pydiv f t ;; e <- pydiv (sub c x) (add c (mul f t)) ;; Ok (pair (div (of_Z (d_n ds)) (of_Z (d_n dm))) e)) ;;
  let (ratio, eff) := r in
  let wi := if worm_drives then i else j in
  w <- get s wi ;;
  paw <- the (d_pa (fst w)) ;; hw <- the (d_helix (fst w)) ;;
  cw <- qcos paw ;; tw <- qtan hw ;;
  let selflock := ltb (mul cw tw) f in
  if ltb one eff || ltb eff zero then Err ValueError else
  if leb ratio zero then Err ValueError else
  let s1 := upd s i (fun l => {| l_drives := Some j; l_driven_by := l_driven_by l; l_role := Some RMaster; l_ratio := l_ratio l; l_eff := l_eff l; l_selflock := l_selflock l |}) in
  let s2 := upd s1 j (fun l => {| l_drives := l_drives l; l_driven_by := Some i; l_role := Some RSlave; l_ratio := Some ratio; l_eff := eff; l_selflock := l_selflock l |}) in
  Ok (upd s2 wi (fun l => {| l_drives := l_drives l; l_driven_by := l_driven_by l; l_role := l_role l; l_ratio := l_ratio l; l_eff := l_eff l; l_selflock := Some selflock |})).

(** add_fixed_joint(master=i, slave=j) *)
Definition fixed_joint (s : rstate) (i j : nat) : res rstate :=
  m <- get s i ;; sl <- get s j ;;
  if ekind_eqb (d_kind (fst sl)) EMotor then Err TypeError else
  if Nat.eqb i j then Err ValueError else
  let s1 := upd s i (fun l => {| l_drives := Some j; l_driven_by := l_driven_by l; l_role := l_role l; l_ratio := l_ratio l; l_eff := l_eff l; l_selflock := l_selflock l |}) in
  Ok (upd s1 j (fun l => {| l_drives := l_drives l; l_driven_by := Some i; l_role := l_role l; l_ratio := Some one; l_eff := l_eff l; l_selflock := l_selflock l |})).

Inductive relcall := CGear (i j : nat) (eff : num A) | CWorm (i j : nat) (f : num A) | CJoint (i j : nat).
Definition declare (s : rstate) (c : relcall) : res rstate :=
  match c with CGear i j e => gear_mating s i j e | CWorm i j f => worm_mating s i j f | CJoint i j => fixed_joint s i j end.
(** a call that raises leaves the state as it was (the user's script catches the exception and goes on) *)
Definition declare1 (s : rstate) (c : relcall) : rstate := match declare s c with Ok s' => s' | Err _ => s end.
Definition declare_all (cs : list relcall) (s : rstate) : rstate := fold_left declare1 cs s.

(** ** Powertrain.__init__(motor = element m) *)
Fixpoint walk (fuel : nat) (s : rstate) (i : nat) : res (list nat) :=
  match fuel with
  | O => Err OutOfFuel                                           (* a cyclic 'drives' graph: the Python loop does not terminate *)
  | S f => x <- get s i ;;
           match l_drives (snd x) with
           | None => Ok [i]
           | Some j => r <- walk f s j ;; Ok (i :: r)
           end
  end.
Fixpoint has_dup (l : list string) : bool :=
  match l with [] => false | x :: t => existsb (String.eqb x) t || has_dup t end.
Definition name_of (s : rstate) (i : nat) : string := match nth_error s i with Some (d, _) => d_name d | None => "" end.
Definition worm_locks (s : rstate) (i : nat) : bool :=
  match nth_error s i with
  | Some (d, l) => ekind_eqb (d_kind d) EWorm && match l_selflock l with Some b => b | None => false end
  | None => false end.
Definition assemble (s : rstate) (m : nat) : res (list nat * bool) :=
  x <- get s m ;;
  if negb (ekind_eqb (d_kind (fst x)) EMotor) then Err TypeError else
  match l_drives (snd x) with
  | None => Err ValueError
  | Some _ =>
      ids <- walk (S (length s)) s m ;;
      if has_dup (map (name_of s) ids) then Err NameError else
      Ok (ids, existsb (worm_locks s) ids)
  end.
End Relations.
