(** * UnitsR: the regenerated unit tables and conversion, interpreted over the reals. *)
From Coq Require Import ZArith QArith Reals Lra Lia Qreals String List Bool.
From GP Require Import ArithDef UnitsCore PyUnits RealArith.
From GP.gen Require Import UnitsGen.
Import ListNotations.
Open Scope R_scope.

Notation rqty := (qty RA).
Definition G := GEN.

(** ** Positivity of every generated factor, by reflection on the generated expressions (independent of [Spec]) *)
Fixpoint fpos (e : fexpr) : bool :=
  match e with
  | FPi => true
  | FNum q _ => match Qcompare 0 q with Lt => true | _ => false end
  | FMul a b | FDiv a b => fpos a && fpos b
  end.
Lemma fpos_sound e : fpos e = true -> 0 < @feval RA e.
Proof.
  induction e as [|q f|a IHa b IHb|a IHa b IHb]; cbn [fpos feval]; intros H.
  - apply PI_RGT_0.
  - destruct (Qcompare 0 q) eqn:E; try discriminate. cbn. replace 0 with (Q2R 0) by (unfold Q2R; cbn; lra). apply Qlt_Rlt. exact E.
  - apply andb_true_iff in H as [Ha Hb]. change (@mul RA) with Rmult. apply Rmult_lt_0_compat; auto.
  - apply andb_true_iff in H as [Ha Hb]. change (@div RA) with Rdiv. apply Rdiv_lt_0_compat; auto.
Qed.
Definition all_tables_pos : bool := forallb (fun k => forallb (fun p => fpos (snd p)) (@units_of G k)) all_kinds.
Lemma all_tables_pos_true : all_tables_pos = true. Proof. vm_compute. reflexivity. Qed.
Lemma lookup_pos u l f : forallb (fun p => fpos (snd p)) l = true -> @lookup RA u l = Ok f -> 0 < f.
Proof.
  induction l as [|[u' e] l IH]; cbn; intros Hl H; [discriminate|].
  apply andb_true_iff in Hl as [He Hl]. destruct (String.eqb u u').
  - injection H as <-. apply fpos_sound; exact He.
  - apply IH; assumption.
Qed.
Theorem factor_pos k u f : @factor RA G k u = Ok f -> 0 < f.
Proof.
  unfold factor. apply lookup_pos.
  generalize all_tables_pos_true. unfold all_tables_pos. rewrite forallb_forall. intros Hall. apply Hall.
  destruct k; cbn; tauto.
Qed.
Lemma lookup_err u l e : @lookup RA u l = Err e -> e = KeyError.
Proof. induction l as [|[u' x] l IH]; cbn; intros H; [injection H as <-; reflexivity|]. destruct (String.eqb u u'); [discriminate|auto]. Qed.
Lemma factor_err k u e : @factor RA G k u = Err e -> e = KeyError.
Proof. apply lookup_err. Qed.

(** ** Conversion *)
Definition to_std : texpr := TDiv (TMul TValue TFactorSelf) TFactorTarget.
Lemma to_expr_std k : to_expr_of G k = Some to_std.
Proof. destruct k; reflexivity. Qed.

(** SI magnitude *)
Definition si (q : rqty) : res R := f <- @factor RA G (qk q) (qu q) ;; Ok (qv q * f).

Lemma to_value_closed (q : rqty) u x :
  to_value G q u = Ok x ->
  exists fs ft, @factor RA G (qk q) (qu q) = Ok fs /\ @factor RA G (qk q) u = Ok ft /\ x * ft = qv q * fs.
Proof.
  unfold to_value, bind. destruct (factor G (qk q) u) as [ft|] eqn:Et; [|discriminate].
  destruct (String.eqb u (qu q)) eqn:Eu.
  - apply String.eqb_eq in Eu. subst u. intros H; injection H as <-. exists ft, ft. auto.
  - destruct (factor G (qk q) (qu q)) as [fs|] eqn:Es; [|discriminate].
    rewrite to_expr_std. intros H; injection H as <-. exists fs, ft. repeat split; auto.
    assert (0 < ft) by (eapply factor_pos; eauto). cbn. field. lra.
Qed.

(** the constructor keeps kind, value and unit *)
Lemma ctor_ok k v u (q : rqty) : ctor G k v u = Ok q -> q = {| qk := k; qv := v; qu := u |}.
Proof.
  unfold ctor, bind. destruct (factor G k u); [|discriminate].
  destruct (match parent G k with Some p => check_constraint (g_constraint G p) v | None => Ok tt end); [|discriminate].
  destruct (check_constraint (g_constraint G k) v); [|discriminate]. intros H; injection H as <-. reflexivity.
Qed.

(** C05 (b): a conversion keeps the kind, takes the requested unit, and leaves the SI magnitude unchanged *)
Theorem to_qty_si (q q' : rqty) u : to_qty G q u = Ok q' ->
  qk q' = qk q /\ qu q' = u /\ exists s, si q = Ok s /\ si q' = Ok s.
Proof.
  unfold to_qty, bind. destruct (to_value G q u) as [x|] eqn:E; [|discriminate].
  intros H. apply ctor_ok in H. subst q'. cbn. split; [reflexivity|]. split; [reflexivity|].
  destruct (to_value_closed q u x E) as (fs & ft & Hs & Ht & Hx).
  exists (qv q * fs). unfold si, bind; cbn. rewrite Hs, Ht. split; [reflexivity|]. f_equal. exact Hx.
Qed.
Theorem to_inplace_si (q q' : rqty) u : to_inplace G q u = Ok q' ->
  qk q' = qk q /\ qu q' = u /\ exists s, si q = Ok s /\ si q' = Ok s.
Proof.
  unfold to_inplace, bind. destruct (to_value G q u) as [x|] eqn:E; [|discriminate].
  intros H. injection H as <-. cbn. split; [reflexivity|]. split; [reflexivity|].
  destruct (to_value_closed q u x E) as (fs & ft & Hs & Ht & Hx).
  exists (qv q * fs). unfold si, bind; cbn. rewrite Hs, Ht. split; [reflexivity|]. f_equal. exact Hx.
Qed.
(** copying and in-place conversion give the same result *)
Theorem to_copy_inplace_agree (q q1 q2 : rqty) u : to_qty G q u = Ok q1 -> to_inplace G q u = Ok q2 -> q1 = q2.
Proof.
  unfold to_qty, to_inplace, bind. destruct (to_value G q u) as [x|]; [|discriminate].
  intros H1 H2. apply ctor_ok in H1. injection H2 as <-. exact H1.
Qed.
(** there and back returns the original value *)
Theorem to_round_trip (q q1 q2 : rqty) u : to_qty G q u = Ok q1 -> to_qty G q1 (qu q) = Ok q2 -> q2 = q.
Proof.
  intros H1 H2.
  unfold to_qty, bind in H1. destruct (to_value G q u) as [x|] eqn:E1; [|discriminate]. apply ctor_ok in H1. subst q1.
  unfold to_qty, bind in H2. destruct (to_value G _ (qu q)) as [y|] eqn:E2; [|discriminate]. apply ctor_ok in H2. subst q2.
  cbn in *. destruct (to_value_closed _ _ _ E1) as (fs & ft & Hs & Ht & Hx).
  destruct (to_value_closed _ _ _ E2) as (fs' & ft' & Hs' & Ht' & Hy). cbn in *.
  rewrite Ht in Hs'. injection Hs' as <-. rewrite Hs in Ht'. injection Ht' as <-.
  assert (0 < fs) by (eapply factor_pos; eauto).
  destruct q as [k v u0]; cbn in *. f_equal. nra.
Qed.
