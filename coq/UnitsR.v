(** * UnitsR: the regenerated unit tables and conversion, interpreted over the reals, against [Spec]. *)
From Coq Require Import ZArith QArith Reals Lra Lia Qreals String List Bool.
From GP Require Import ArithDef UnitsCore PyUnits RealArith Spec.
From GP.gen Require Import UnitsGen.
Import ListNotations.
Open Scope R_scope.

Notation rqty := (qty RA).
Definition G := GEN.

(** ** Normal form q * PI^z of a factor expression *)
Fixpoint fnorm (e : fexpr) : Q * Z :=
  match e with
  | FPi => (1%Q, 1%Z)
  | FNum q _ => (q, 0%Z)
  | FMul a b => let (qa, za) := fnorm a in let (qb, zb) := fnorm b in ((qa * qb)%Q, (za + zb)%Z)
  | FDiv a b => let (qa, za) := fnorm a in let (qb, zb) := fnorm b in ((qa / qb)%Q, (za - zb)%Z)
  end.
(** every divisor has a non-zero rational part *)
Fixpoint fnorm_ok (e : fexpr) : bool :=
  match e with
  | FPi | FNum _ _ => true
  | FMul a b => fnorm_ok a && fnorm_ok b
  | FDiv a b => fnorm_ok a && fnorm_ok b && negb (Qeq_bool (fst (fnorm b)) 0)
  end.
Definition sival (s : sifactor) : R := Q2R (fst s) * powerRZ PI (snd s).

Lemma PI_neq0' : PI <> 0. Proof. apply PI_neq0. Qed.

Lemma fnorm_sound e : fnorm_ok e = true -> @feval RA e = sival (fnorm e).
Proof.
  induction e as [|q f|a IHa b IHb|a IHa b IHb]; cbn [fnorm_ok fnorm feval]; intros H.
  - unfold sival; cbn. unfold Q2R; cbn. rewrite Rinv_1. change (Pos.to_nat 1) with 1%nat. cbn. lra.
  - unfold sival; cbn. lra.
  - apply andb_true_iff in H as [Ha Hb]. rewrite (IHa Ha), (IHb Hb).
    destruct (fnorm a) as [qa za], (fnorm b) as [qb zb]. unfold sival; cbn [fst snd].
    change (@mul RA) with Rmult. change (num RA) with R. rewrite Q2R_mult, powerRZ_add by apply PI_neq0'. ring.
  - apply andb_true_iff in H as [H Hn]. apply andb_true_iff in H as [Ha Hb]. rewrite (IHa Ha), (IHb Hb).
    destruct (fnorm a) as [qa za], (fnorm b) as [qb zb]. unfold sival; cbn [fst snd] in *.
    apply negb_true_iff in Hn. apply Qeq_bool_neq in Hn.
    change (@div RA) with Rdiv. change (num RA) with R. rewrite Q2R_div by exact Hn.
    unfold Zminus. rewrite powerRZ_add by apply PI_neq0'. rewrite powerRZ_neg'.
    assert (Q2R qb <> 0). { intro E. apply Hn. apply eqR_Qeq. rewrite E. unfold Q2R; cbn; lra. }
    assert (powerRZ PI zb <> 0) by (apply powerRZ_NOR; apply PI_neq0').
    unfold Rdiv. field. split; assumption.
Qed.

(** ** The generated tables equal the SI tables of [Spec] *)
Definition entry_match (g : string * fexpr) (s : string * sifactor) : bool :=
  String.eqb (fst g) (fst s) && fnorm_ok (snd g) && Qeq_bool (fst (fnorm (snd g))) (fst (snd s))
  && Z.eqb (snd (fnorm (snd g))) (snd (snd s)).
Fixpoint list_match (l : list (string * fexpr)) (s : list (string * sifactor)) : bool :=
  match l, s with
  | [], [] => true
  | g :: l', e :: s' => entry_match g e && list_match l' s'
  | _, _ => false
  end.
Definition tables_match : bool := forallb (fun k => list_match (@units_of G k) (spec_units k)) all_kinds.
Lemma tables_match_true : tables_match = true.
Proof. vm_compute. reflexivity. Qed.

Fixpoint spec_lookup (u : string) (s : list (string * sifactor)) : option sifactor :=
  match s with [] => None | (u', f) :: s' => if String.eqb u u' then Some f else spec_lookup u s' end.
Definition spec_factor (k : kind) (u : string) : option sifactor := spec_lookup u (spec_units k).

Lemma sival_Qeq q q' z : Qeq q q' -> sival (q, z) = sival (q', z).
Proof. intros H. unfold sival; cbn. rewrite (Qeq_eqR _ _ H). reflexivity. Qed.

Lemma lookup_match l s u : list_match l s = true ->
  @lookup RA u l = match spec_lookup u s with Some f => Ok (sival f) | None => Err KeyError end.
Proof.
  revert s. induction l as [|[u1 e] l IH]; intros [|[u2 f] s]; cbn [list_match lookup spec_lookup]; intros H; try discriminate.
  - reflexivity.
  - apply andb_true_iff in H as [H Hl]. unfold entry_match in H; cbn [fst snd] in H.
    apply andb_true_iff in H as [H Hz]. apply andb_true_iff in H as [H Hq]. apply andb_true_iff in H as [Hu Hok].
    apply String.eqb_eq in Hu. subst u2.
    destruct (String.eqb u u1).
    + rewrite (fnorm_sound e Hok). f_equal. destruct (fnorm e) as [q z]; destruct f as [q' z']; cbn [fst snd] in *.
      apply Z.eqb_eq in Hz. subst z'. apply sival_Qeq. apply Qeq_bool_iff. exact Hq.
    + apply IH. exact Hl.
Qed.

(** C05 (a): for every kind and every unit name, the factor the code uses is the SI definition; unknown names are KeyError. *)
Theorem factor_is_SI k u :
  @factor RA G k u = match spec_factor k u with Some f => Ok (sival f) | None => Err KeyError end.
Proof.
  unfold factor, spec_factor. apply lookup_match.
  generalize tables_match_true. unfold tables_match. rewrite forallb_forall. intros Hall. apply Hall.
  destruct k; cbn; tauto.
Qed.

(** ** Positivity *)
Definition spec_pos : bool := forallb (fun k => forallb (fun e => match Qcompare 0 (fst (snd e)) with Lt => true | _ => false end) (spec_units k)) all_kinds.
Lemma spec_pos_true : spec_pos = true. Proof. vm_compute. reflexivity. Qed.
Lemma sival_pos q z : (0 < q)%Q -> 0 < sival (q, z).
Proof.
  intros Hq. unfold sival; cbn. apply Rmult_lt_0_compat.
  - replace 0 with (Q2R 0) by (unfold Q2R; cbn; lra). apply Qlt_Rlt. exact Hq.
  - apply powerRZ_lt. apply PI_RGT_0.
Qed.
Lemma spec_lookup_in u s f : spec_lookup u s = Some f -> In (u, f) s.
Proof.
  induction s as [|[u' f'] s IH]; cbn; intros H; [discriminate|].
  destruct (String.eqb u u') eqn:E.
  - apply String.eqb_eq in E. subst. injection H as <-. left; reflexivity.
  - right. apply IH. exact H.
Qed.
Lemma spec_factor_pos k u f : spec_factor k u = Some f -> 0 < sival f.
Proof.
  intros H. apply spec_lookup_in in H.
  generalize spec_pos_true. unfold spec_pos. rewrite forallb_forall. intros Hall.
  assert (Hk : In k all_kinds) by (destruct k; cbn; tauto).
  specialize (Hall k Hk). rewrite forallb_forall in Hall. specialize (Hall _ H). cbn [fst snd] in Hall.
  destruct f as [q z]. cbn [fst snd] in Hall. apply sival_pos.
  destruct (Qcompare 0 q) eqn:E; try discriminate. exact E.
Qed.
Theorem factor_pos k u f : @factor RA G k u = Ok f -> 0 < f.
Proof.
  rewrite factor_is_SI. destruct (spec_factor k u) as [s|] eqn:E; [|discriminate].
  intros H. injection H as <-. eapply spec_factor_pos; eauto.
Qed.

(** ** Conversion *)
Definition to_std : texpr := TDiv (TMul TValue TFactorSelf) TFactorTarget.
Lemma to_expr_std k : to_expr_of G k = Some to_std.
Proof. destruct k; reflexivity. Qed.

(** SI magnitude *)
Definition si (q : rqty) : res R := f <- @factor RA G (qk q) (qu q) ;; Ok (qv q * f).

Lemma to_value_closed (q : rqty) u x :
  to_value G q u = Ok x ->
  exists fs ft, @factor RA G (qk q) (qu q) = Ok fs /\ @factor RA G (qk q) u = Ok ft /\ x * ft = qv q * fs.
Proof.
  unfold to_value, bind. destruct (factor G (qk q) u) as [ft|] eqn:Et; [|discriminate].
  destruct (String.eqb u (qu q)) eqn:Eu.
  - apply String.eqb_eq in Eu. subst u. intros H; injection H as <-. exists ft, ft. auto.
  - destruct (factor G (qk q) (qu q)) as [fs|] eqn:Es; [|discriminate].
    rewrite to_expr_std. intros H; injection H as <-. exists fs, ft. repeat split; auto.
    assert (0 < ft) by (eapply factor_pos; eauto). cbn. field. lra.
Qed.

(** the constructor keeps kind, value and unit *)
Lemma ctor_ok k v u (q : rqty) : ctor G k v u = Ok q -> q = {| qk := k; qv := v; qu := u |}.
Proof.
  unfold ctor, bind. destruct (factor G k u); [|discriminate].
  destruct (match parent G k with Some p => check_constraint (g_constraint G p) v | None => Ok tt end); [|discriminate].
  destruct (check_constraint (g_constraint G k) v); [|discriminate]. intros H; injection H as <-. reflexivity.
Qed.

(** C05 (b): a conversion keeps the kind, takes the requested unit, and leaves the SI magnitude unchanged *)
Theorem to_qty_si (q q' : rqty) u : to_qty G q u = Ok q' ->
  qk q' = qk q /\ qu q' = u /\ exists s, si q = Ok s /\ si q' = Ok s.
Proof.
  unfold to_qty, bind. destruct (to_value G q u) as [x|] eqn:E; [|discriminate].
  intros H. apply ctor_ok in H. subst q'. cbn. split; [reflexivity|]. split; [reflexivity|].
  destruct (to_value_closed q u x E) as (fs & ft & Hs & Ht & Hx).
  exists (qv q * fs). unfold si, bind; cbn. rewrite Hs, Ht. split; [reflexivity|]. f_equal. exact Hx.
Qed.
Theorem to_inplace_si (q q' : rqty) u : to_inplace G q u = Ok q' ->
  qk q' = qk q /\ qu q' = u /\ exists s, si q = Ok s /\ si q' = Ok s.
Proof.
  unfold to_inplace, bind. destruct (to_value G q u) as [x|] eqn:E; [|discriminate].
  intros H. injection H as <-. cbn. split; [reflexivity|]. split; [reflexivity|].
  destruct (to_value_closed q u x E) as (fs & ft & Hs & Ht & Hx).
  exists (qv q * fs). unfold si, bind; cbn. rewrite Hs, Ht. split; [reflexivity|]. f_equal. exact Hx.
Qed.
(** copying and in-place conversion give the same result *)
Theorem to_copy_inplace_agree (q q1 q2 : rqty) u : to_qty G q u = Ok q1 -> to_inplace G q u = Ok q2 -> q1 = q2.
Proof.
  unfold to_qty, to_inplace, bind. destruct (to_value G q u) as [x|]; [|discriminate].
  intros H1 H2. apply ctor_ok in H1. injection H2 as <-. exact H1.
Qed.
(** there and back returns the original value *)
Theorem to_round_trip (q q1 q2 : rqty) u : to_qty G q u = Ok q1 -> to_qty G q1 (qu q) = Ok q2 -> q2 = q.
Proof.
  intros H1 H2.
  unfold to_qty, bind in H1. destruct (to_value G q u) as [x|] eqn:E1; [|discriminate]. apply ctor_ok in H1. subst q1.
  unfold to_qty, bind in H2. destruct (to_value G _ (qu q)) as [y|] eqn:E2; [|discriminate]. apply ctor_ok in H2. subst q2.
  cbn in *. destruct (to_value_closed _ _ _ E1) as (fs & ft & Hs & Ht & Hx).
  destruct (to_value_closed _ _ _ E2) as (fs' & ft' & Hs' & Ht' & Hy). cbn in *.
  rewrite Ht in Hs'. injection Hs' as <-. rewrite Hs in Ht'. injection Ht' as <-.
  assert (0 < fs) by (eapply factor_pos; eauto).
  destruct q as [k v u0]; cbn in *. f_equal. nra.
Qed.
