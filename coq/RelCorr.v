(** * RelCorr: executable comparison of the Relations model (binary64) with gearpy: full public link state of every element
    after every declaration call (failing ones included) and the outcome of Powertrain(motor). *)
From Coq Require Import ZArith String List Bool PrimFloat.
From GP Require Import ArithDef FloatUtil UnitsCore PyUnits QOps Relations.
Import ListNotations.
Open Scope string_scope.

Section Corr.
Variable O : oracle.
Notation FX := (FA O).

(** observed link state of one element: drives, driven_by, role (0 none, 1 master, 2 slave), ratio, efficiency, self_locking (0 n/a, 1 false, 2 true) *)
Record obs := { o_drives : option nat; o_driven_by : option nat; o_role : nat; o_ratio : option float; o_eff : float; o_lock : nat }.
Inductive callexp := CallOk (st : list obs) | CallErr (e : exn) (st : list obs).
Inductive asmexp := AsmOk (ids : list nat) (selflock : bool) | AsmErr (e : exn).
Record rcase := { rc_elems : list (@edecl FX); rc_calls : list (@relcall FX * callexp); rc_motor : nat; rc_asm : asmexp }.

(** bit for bit ([tol = false]) or within 1e-9 relative ([tol = true]: only to classify a disagreement as rounding-level) *)
Definition r_close (x y : float) : bool :=
  fbits_eq x y || PrimFloat.leb (PrimFloat.abs (PrimFloat.sub x y))
                                (PrimFloat.add (PrimFloat.mul 0x1.12e0be826d695p-30 (PrimFloat.add (PrimFloat.abs x) (PrimFloat.abs y))) 0x1p-1000).
Definition r_eq (tol : bool) (x y : float) : bool := if tol then r_close x y else fbits_eq x y.
Definition onat_eqb (a b : option nat) : bool := match a, b with None, None => true | Some x, Some y => Nat.eqb x y | _, _ => false end.
Definition obs_eqb (tol : bool) (x : @edecl FX * @elink FX) (o : obs) : bool :=
  let l := snd x in
  onat_eqb (l_drives l) (o_drives o) && onat_eqb (l_driven_by l) (o_driven_by o)
  && Nat.eqb (match l_role l with None => 0 | Some RMaster => 1 | Some RSlave => 2 end) (o_role o)
  && match l_ratio l, o_ratio o with None, None => true | Some a, Some b => r_eq tol a b | _, _ => false end
  && r_eq tol (l_eff l) (o_eff o)
  && Nat.eqb (match l_selflock l with None => 0 | Some false => 1 | Some true => 2 end) (o_lock o).
Fixpoint state_eqb (tol : bool) (s : @rstate FX) (os : list obs) : bool :=
  match s, os with [], [] => true | x :: s', o :: os' => obs_eqb tol x o && state_eqb tol s' os' | _, _ => false end.

(** code: 0 ok; 100+k: call k differs in outcome class; 200+k: call k leaves a different state (400+k: different only in the last bits
    of a ratio or an efficiency, and the comparison goes on); 50: assembly differs *)
Fixpoint calls_code (s : @rstate FX) (cs : list (@relcall FX * callexp)) (k : N) : N * @rstate FX :=
  match cs with
  | [] => (0%N, s)
  | (c, e) :: cs' =>
      let r := declare s c in
      let s' := match r with Ok s1 => s1 | Err _ => s end in
      let okc := match r, e with
                 | Ok _, CallOk _ => true
                 | Err x, CallErr y _ => exn_eqb x y
                 | _, _ => false end in
      let st := match e with CallOk st => st | CallErr _ st => st end in
      if negb okc then ((100 + k)%N, s') else
      if negb (state_eqb true s' st) then ((200 + k)%N, s') else
      let rest := calls_code s' cs' (N.succ k) in
      if negb (state_eqb false s' st) && N.eqb (fst rest) 0 then ((400 + k)%N, snd rest) else rest
  end.
Fixpoint nats_eqb (a b : list nat) : bool :=
  match a, b with [], [] => true | x :: a', y :: b' => Nat.eqb x y && nats_eqb a' b' | _, _ => false end.
Definition rcase_code (c : rcase) : N :=
  let s0 := map (fun d => (d, fresh_link (d_kind d))) (rc_elems c) in
  let (code, s) := calls_code s0 (rc_calls c) 0 in
  if negb (N.eqb code 0) && N.ltb code 400 then code else
  let code400 := code in
  match assemble s (rc_motor c), rc_asm c with
  | Ok (ids, lk), AsmOk ids' lk' => if nats_eqb ids ids' && Bool.eqb lk lk' then code400 else 50%N
  | Err e, AsmErr e' => if exn_eqb e e' then code400 else 51%N
  | _, _ => 52%N
  end.
Fixpoint rfailing_from (i : N) (l : list rcase) : list (N * (N * N)) :=
  match l with
  | [] => []
  | g :: l' => let c := rcase_code g in if N.eqb c 0 then rfailing_from (N.succ i) l' else (i, (c, 0%N)) :: rfailing_from (N.succ i) l'
  end.
Definition rfailing (l : list rcase) : list (N * (N * N)) := rfailing_from 0 l.
End Corr.

(** * KeysCorr: the finite model Keys.v against what gearpy's elements advertise and record *)
From GP Require Import Keys.
Inductive kexp := KRaises | KRecorded (final_keys : list string) (full_keys : list string).   (* keys of the dict; keys with one sample per instant *)
Record kcase := { kc_cfg : kcfg; kc_ctor : list string; kc_exp : kexp }.
Fixpoint strs_eqb (a b : list string) : bool :=
  match a, b with [], [] => true | x :: a', y :: b' => String.eqb x y && strs_eqb a' b' | _, _ => false end.
Definition kcase_code (k : kcase) : N :=
  if negb (strs_eqb (ctor_keys (kc_cfg k)) (kc_ctor k)) then 1%N else
  match kc_exp k with
  | KRaises => if instant_raises (kc_cfg k) then 0%N else 2%N
  | KRecorded fin full =>
      if instant_raises (kc_cfg k) then 3%N else
      if negb (strs_eqb (advertised (kc_cfg k)) fin) then 4%N else
      if negb (strs_eqb (appended (kc_cfg k)) full) then 5%N else 0%N
  end.
Fixpoint kfailing_from (i : N) (l : list kcase) : list (N * (N * N)) :=
  match l with
  | [] => []
  | g :: l' => let c := kcase_code g in if N.eqb c 0 then kfailing_from (N.succ i) l' else (i, (c, 0%N)) :: kfailing_from (N.succ i) l'
  end.
Definition kfailing (l : list kcase) : list (N * (N * N)) := kfailing_from 0 l.

(** * GearCorr: the gear formulas (binary64) against gearpy *)
From GP Require Import Gears.
Section GearCorr.
Variable O : oracle.
Notation FX := (FA O).
Inductive gexp := GQ (v : float) (u : string) | GNum (v : float) | GErr (e : exn).
Inductive gcall :=
  | GForce (g : @gear FX) (r : option role) (ltq dtq : qty FX)
  | GLewis (g : @gear FX)
  | GBend (g : @gear FX) (r : option role) (mate : option (@gear FX)) (ft : qty FX)
  | GContact (g : @gear FX) (r : option role) (mate : option (@gear FX)) (ft : qty FX).
(** bit for bit ([tol = false]) or within 1e-9 relative ([tol = true], used only to classify a disagreement as rounding-level) *)
Definition g_close (x y : float) : bool :=
  fbits_eq x y || PrimFloat.leb (PrimFloat.abs (PrimFloat.sub x y))
                                (PrimFloat.add (PrimFloat.mul 0x1.12e0be826d695p-30 (PrimFloat.add (PrimFloat.abs x) (PrimFloat.abs y))) 0x1p-1000).
Definition g_eq (tol : bool) (x y : float) : bool := if tol then g_close x y else fbits_eq x y.
Definition gq_ok (tol : bool) (r : res (qty FX)) (e : gexp) : bool :=
  match r, e with
  | Ok q, GQ v u => g_eq tol (qv q) v && String.eqb (qu q) u
  | Err x, GErr y => exn_eqb x y
  | _, _ => false end.
Definition gcase_ok (tol : bool) (c : gcall * gexp) : bool :=
  match fst c with
  | GForce g r l d => gq_ok tol (tangential_force g r l d) (snd c)
  | GLewis g => match lewis_factor g, snd c with Ok y, GNum v => g_eq tol y v | Err x, GErr y => exn_eqb x y | _, _ => false end
  | GBend g r m ft => gq_ok tol (bending_stress g r m ft) (snd c)
  | GContact g r m ft => gq_ok tol (contact_stress g r m ft) (snd c)
  end.
Fixpoint gearfailing_from (i : N) (l : list (gcall * gexp)) : list (N * (N * N)) :=
  match l with
  | [] => []
  | c :: l' => if gcase_ok false c then gearfailing_from (N.succ i) l'
              else let k := (match fst c with GForce _ _ _ _ => 1 | GLewis _ => 2 | GBend _ _ _ _ => 3 | GContact _ _ _ _ => 4 end)%N in
                   (i, ((if gcase_ok true c then N.add 100 k else k), 0%N)) :: gearfailing_from (N.succ i) l'
  end.
Definition gearfailing (l : list (gcall * gexp)) : list (N * (N * N)) := gearfailing_from 0 l.
End GearCorr.

(** * ReportCorr: snapshot and export of the model (binary64) on a recorded history against gearpy's on the same history *)
From GP Require Import Report.
Section ReportCorr.
Variable O : oracle.
Notation FX := (FA O).
Inductive snapexp := SnapOk (cols : list string) (rows : list (string * list (option float))) | SnapErr (e : exn).
Inductive expexp := ExpOk (cols : list (string * list float)) | ExpErr (e : exn).
Inductive repcall :=
  | RSnap (times : list (qty FX)) (els : list (@erec FX)) (req : option (list string)) (us : units) (target : qty FX) (e : snapexp)
  | RExport (times : list (qty FX)) (el : @erec FX) (us : units) (e : expexp)
  (* Powertrain.export_time_variables: the files gearpy wrote (name, table) in element order and the exception class if it raised *)
  | RExportAll (times : list (qty FX)) (els : list (@erec FX)) (us : units) (files : list (string * list (string * list float))) (err : option exn).
Definition ofl_eqb (a : option float) (b : option float) : bool :=
  match a, b with None, None => true | Some x, Some y => fbits_eq x y | _, _ => false end.
Fixpoint ofls_eqb (a b : list (option float)) : bool :=
  match a, b with [], [] => true | x :: a', y :: b' => ofl_eqb x y && ofls_eqb a' b' | _, _ => false end.
Fixpoint fls_eqb (a b : list float) : bool :=
  match a, b with [], [] => true | x :: a', y :: b' => fbits_eq x y && fls_eqb a' b' | _, _ => false end.
Fixpoint rows_eqb (a b : list (string * list (option float))) : bool :=
  match a, b with [], [] => true | (n, c) :: a', (n', c') :: b' => String.eqb n n' && ofls_eqb c c' && rows_eqb a' b' | _, _ => false end.
Fixpoint cols_eqb (a b : list (string * list float)) : bool :=
  match a, b with [], [] => true | (n, c) :: a', (n', c') :: b' => String.eqb n n' && fls_eqb c c' && cols_eqb a' b' | _, _ => false end.
Definition repcall_code (c : repcall) : N :=
  match c with
  | RSnap times els req us target e =>
      match snapshot times els req us target, e with
      | Ok (cols, rows), SnapOk cols' rows' => if negb (strs_eqb cols cols') then 1%N else if rows_eqb rows rows' then 0%N else 2%N
      | Err x, SnapErr y => if exn_eqb x y then 0%N else 3%N
      | _, _ => 4%N end
  | RExportAll times els us files err =>
      let r := export_all times els us in
      let fix files_eqb (a b : list (string * list (string * list float))) : bool :=
        match a, b with
        | [], [] => true
        | (n, c) :: a', (n', c') :: b' => String.eqb n n' && cols_eqb c c' && files_eqb a' b'
        | _, _ => false
        end in
      if negb (files_eqb (fst r) files) then 5%N else
      match snd r, err with
      | None, None => 0%N
      | Some x, Some y => if exn_eqb x y then 0%N else 6%N
      | _, _ => 7%N
      end
  | RExport times el us e =>
      match export times el us, e with
      | Ok cols, ExpOk cols' => if cols_eqb cols cols' then 0%N else 5%N
      | Err x, ExpErr y => if exn_eqb x y then 0%N else 6%N
      | _, _ => 7%N end
  end.
Fixpoint repfailing_from (i : N) (l : list repcall) : list (N * (N * N)) :=
  match l with
  | [] => []
  | c :: l' => let k := repcall_code c in if N.eqb k 0 then repfailing_from (N.succ i) l' else (i, (k, 0%N)) :: repfailing_from (N.succ i) l'
  end.
Definition repfailing (l : list repcall) : list (N * (N * N)) := repfailing_from 0 l.
End ReportCorr.
