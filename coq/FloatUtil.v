(** * FloatUtil: the binary64 instance [FA] and bit-level helpers. *)
From Coq Require Import ZArith QArith String List Bool.
From Coq Require Import PrimFloat Uint63 FloatOps SpecFloat.
From GP Require Import ArithDef.
Import ListNotations.
Open Scope float_scope.

(** Bit equality: distinguishes 0 from -0, identifies all NaNs (Python has one observable NaN). *)
Definition fbits_eq (x y : float) : bool :=
  (PrimFloat.eqb x y && Bool.eqb (get_sign x) (get_sign y)) || (is_nan x && is_nan y).

(** Python round(): nearest integer, ties to even.  Via the specification float. *)
Definition Zround_half_even_spec (s : spec_float) : Z :=
  match s with
  | S754_zero _ | S754_infinity _ | S754_nan => 0%Z
  | S754_finite sg m e =>
      let mz := Zpos m in
      let v :=
        if (0 <=? e)%Z then (mz * 2 ^ e)%Z
        else
          let d := (2 ^ (- e))%Z in
          let q := (mz / d)%Z in let r := (mz mod d)%Z in
          let twice := (2 * r)%Z in
          if (twice <? d)%Z then q
          else if (d <? twice)%Z then (q + 1)%Z
          else if Z.even q then q else (q + 1)%Z in
      if sg then (- v)%Z else v
  end.
Definition fround_half_even (x : float) : Z := Zround_half_even_spec (Prim2SF x).

(** The libm oracle: a table of (function tag, argument, result), looked up by exact argument bits.
    A miss yields nan, which the correspondence check reports (the model computed another argument than the code). *)
Inductive libm_fn := LSin | LCos | LTan | LAtan | LSquare.
Definition libm_fn_eqb (a b : libm_fn) : bool :=
  match a, b with LSin, LSin | LCos, LCos | LTan, LTan | LAtan, LAtan | LSquare, LSquare => true | _, _ => false end.
Definition oracle := list (libm_fn * float * float).
Fixpoint oracle_lookup (o : oracle) (f : libm_fn) (x : float) : float :=
  match o with
  | [] => nan
  | (g, a, r) :: o' => if libm_fn_eqb f g && fbits_eq a x then r else oracle_lookup o' f x
  end.

Definition of_Z_float (z : Z) : float :=
  match z with
  | Z0 => 0
  | Zpos p => of_uint63 (Uint63.of_Z (Zpos p))
  | Zneg p => - of_uint63 (Uint63.of_Z (Zpos p))
  end.

Definition FA (o : oracle) : Arith := {|
  num := float;
  zero := 0; one := 1; pi := 0x1.921fb54442d18p+1;
  add := PrimFloat.add; sub := PrimFloat.sub; mul := PrimFloat.mul; div := PrimFloat.div;
  neg := PrimFloat.opp; absn := PrimFloat.abs; sqrtn := PrimFloat.sqrt;
  ltb := PrimFloat.ltb; leb := PrimFloat.leb; eqb := PrimFloat.eqb;
  lit := fun _ f => f;
  of_Z := of_Z_float;
  round_half_even := fround_half_even;
  fsin := oracle_lookup o LSin; fcos := oracle_lookup o LCos; ftan := oracle_lookup o LTan;
  fatan := oracle_lookup o LAtan; fsquare := oracle_lookup o LSquare
|}.
