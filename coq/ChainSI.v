(** * ChainSI: the coupling of the chain read in SI, end to end (C01, C02), over the reals and for quantities in any units:
    the motor's position/speed/acceleration is the output element's times the product of the gear ratios; the output element's driving
    torque is the motor's times the product of (efficiency x ratio); the motor's load torque is the output element's divided by it. *)
From Coq Require Import ZArith QArith Reals Lra String List Bool.
From GP Require Import ArithDef UnitsCore PyUnits RealArith Spec UnitsR QOps QOpsR Motor Solver SolverProofs SolverSI.
Import ListNotations.
Open Scope R_scope.

(** load torques: head = last / product of (efficiency * ratio) *)
Lemma load_linked_si es (l : list rq) : load_linked es l -> forall x s, lastq l = Ok x -> si x = Ok s ->
  exists h, headq l = Ok h /\ si h = Ok (s / gainR es) /\ gainR es <> 0.
Proof.
  induction 1 as [x0|e es y a b l Hl IH Ha Hb]; intros x s Hlast Hs.
  - cbn in Hlast. injection Hlast as <-. exists x0. cbn. split; [reflexivity|]. split; [rewrite Hs; f_equal; lra|lra].
  - assert (Hlast' : lastq (y :: l) = Ok x).
    { unfold lastq in *. cbn [rev] in *. destruct (rev l ++ [y])%list eqn:E; [destruct (rev l); discriminate|]. cbn in Hlast. exact Hlast. }
    destruct (IH x s Hlast' Hs) as (h & Hh & Hsh & Hnz). cbn in Hh. injection Hh as <-.
    destruct (q_divn_si _ _ _ _ Ha Hsh) as (He & _ & _ & sa). destruct (q_divn_si _ _ _ _ Hb sa) as (Hr & _ & _ & sb).
    exists b. cbn [headq]. split; [reflexivity|].
    assert (Hg : gainR (e :: es) = (e_eff e : R) * (e_ratio e : R) * gainR es) by reflexivity.
    change (num RA) with R in *. split.
    + rewrite sb. f_equal. rewrite Hg. field. repeat split; assumption.
    + rewrite Hg. apply Rmult_integral_contrapositive_currified; [apply Rmult_integral_contrapositive_currified|]; assumption.
Qed.

Section Chain.
Variable c : @chain RA.
Variable load : rq -> rq -> rq -> res rq.

(** C01 in SI: at every recorded instant the motor's position is Rr times the output element's; so are speed and acceleration when the
    instant is not held *)
Theorem kinematics_end_to_end ops p w st t s xl X : exec c load ops (initial p w) = Ok st -> In (t, s) (y_hist st) ->
  lastq (s_pos s) = Ok xl -> si xl = Ok X ->
  exists x0, headq (s_pos s) = Ok x0 /\ si x0 = Ok (Rr c * X).
Proof.
  intros He Hin Hl sx. destruct (reachable_kin c load ops p w st t s He Hin) as (Hpos & _).
  destruct (linked_si _ _ Hpos _ _ Hl sx) as (h & Hh & sh & _). exists h. auto.
Qed.
Theorem speed_end_to_end ops p w st t s xl X : exec c load ops (initial p w) = Ok st -> In (t, s) (y_hist st) -> s_locked s = false ->
  lastq (s_spd s) = Ok xl -> si xl = Ok X ->
  exists x0, headq (s_spd s) = Ok x0 /\ si x0 = Ok (Rr c * X).
Proof.
  intros He Hin Hlk Hl sx. destruct (reachable_kin c load ops p w st t s He Hin) as (_ & Hun & _). destruct (Hun Hlk) as (Hspd & _).
  destruct (linked_si _ _ Hspd _ _ Hl sx) as (h & Hh & sh & _). exists h. auto.
Qed.
Theorem acceleration_end_to_end ops p w st t s xl X : exec c load ops (initial p w) = Ok st -> In (t, s) (y_hist st) -> s_locked s = false ->
  lastq (s_acc s) = Ok xl -> si xl = Ok X ->
  exists x0, headq (s_acc s) = Ok x0 /\ si x0 = Ok (Rr c * X).
Proof.
  intros He Hin Hlk Hl sx. destruct (reachable_kin c load ops p w st t s He Hin) as (_ & Hun & _). destruct (Hun Hlk) as (_ & Hacc).
  destruct (linked_si _ _ Hacc _ _ Hl sx) as (h & Hh & sh & _). exists h. auto.
Qed.

(** C02 in SI: driving torque motor -> output, load torque output -> motor *)
Theorem driving_torque_end_to_end ops p w st t s d0 D0 : exec c load ops (initial p w) = Ok st -> In (t, s) (y_hist st) ->
  headq (s_dtq s) = Ok d0 -> si d0 = Ok D0 ->
  exists dl, lastq (s_dtq s) = Ok dl /\ si dl = Ok (D0 * Gg c).
Proof.
  intros He Hin Hh sd. destruct (reachable_torque c load ops p w st t s He Hin) as ((_ & _ & _ & _ & _ & Hdl) & _).
  destruct (drive_linked_si _ _ Hdl _ _ Hh sd) as (x & Hx & sx & _). exists x. auto.
Qed.
Theorem load_torque_end_to_end ops p w st t s ll LL : exec c load ops (initial p w) = Ok st -> In (t, s) (y_hist st) ->
  lastq (s_ltq s) = Ok ll -> si ll = Ok LL ->
  exists l0, headq (s_ltq s) = Ok l0 /\ si l0 = Ok (LL / Gg c) /\ Gg c <> 0.
Proof.
  intros He Hin Hl sl. destruct (reachable_torque c load ops p w st t s He Hin) as (_ & (_ & _ & _ & _ & _ & _ & _ & Hll) & _).
  exact (load_linked_si _ _ Hll _ _ Hl sl).
Qed.
End Chain.
