(** * C04Core: explicit Euler on the linear equation  w' = A - k w  against its exponential solution. *)
From Coq Require Import Reals Lra Lia.
From Coquelicot Require Import Coquelicot.
Open Scope R_scope.

Lemma exp_neg_quad : forall x, 0 <= x -> exp (-x) <= 1 - x + x*x/2.
Proof.
  intros x Hx. destruct (Req_dec x 0) as [->|Hne]. { rewrite Ropp_0, exp_0. lra. }
  assert (Hpos : 0 < x) by lra.
  pose (h := fun y => 1 - y + y*y/2 - exp (-y)).
  destruct (MVT_gen h 0 x (fun y => -1 + y + exp (-y))) as [c [Hc Heq]].
  - intros y Hy. unfold h. auto_derive; [exact I|]. field.
  - intros y Hy. unfold h. apply derivable_continuous_pt. exists (-1 + y + exp (-y)).
    apply is_derive_Reals. auto_derive; [exact I|field].
  - unfold h in Heq. rewrite Ropp_0, exp_0 in Heq. rewrite Rmin_left, Rmax_right in Hc by lra.
    assert (0 <= -1 + c + exp (-c)) by (generalize (exp_ineq1_le (-c)); lra).
    assert (0 <= (-1 + c + exp (-c)) * (x - 0)) by (apply Rmult_le_pos; lra). lra.
Qed.
Lemma pow_diff_le : forall a b n, 0 <= b <= a -> a^n - b^n <= INR n * (a - b) * a^(n-1).
Proof.
  intros a b n [Hb Hab]. induction n as [|n IH]. - simpl. lra.
  - assert (Hbn : b^n <= a^n) by (apply pow_incr; lra). assert (Han : 0 <= a^n) by (apply pow_le; lra).
    rewrite S_INR. replace (S n - 1)%nat with n by lia. destruct n as [|n]. + simpl in *. lra.
    + replace (S n - 1)%nat with n in IH by lia.
      change (a^(S (S n))) with (a * a^(S n)). change (b^(S (S n))) with (b * b^(S n)).
      assert (Hge : 0 <= a^(S n) - b^(S n)) by lra.
      assert (H1 : a * (a^(S n) - b^(S n)) <= a * (INR (S n) * (a - b) * a^n)) by (apply Rmult_le_compat_l; lra).
      assert (H2 : (a - b) * b^(S n) <= (a - b) * a^(S n)) by (apply Rmult_le_compat_l; lra).
      change (a^(S n)) with (a * a^n) in *. nra.
Qed.
Lemma y_exp_neg : forall y, y * exp (-y) <= exp (-1).
Proof. intro y. assert (H := exp_ineq1_le (y - 1)). replace (exp (-1)) with (exp (y - 1) * exp (-y)).
  - apply Rmult_le_compat_r; [left; apply exp_pos| lra]. - rewrite <- exp_plus. f_equal. ring. Qed.
Lemma exp_pow : forall x n, exp (- (INR n * x)) = (exp (-x))^n.
Proof. intros x n. induction n as [|n IH]. - simpl. rewrite Rmult_0_l, Ropp_0. apply exp_0.
  - rewrite S_INR. replace (- ((INR n + 1) * x)) with (- x + - (INR n * x)) by ring. rewrite exp_plus, IH. simpl. ring. Qed.
Lemma exp_m1_half : exp (-1) <= 1/2.
Proof.
  assert (H : 2 <= exp 1) by (generalize (exp_ineq1_le 1); lra).
  assert (E : exp (-1) = / exp 1) by (replace (-1) with (- (1)) by lra; apply exp_Ropp). rewrite E.
  apply Rmult_le_reg_r with (exp 1); [apply exp_pos|]. rewrite Rinv_l by (apply Rgt_not_eq, exp_pos). lra.
Qed.

(** the Euler factor (1 - x)^k against the exact decay e^{-k x}: below it, and within 0.4 x of it, for every step count k *)
Theorem euler_speed_error : forall x k, 0 < x <= 1/5 -> 0 <= exp (- (INR k * x)) - (1 - x)^k <= 2/5 * x.
Proof.
  intros x k [Hx0 Hx1]. assert (Hb : 0 <= 1 - x <= exp (-x)) by (generalize (exp_ineq1_le (-x)); lra).
  rewrite exp_pow. split. - assert (H := pow_incr (1-x) (exp (-x)) k Hb). lra.
  - destruct k as [|k]. { simpl. lra. } eapply Rle_trans. { apply pow_diff_le. exact Hb. }
    replace (S k - 1)%nat with k by lia.
    assert (Hq : exp (-x) - (1 - x) <= x*x/2) by (generalize (exp_neg_quad x); lra).
    rewrite <- exp_pow. rewrite S_INR. assert (Hy := y_exp_neg (INR k * x)).
    assert (He1 := exp_m1_half).
    assert (Hek : 0 < exp (- (INR k * x)) <= 1).
    { split. apply exp_pos. rewrite <- exp_0. destruct (Req_dec (INR k * x) 0) as [->|Hn]. rewrite Ropp_0; lra.
      left. apply exp_increasing. assert (0 <= INR k) by apply pos_INR. nra. }
    assert (Hk : 0 <= INR k) by apply pos_INR. assert (Hd0 : 0 <= exp (-x) - (1 - x)) by lra.
    set (e := exp (- (INR k * x))) in *. set (d := exp (-x) - (1 - x)) in *.
    assert (H3 : (INR k + 1) * d * e <= (INR k + 1) * (x*x/2) * e).
    { apply Rmult_le_compat_r; [lra|]. apply Rmult_le_compat_l; lra. } nra.
Qed.

(** ** layer S: the explicit (semi-implicit in position) Euler recurrence the solver performs on  w' = A - kap w *)
Section Euler.
Variables A kap dt w0 th0 : R.
Hypothesis Hkap : 0 < kap.
Hypothesis Hdt : 0 < dt.
Let x := kap * dt.
Hypothesis Hx : x <= 1/5.
Let winf := A / kap.

Fixpoint euler (k : nat) : R * R :=                 (* (position, speed) after k steps *)
  match k with
  | O => (th0, w0)
  | S k' => let (th, w) := euler k' in let w' := w + (A - kap * w) * dt in (th + w' * dt, w')
  end.
(** the exact solution *)
Definition w_exact (t : R) : R := winf + (w0 - winf) * exp (- (kap * t)).
Definition th_exact (t : R) : R := th0 + winf * t + (w0 - winf) * ((1 - exp (- (kap * t))) / kap).

Lemma euler_speed k : snd (euler k) = winf + (w0 - winf) * (1 - x) ^ k.
Proof.
  induction k as [|k IH]; cbn [euler]; [cbn; lra|]. destruct (euler k) as [th w]. cbn [snd] in *. rewrite IH. unfold winf, x. cbn [pow]. field. lra.
Qed.
Lemma euler_pos k : fst (euler k) = th0 + winf * (INR k * dt) + (w0 - winf) * ((1 - x) * (1 - (1 - x) ^ k) / kap).
Proof.
  induction k as [|k IH]; [cbn; field; lra|].
  assert (Hs := euler_speed (S k)). cbn [euler] in *. destruct (euler k) as [th w]. cbn [fst snd] in *.
  rewrite IH, Hs. rewrite S_INR. unfold winf, x. cbn [pow]. field. lra.
Qed.

Lemma x_pos : 0 < x. Proof. unfold x. apply Rmult_lt_0_compat; assumption. Qed.

(** speed: the simulated speed is within (2/5) kap dt |w0 - w_inf| of the closed form at every instant *)
Theorem speed_error k : Rabs (snd (euler k) - w_exact (INR k * dt)) <= 2/5 * x * Rabs (w0 - winf).
Proof.
  rewrite euler_speed. unfold w_exact.
  replace (kap * (INR k * dt)) with (INR k * x) by (unfold x; ring).
  replace (winf + (w0 - winf) * (1 - x) ^ k - (winf + (w0 - winf) * exp (- (INR k * x)))) with (- ((w0 - winf) * (exp (- (INR k * x)) - (1 - x) ^ k))) by ring.
  rewrite Rabs_Ropp, Rabs_mult. destruct (euler_speed_error x k (conj x_pos Hx)) as [H1 H2].
  rewrite (Rabs_pos_eq (exp _ - _)) by lra. assert (0 <= Rabs (w0 - winf)) by apply Rabs_pos. nra.
Qed.
(** position: within dt |w0 - w_inf| of the closed form at every instant *)
Theorem position_error k : Rabs (fst (euler k) - th_exact (INR k * dt)) <= dt * Rabs (w0 - winf).
Proof.
  rewrite euler_pos. unfold th_exact.
  replace (kap * (INR k * dt)) with (INR k * x) by (unfold x; ring).
  destruct (euler_speed_error x k (conj x_pos Hx)) as [H1 H2].
  set (E := exp (- (INR k * x))) in *. set (q := (1 - x) ^ k) in *.
  assert (Hq : 0 <= q <= 1).
  { unfold q. generalize x_pos; intros Hxp. split; [apply pow_le; lra|]. apply Rle_trans with (1 ^ k); [apply pow_incr; lra|rewrite pow1; lra]. }
  replace (th0 + winf * (INR k * dt) + (w0 - winf) * ((1 - x) * (1 - q) / kap) - (th0 + winf * (INR k * dt) + (w0 - winf) * ((1 - E) / kap)))
    with ((w0 - winf) * (((E - q) - x * (1 - q)) / kap)) by (field; lra).
  rewrite Rabs_mult. rewrite Rmult_comm. apply Rmult_le_compat_r; [apply Rabs_pos|].
  assert (Hb : Rabs ((E - q - x * (1 - q)) / kap) <= x / kap).
  { unfold Rdiv. rewrite Rabs_mult, (Rabs_pos_eq (/ kap)) by (left; apply Rinv_0_lt_compat; lra).
    apply Rmult_le_compat_r; [left; apply Rinv_0_lt_compat; lra|]. generalize x_pos. intros Hxp. assert (0 <= x * (1 - q) <= x) by nra. apply Rabs_le. lra. }
  replace dt with (x / kap) by (unfold x; field; lra). exact Hb.
Qed.
End Euler.
