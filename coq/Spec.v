(** * Spec: hand-written, independent statement of what the quantity layer must mean.

    Nothing here is generated and nothing here looks at the code: the SI definition of every unit (as [q * PI^z] with [q]
    an exact rational), the sign constraint of every kind, and the dimension table of the binary operations.  The
    theorems of [UnitsR], [UnitsDim], [UnitsValid] relate the REGENERATED description of gearpy/units ([GEN]) to these. *)
From Coq Require Import ZArith QArith String List Bool.
From GP Require Import UnitsCore.
Import ListNotations.
Open Scope string_scope.

(** SI factor of a unit: [(q, z)] stands for q * PI^z. *)
Definition sifactor := (Q * Z)%type.
Definition rat (q : Q) : sifactor := (q, 0%Z).
Definition ratpi (q : Q) : sifactor := (q, 1%Z).

Definition g0 : Q := 980665 # 100000.     (* standard gravity, m/s^2: 1 kgf = 9.80665 N *)

Definition spec_units (k : kind) : list (string * sifactor) :=
  match k with
  | KAngularPosition | KAngle =>
      [("rad", rat 1); ("deg", ratpi (1#180)); ("arcmin", ratpi (1#10800)); ("arcsec", ratpi (1#648000)); ("rot", ratpi 2)]
  | KAngularSpeed =>
      [("rad/s", rat 1); ("rad/min", rat (1#60)); ("rad/h", rat (1#3600));
       ("deg/s", ratpi (1#180)); ("deg/min", ratpi (1#10800)); ("deg/h", ratpi (1#648000));
       ("rps", ratpi 2); ("rpm", ratpi (2#60)); ("rph", ratpi (2#3600))]
  | KAngularAcceleration => [("rad/s^2", rat 1); ("deg/s^2", ratpi (1#180)); ("rot/s^2", ratpi 2)]
  | KInertiaMoment =>
      [("kgm^2", rat 1); ("kgdm^2", rat (1#100)); ("kgcm^2", rat (1#10000)); ("kgmm^2", rat (1#1000000));
       ("gm^2", rat (1#1000)); ("gdm^2", rat (1#100000)); ("gcm^2", rat (1#10000000)); ("gmm^2", rat (1#1000000000))]
  | KTorque =>
      [("Nm", rat 1); ("mNm", rat (1#1000)); ("mNdm", rat (1#10000)); ("mNcm", rat (1#100000)); ("mNmm", rat (1#1000000));
       ("kNm", rat 1000); ("kNdm", rat 100); ("kNcm", rat 10); ("kNmm", rat 1);
       ("kgfm", rat g0); ("kgfdm", rat (g0 / 10)); ("kgfcm", rat (g0 / 100)); ("kgfmm", rat (g0 / 1000));
       ("gfm", rat (g0 / 1000)); ("gfdm", rat (g0 / 10000)); ("gfcm", rat (g0 / 100000)); ("gfmm", rat (g0 / 1000000))]
  | KTime | KTimeInterval => [("sec", rat 1); ("min", rat 60); ("hour", rat 3600); ("ms", rat (1#1000))]
  | KLength => [("m", rat 1); ("dm", rat (1#10)); ("cm", rat (1#100)); ("mm", rat (1#1000))]
  | KSurface => [("m^2", rat 1); ("dm^2", rat (1#100)); ("cm^2", rat (1#10000)); ("mm^2", rat (1#1000000))]
  | KForce => [("N", rat 1); ("mN", rat (1#1000)); ("kN", rat 1000); ("kgf", rat g0); ("gf", rat (g0 / 1000))]
  | KStress => [("Pa", rat 1); ("kPa", rat 1000); ("MPa", rat 1000000); ("GPa", rat 1000000000)]
  | KCurrent => [("A", rat 1); ("mA", rat (1#1000)); ("uA", rat (1#1000000))]
  end.

(** Sign constraints of the property C19. *)
Definition spec_constraint (k : kind) : constraint :=
  match k with
  | KLength | KSurface | KInertiaMoment | KTimeInterval => CPositive
  | KAngle => CNonNegative
  | _ => CNone
  end.

(** Sub-kinds: an Angle is an AngularPosition, a TimeInterval is a Time. *)
Definition spec_parent (k : kind) : option kind :=
  match k with KAngle => Some KAngularPosition | KTimeInterval => Some KTime | _ => None end.
Definition base_kind (k : kind) : kind := match spec_parent k with Some p => p | None => k end.

(** Dimension table (C06).  [DQ k]: a quantity of kind k; [DNum]: a plain number. *)
Inductive dim := DQ (k : kind) | DNum.
(** quantity * quantity *)
Definition spec_mul (a b : kind) : option dim :=
  match base_kind a, base_kind b with
  | KAngularSpeed, KTime | KTime, KAngularSpeed => Some (DQ KAngularPosition)
  | KAngularAcceleration, KTime | KTime, KAngularAcceleration => Some (DQ KAngularSpeed)
  | KLength, KLength => Some (DQ KSurface)
  | _, _ => None
  end.
(** quantity / quantity *)
Definition spec_div (a b : kind) : option dim :=
  if kind_eqb (base_kind a) (base_kind b) then Some DNum else
  match a, b with
  | KTorque, KInertiaMoment => Some (DQ KAngularAcceleration)
  | KTorque, KLength => Some (DQ KForce)
  | KForce, KSurface => Some (DQ KStress)
  | _, _ => None
  end.
(** quantity + quantity, quantity - quantity: same family; the result is the sub-kind only if both operands are *)
Definition spec_addsub (a b : kind) : option kind :=
  if kind_eqb (base_kind a) (base_kind b) then Some (if kind_eqb a b then a else base_kind a) else None.
