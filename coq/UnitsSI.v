(** * UnitsSI: the regenerated unit tables equal the SI definitions of [Spec] (C05 a). *)
From Coq Require Import ZArith QArith Reals Lra Lia Qreals String List Bool.
From GP Require Import ArithDef UnitsCore PyUnits RealArith Spec UnitsR.
From GP.gen Require Import UnitsGen.
Import ListNotations.
Open Scope R_scope.

(** ** Normal form q * PI^z of a factor expression *)
Fixpoint fnorm (e : fexpr) : Q * Z :=
  match e with
  | FPi => (1%Q, 1%Z)
  | FNum q _ => (q, 0%Z)
  | FMul a b => let (qa, za) := fnorm a in let (qb, zb) := fnorm b in ((qa * qb)%Q, (za + zb)%Z)
  | FDiv a b => let (qa, za) := fnorm a in let (qb, zb) := fnorm b in ((qa / qb)%Q, (za - zb)%Z)
  end.
(** every divisor has a non-zero rational part *)
Fixpoint fnorm_ok (e : fexpr) : bool :=
  match e with
  | FPi | FNum _ _ => true
  | FMul a b => fnorm_ok a && fnorm_ok b
  | FDiv a b => fnorm_ok a && fnorm_ok b && negb (Qeq_bool (fst (fnorm b)) 0)
  end.
Definition sival (s : sifactor) : R := Q2R (fst s) * powerRZ PI (snd s).

Lemma PI_neq0' : PI <> 0. Proof. apply PI_neq0. Qed.

Lemma fnorm_sound e : fnorm_ok e = true -> @feval RA e = sival (fnorm e).
Proof.
  induction e as [|q f|a IHa b IHb|a IHa b IHb]; cbn [fnorm_ok fnorm feval]; intros H.
  - unfold sival; cbn. unfold Q2R; cbn. rewrite Rinv_1. change (Pos.to_nat 1) with 1%nat. cbn. lra.
  - unfold sival; cbn. lra.
  - apply andb_true_iff in H as [Ha Hb]. rewrite (IHa Ha), (IHb Hb).
    destruct (fnorm a) as [qa za], (fnorm b) as [qb zb]. unfold sival; cbn [fst snd].
    change (@mul RA) with Rmult. change (num RA) with R. rewrite Q2R_mult, powerRZ_add by apply PI_neq0'. ring.
  - apply andb_true_iff in H as [H Hn]. apply andb_true_iff in H as [Ha Hb]. rewrite (IHa Ha), (IHb Hb).
    destruct (fnorm a) as [qa za], (fnorm b) as [qb zb]. unfold sival; cbn [fst snd] in *.
    apply negb_true_iff in Hn. apply Qeq_bool_neq in Hn.
    change (@div RA) with Rdiv. change (num RA) with R. rewrite Q2R_div by exact Hn.
    unfold Zminus. rewrite powerRZ_add by apply PI_neq0'. rewrite powerRZ_neg'.
    assert (Q2R qb <> 0). { intro E. apply Hn. apply eqR_Qeq. rewrite E. unfold Q2R; cbn; lra. }
    assert (powerRZ PI zb <> 0) by (apply powerRZ_NOR; apply PI_neq0').
    unfold Rdiv. field. split; assumption.
Qed.

(** ** The generated tables equal the SI tables of [Spec] *)
Definition entry_match (g : string * fexpr) (s : string * sifactor) : bool :=
  String.eqb (fst g) (fst s) && fnorm_ok (snd g) && Qeq_bool (fst (fnorm (snd g))) (fst (snd s))
  && Z.eqb (snd (fnorm (snd g))) (snd (snd s)).
Fixpoint list_match (l : list (string * fexpr)) (s : list (string * sifactor)) : bool :=
  match l, s with
  | [], [] => true
  | g :: l', e :: s' => entry_match g e && list_match l' s'
  | _, _ => false
  end.
Definition tables_match : bool := forallb (fun k => list_match (@units_of G k) (spec_units k)) all_kinds.
Lemma tables_match_true : tables_match = true.
Proof. vm_compute. reflexivity. Qed.

Fixpoint spec_lookup (u : string) (s : list (string * sifactor)) : option sifactor :=
  match s with [] => None | (u', f) :: s' => if String.eqb u u' then Some f else spec_lookup u s' end.
Definition spec_factor (k : kind) (u : string) : option sifactor := spec_lookup u (spec_units k).

Lemma sival_Qeq q q' z : Qeq q q' -> sival (q, z) = sival (q', z).
Proof. intros H. unfold sival; cbn. rewrite (Qeq_eqR _ _ H). reflexivity. Qed.

Lemma lookup_match l s u : list_match l s = true ->
  @lookup RA u l = match spec_lookup u s with Some f => Ok (sival f) | None => Err KeyError end.
Proof.
  revert s. induction l as [|[u1 e] l IH]; intros [|[u2 f] s]; cbn [list_match lookup spec_lookup]; intros H; try discriminate.
  - reflexivity.
  - apply andb_true_iff in H as [H Hl]. unfold entry_match in H; cbn [fst snd] in H.
    apply andb_true_iff in H as [H Hz]. apply andb_true_iff in H as [H Hq]. apply andb_true_iff in H as [Hu Hok].
    apply String.eqb_eq in Hu. subst u2.
    destruct (String.eqb u u1).
    + rewrite (fnorm_sound e Hok). f_equal. destruct (fnorm e) as [q z]; destruct f as [q' z']; cbn [fst snd] in *.
      apply Z.eqb_eq in Hz. subst z'. apply sival_Qeq. apply Qeq_bool_iff. exact Hq.
    + apply IH. exact Hl.
Qed.

(** C05 (a): for every kind and every unit name, the factor the code uses is the SI definition; unknown names are KeyError. *)
Theorem factor_is_SI k u :
  @factor RA G k u = match spec_factor k u with Some f => Ok (sival f) | None => Err KeyError end.
Proof.
  unfold factor, spec_factor. apply lookup_match.
  generalize tables_match_true. unfold tables_match. rewrite forallb_forall. intros Hall. apply Hall.
  destruct k; cbn; tauto.
Qed.

