(** * C05 — Unit conversion agrees with SI definitions; comparisons are unit-blind.
    Only statements, each closed by [exact]; the proofs live in UnitsR / UnitsSI / UnitsCmp and are about [GEN], the
    description of gearpy/units REGENERATED from the source on every run. *)
From Coq Require Import ZArith QArith Reals String List Bool PrimFloat.
From GP Require Import ArithDef FloatUtil UnitsCore PyUnits RealArith Spec UnitsR UnitsSI UnitsCmp QuantityCorr.
From GP.gen Require Import UnitsGen.
Open Scope R_scope. Open Scope string_scope.

(** (a) every unit of every kind has exactly its SI definition ([Spec.spec_units], written by hand); other names raise KeyError *)
Theorem C05_factor_is_SI : forall k u,
  @factor RA GEN k u = match spec_factor k u with Some f => Ok (sival f) | None => Err KeyError end.
Proof. exact factor_is_SI. Qed.

(** (b) converting keeps kind and SI magnitude, takes the requested unit *)
Theorem C05_to_keeps_SI : forall (q q' : qty RA) u, to_qty GEN q u = Ok q' ->
  qk q' = qk q /\ qu q' = u /\ exists s, si q = Ok s /\ si q' = Ok s.
Proof. exact to_qty_si. Qed.
Theorem C05_to_inplace_keeps_SI : forall (q q' : qty RA) u, to_inplace GEN q u = Ok q' ->
  qk q' = qk q /\ qu q' = u /\ exists s, si q = Ok s /\ si q' = Ok s.
Proof. exact to_inplace_si. Qed.
Theorem C05_copy_and_inplace_agree : forall (q q1 q2 : qty RA) u, to_qty GEN q u = Ok q1 -> to_inplace GEN q u = Ok q2 -> q1 = q2.
Proof. exact to_copy_inplace_agree. Qed.
Theorem C05_round_trip : forall (q q1 q2 : qty RA) u, to_qty GEN q u = Ok q1 -> to_qty GEN q1 (qu q) = Ok q2 -> q2 = q.
Proof. exact to_round_trip. Qed.

(** (c) comparisons.  FULL STATEMENT wanted by the property: the result of [a OP b] is a function of the SI magnitudes
    that does not depend on which operand is on the left.  That is FALSE of the code (finding D5, witness below): the
    tolerance band is 1e-12 expressed in the unit of the operand Python dispatches to.  What holds, for every kind, every
    unit pair and every value: *)
Theorem C05_cmp_closed_form : forall m (a b : qty RA) r sa sb fa fb, is_cmp m = true ->
  py_cmp GEN m a b = Ok r -> si a = Ok sa -> si b = Ok sb ->
  @factor RA GEN (qk a) (qu a) = Ok fa -> @factor RA GEN (qk b) (qu b) = Ok fb ->
  exists fl, (fl = fa \/ fl = fb) /\
    r = if String.eqb (qu a) (qu b) then cmpR m sa sb else banded m (sa - sb) (tolR * fl).
Proof. exact cmp_SI. Qed.
(** operands that differ by more than the band are ordered as their SI magnitudes, whichever is on the left *)
Theorem C05_cmp_decisive_partial : forall m (a b : qty RA) r sa sb fa fb, is_cmp m = true ->
  py_cmp GEN m a b = Ok r -> si a = Ok sa -> si b = Ok sb ->
  @factor RA GEN (qk a) (qu a) = Ok fa -> @factor RA GEN (qk b) (qu b) = Ok fb ->
  tolR * Rmax fa fb < Rabs (sa - sb) -> r = cmpR m sa sb.
Proof. exact cmp_decisive. Qed.
(** operands closer than the band in the SMALLER of the two units compare equal on either side *)
Theorem C05_cmp_equal_symmetric_partial : forall (a b : qty RA) r1 r2 sa sb fa fb,
  py_cmp GEN MEq a b = Ok r1 -> py_cmp GEN MEq b a = Ok r2 -> si a = Ok sa -> si b = Ok sb ->
  @factor RA GEN (qk a) (qu a) = Ok fa -> @factor RA GEN (qk b) (qu b) = Ok fb ->
  qu a <> qu b -> Rabs (sa - sb) < tolR * Rmin fa fb -> r1 = true /\ r2 = true.
Proof. exact cmp_equal_symmetric. Qed.

(** finding D5, in the executable binary64 instance of the same interpreter: equality depends on the side *)
Definition d5_a := mkq KLength 0x1.c25c268497682p-44 "m".      (* 1e-13 m  *)
Definition d5_b := mkq KLength 0x1.b7cdfd9d7bdbbp-33 "mm".     (* 2e-10 mm *)
Theorem C05_cmp_unit_blind_refuted :
  res_bool_is (@py_cmp F0 GEN MEq d5_a d5_b) true && res_bool_is (@py_cmp F0 GEN MEq d5_b d5_a) false = true.
Proof. vm_compute. reflexivity. Qed.

(** non-vacuity: a conversion and a comparison across units that actually run (binary64 instance) *)
Example C05_nonvacuous :
  res_qty_is (@to_qty F0 GEN (mkq KAngularSpeed 0x1.ep+5 "rpm") "rad/s") KAngularSpeed 0x1.921fb54442d18p+2 "rad/s"
  && res_bool_is (@py_cmp F0 GEN MLt (mkq KTorque 1 "Nm") (mkq KTorque 0x1.f4p+10 "mNm")) true = true.
Proof. vm_compute. reflexivity. Qed.

Print Assumptions C05_factor_is_SI.
Print Assumptions C05_cmp_closed_form.
Print Assumptions C05_cmp_unit_blind_refuted.
