(** * C14 — Duty-cycle arbitration: one rule wins, default 1, always within [-1,1].  Statements only; generic in the arithmetic.
    (About the code as repaired by the "fix:" commit for finding D10: the pwm setter rejects a value that is not within
    -1 and 1, NaN included.) *)
From Coq Require Import ZArith String List Bool PrimFloat.
From GP Require Import ArithDef FloatUtil UnitsCore PyUnits QOps Motor Solver SolverProofs SolverCtl Examples.
Import ListNotations.

(** no proposal -> 1; exactly one -> that proposal saturated; two or more -> ValueError (the simulation does not continue) *)
Theorem C14_arbitration : forall (A : Arith) (vals : list (option (num A))),
  match somes vals with
  | [] => arbitrate vals = set_pwm one
  | [v] => arbitrate vals = set_pwm (saturate v)
  | _ :: _ :: _ => arbitrate vals = Err ValueError
  end.
Proof. exact (@arbitrate_spec). Qed.
(** the duty cycle recorded at an instant computed under a controller is the arbitration of the rules' proposals at that instant
    (and C02 states that the motor law is then evaluated at this recorded value) *)
Theorem C14_recorded_is_arbitrated : forall (A : Arith) (c : @chain A) load rs J t f v locked prov s,
  instant_facts c load (Some rs) J t f v locked prov s ->
  exists ltq0 vals, headq (s_ltq s) = Ok ltq0 /\
    apply_all c {| w_time := t; w_pos := s_pos s; w_spd := s_spd s; w_ltq0 := ltq0; w_first_ltq0 := f |} rs = Ok vals /\
    arbitrate vals = Ok (s_pwm s).
Proof. exact (@instant_pwm_is_arbitration). Qed.
(** every recorded duty cycle of every reachable state is within [-1, 1] as the arithmetic's own comparisons see it
    (so in binary64 it is a number: a NaN fails both comparisons).  [in_range one] holds in binary64 and over the reals. *)
Theorem C14_recorded_in_range : forall (A : Arith) (c : @chain A) load, @in_range A one ->
  forall ops p w st t s, exec c load ops (initial p w) = Ok st -> In (t, s) (y_hist st) -> in_range (s_pwm s).
Proof. exact (@reachable_pwm_range). Qed.
Theorem C14_one_in_range_float : @in_range (FA []) one.
Proof. vm_compute. reflexivity. Qed.

(** non-vacuity: in the example run the rules set the duty cycle to 0 at some instants (the train is then held) *)
Example C14_nonvacuous : Nat.eqb (count_locked (ex_final true 5)) 7 = true.
Proof. vm_compute. reflexivity. Qed.

Print Assumptions C14_recorded_in_range.
