(** * C13 — A self-locking powertrain is never driven by its load.  Statements only; generic in the arithmetic.
    [s_pwm_in] is the duty cycle in force when the instant was computed (the motor's attribute at the lock test: the
    previously recorded one, or what the user set before the run); [s_locked] the solver's flag after the test. *)
From Coq Require Import ZArith String List Bool PrimFloat Reals.
From GP Require Import ArithDef FloatUtil UnitsCore PyUnits RealArith UnitsR QOps Motor Solver SolverProofs HeldR Examples.
Import ListNotations.

Theorem C13_self_locking : forall (A : Arith) (c : @chain A) load ops p w st t s,
  exec c load ops (initial p w) = Ok st -> In (t, s) (y_hist st) ->
  (* a powertrain without a self-locking mating is never clamped *)
  (c_selflock c = false -> s_locked s = false) /\
  (* duty cycle zero: held *)
  (c_selflock c = true -> eqb (s_pwm_in s) zero = true -> s_locked s = true) /\
  (* while held all speeds and accelerations are the zero constants *)
  (s_locked s = true -> Forall (eq NULL_SPD) (s_spd s) /\ Forall (eq NULL_ACC) (s_acc s)) /\
  (* not held: the motor speed is not below zero for a positive duty cycle, not above zero for a negative one *)
  (s_locked s = false -> c_selflock c = true -> forall spd0, headq (s_spd s) = Ok spd0 ->
      eqb (s_pwm_in s) zero = false /\
      (ltb zero (s_pwm_in s) = true -> q_lt spd0 NULL_SPD = Ok false) /\
      (ltb (s_pwm_in s) zero = true -> q_gt spd0 NULL_SPD = Ok false)) /\
  (* motion resumes only when the motor's net torque points in the commanded direction *)
  (s_lock_prev s = true -> s_locked s = false ->
      exists tq, s_tq0_in s = Some tq /\
        ((q_gt tq NULL_TQ = Ok true /\ ltb zero (s_pwm_in s) = true) \/ (q_lt tq NULL_TQ = Ok true /\ ltb (s_pwm_in s) zero = true))).
Proof. exact (@reachable_lock). Qed.
(** positions stay constant while held: C03_time_step with a1 = NULL_ACC and w1 = NULL_SPD (see C03); and the torque
    consulted at the release is the motor's net torque recorded at the previous instant: *)
Theorem C13_release_uses_previous_torque : forall (A : Arith) (c : @chain A) load dt s1 t s,
  stepped c load dt s1 t s -> exists tq, headq (s_tq s1) = Ok tq /\ s_tq0_in s = Some tq.
Proof. exact (@stepped_tq0). Qed.

(** non-vacuity: with a 5 Nm load the self-locking train is held at 7 of 21 instants, is released again, and moves;
    the same train without the self-locking flag is never held *)
(** while held, positions stay constant (over the reals, any units, any step): the instant that follows a held instant records the
    same output position in SI — and with it every upstream position, by C01 *)
Theorem C13_held_position_constant : forall (c : @chain RA) load ops p w st pre t s t1 s1 post p1 P1 DT,
  exec c load ops (initial p w) = Ok st ->
  y_hist st = (pre ++ (t, s) :: (t1, s1) :: post)%list ->
  s_locked s1 = true ->
  lastq (s_pos s1) = Ok p1 -> si p1 = Ok P1 ->
  (forall dt, s_dt s = Some dt -> si dt = Ok DT) ->
  exists p', lastq (s_pos s) = Ok p' /\ si p' = Ok P1.
Proof. exact held_position_constant. Qed.
Example C13_nonvacuous :
  Nat.eqb (count_locked (ex_final true 5)) 7 && has_release (ex_final true 5) && moved (ex_final true 5)
  && Nat.eqb (count_locked (ex_final false 5)) 0 = true.
Proof. vm_compute. reflexivity. Qed.

Print Assumptions C13_self_locking.
Print Assumptions C13_held_position_constant.
