(** * C06 — Quantity arithmetic is dimensionally sound and subtraction undoes addition.
    Statements only; proofs in UnitsDim (uniform sweeps over all 13 x 13 kind pairs of the REGENERATED description [GEN],
    units and values symbolic).  [si] uses the code's own unit factors, which C05_factor_is_SI (repeated below, because the
    meaning of "SI magnitude" depends on it) identifies with the SI definitions of [Spec]. *)
From Coq Require Import ZArith QArith Reals String List Bool PrimFloat.
From GP Require Import ArithDef FloatUtil UnitsCore PyUnits RealArith Spec UnitsR UnitsSI UnitsDim QuantityCorr.
From GP.gen Require Import UnitsGen.
Open Scope R_scope. Open Scope string_scope.

Theorem C06_si_is_SI : forall k u,
  @factor RA GEN k u = match spec_factor k u with Some f => Ok (sival f) | None => Err KeyError end.
Proof. exact factor_is_SI. Qed.

(** quantity * quantity: defined only where [Spec.spec_mul] says so, with that kind, SI magnitude = product *)
Theorem C06_mul_qq : forall k1 k2 v1 v2 u1 u2 r,
  py_mul GEN (mk k1 v1 u1) (PQ (mk k2 v2 u2)) = Ok r ->
  exists q, r = PQ q /\ spec_mul k1 k2 = Some (DQ (qk q)) /\
    forall s1 s2, si (mk k1 v1 u1) = Ok s1 -> si (mk k2 v2 u2) = Ok s2 -> si q = Ok (s1 * s2).
Proof. exact mul_qq_sound. Qed.
Theorem C06_mul_qn : forall k1 v1 u1 x r,
  py_mul GEN (mk k1 v1 u1) (PN x) = Ok r ->
  exists q, r = PQ q /\ qk q = k1 /\ qu q = u1 /\ forall s1, si (mk k1 v1 u1) = Ok s1 -> si q = Ok (s1 * x).
Proof. exact mul_qn_sound. Qed.
Theorem C06_rmul : forall k1 v1 u1 x r,
  py_rmul GEN x (mk k1 v1 u1) = Ok r ->
  exists q, r = PQ q /\ qk q = k1 /\ qu q = u1 /\ forall s1, si (mk k1 v1 u1) = Ok s1 -> si q = Ok (x * s1).
Proof. exact rmul_sound. Qed.
(** quantity / quantity: a plain number for operands of one family, else the kind of [Spec.spec_div]; SI magnitude = quotient *)
Theorem C06_div_qq : forall k1 k2 v1 v2 u1 u2 r,
  py_div GEN (mk k1 v1 u1) (PQ (mk k2 v2 u2)) = Ok r ->
  forall s1 s2, si (mk k1 v1 u1) = Ok s1 -> si (mk k2 v2 u2) = Ok s2 ->
  s2 <> 0 /\
  ((exists x, r = PN x /\ spec_div k1 k2 = Some DNum /\ x = s1 / s2) \/
   (exists q, r = PQ q /\ spec_div k1 k2 = Some (DQ (qk q)) /\ si q = Ok (s1 / s2))).
Proof. exact div_qq_sound. Qed.
Theorem C06_div_qn : forall k1 v1 u1 x r,
  py_div GEN (mk k1 v1 u1) (PN x) = Ok r ->
  x <> 0 /\ exists q, r = PQ q /\ qk q = k1 /\ qu q = u1 /\ forall s1, si (mk k1 v1 u1) = Ok s1 -> si q = Ok (s1 / x).
Proof. exact div_qn_sound. Qed.
Theorem C06_add : forall k1 k2 v1 v2 u1 u2 r,
  py_add GEN (mk k1 v1 u1) (PQ (mk k2 v2 u2)) = Ok r ->
  exists q, r = PQ q /\ spec_addsub k1 k2 = Some (qk q) /\ qu q = u1 /\
    forall s1 s2, si (mk k1 v1 u1) = Ok s1 -> si (mk k2 v2 u2) = Ok s2 -> si q = Ok (s1 + s2).
Proof. exact add_sound. Qed.

(** subtraction.  FULL STATEMENT wanted: as [C06_add] with [s1 - s2], for every pair of kinds.  FALSE of the code at exactly
    two call sites (finding D6, pinned by the repository's own tests): Angle - AngularPosition and TimeInterval - Time ADD. *)
Theorem C06_sub_partial : forall k1 k2 v1 v2 u1 u2 r,
  sub_defect_site k1 k2 = false ->
  py_sub GEN (mk k1 v1 u1) (PQ (mk k2 v2 u2)) = Ok r ->
  exists q, r = PQ q /\ spec_addsub k1 k2 = Some (qk q) /\ qu q = u1 /\
    forall s1 s2, si (mk k1 v1 u1) = Ok s1 -> si (mk k2 v2 u2) = Ok s2 -> si q = Ok (s1 - s2).
Proof. exact sub_sound. Qed.
Theorem C06_sub_refuted_sites : forall k1 k2 v1 v2 u1 u2 r,
  sub_defect_site k1 k2 = true ->
  py_sub GEN (mk k1 v1 u1) (PQ (mk k2 v2 u2)) = Ok r ->
  exists q, r = PQ q /\ forall s1 s2, si (mk k1 v1 u1) = Ok s1 -> si (mk k2 v2 u2) = Ok s2 -> si q = Ok (s1 + s2).
Proof. exact sub_defect_adds. Qed.
(** the two sites are reached (binary64 instance): Angle(5 rad) - AngularPosition(1 rad) = 6 rad *)
Theorem C06_sub_refuted_witness :
  res_pyval_is (@py_sub F0 GEN (mkq KAngle 5 "rad") (@PQ F0 (mkq KAngularPosition 1 "rad"))) (XQ KAngularPosition 6 "rad")
  && res_pyval_is (@py_sub F0 GEN (mkq KTimeInterval 5 "sec") (@PQ F0 (mkq KTime 1 "sec"))) (XQ KTime 6 "sec") = true.
Proof. vm_compute. reflexivity. Qed.

(** (a + b) - b = a: unit and SI magnitude of a, for every pair of kinds (the result of a + b never meets a D6 site) *)
Theorem C06_add_then_sub : forall (a b q1 : qty RA) r2,
  py_add GEN a (PQ b) = Ok (PQ q1) -> py_sub GEN q1 (PQ b) = Ok r2 ->
  exists q2, r2 = PQ q2 /\ qu q2 = qu a /\ forall s1 s2, si a = Ok s1 -> si b = Ok s2 -> si q2 = Ok s1.
Proof. exact add_then_sub. Qed.
(** a - b = -(b - a) whenever both sides are defined, except at the D6 sites *)
Theorem C06_sub_antisym_partial : forall (a b : qty RA) r1 r3 q2,
  sub_defect_site (qk a) (qk b) = false -> sub_defect_site (qk b) (qk a) = false ->
  py_sub GEN a (PQ b) = Ok r1 -> py_sub GEN b (PQ a) = Ok (PQ q2) -> py_neg GEN q2 = Ok r3 ->
  exists q1 q3, r1 = PQ q1 /\ r3 = PQ q3 /\
    forall s1 s2, si a = Ok s1 -> si b = Ok s2 -> exists s, si q1 = Ok s /\ si q3 = Ok s.
Proof. exact sub_antisym. Qed.
Theorem C06_neg : forall k1 v1 u1 r, py_neg GEN (mk k1 v1 u1) = Ok r ->
  exists q, r = PQ q /\ qk q = k1 /\ qu q = u1 /\ forall s1, si (mk k1 v1 u1) = Ok s1 -> si q = Ok (- s1).
Proof. exact neg_sound. Qed.
Theorem C06_abs : forall k1 v1 u1 r, py_abs GEN (mk k1 v1 u1) = Ok r ->
  exists q, r = PQ q /\ qk q = k1 /\ qu q = u1 /\ forall s1, si (mk k1 v1 u1) = Ok s1 -> si q = Ok (Rabs s1).
Proof. exact abs_sound. Qed.

(** non-vacuity: operations of each shape actually return (binary64 instance): rpm * min -> rad, Nm / kgm^2, mm + m, N / mm^2 *)
Example C06_nonvacuous :
  res_pyval_is (@py_mul F0 GEN (mkq KAngularSpeed 0x1.ep+5 "rpm") (@PQ F0 (mkq KTime 1 "min"))) (XQ KAngularPosition 0x1.78fdb9effea46p+8 "rad")
  && res_pyval_is (@py_div F0 GEN (mkq KTorque 6 "Nm") (@PQ F0 (mkq KInertiaMoment 2 "kgm^2"))) (XQ KAngularAcceleration 3 "rad/s^2")
  && res_pyval_is (@py_add F0 GEN (mkq KLength 500 "mm") (@PQ F0 (mkq KLength 1 "m"))) (XQ KLength 1500 "mm")
  && res_pyval_is (@py_div F0 GEN (mkq KForce 10 "N") (@PQ F0 (mkq KSurface 2 "m^2"))) (XQ KStress 5 "Pa") = true.
Proof. vm_compute. reflexivity. Qed.

Print Assumptions C06_mul_qq.
Print Assumptions C06_sub_antisym_partial.
Print Assumptions C06_sub_refuted_witness.
