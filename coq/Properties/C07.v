(** * C07 — Results do not depend on the units inputs are expressed in.  Statements only.
    FULL STATEMENT wanted: two scenarios that differ only by re-expressing input quantities in other units of the same kind (equal SI
    magnitudes) succeed or fail together and, when every discrete decision is outside its tolerance band, produce histories, snapshots,
    stresses and stop instants with equal SI images.
    What is machine-checked here (_partial): every operation of the regenerated quantity layer that the models use is a congruence for
    "same kind family and same SI magnitude" (including every comparison outside the tolerance band of the larger unit, which is the
    formal content of the property's exclusion clause); and, at formula level, the motor law, the step count of a run and the angle
    functions depend on SI magnitudes only.  The lifting of these congruences through the whole run (the parametricity argument of
    DESIGN 2.2') is NOT mechanised.  The whole-run statement is covered by (a) the bit-exact correspondences of every model family, whose
    generators draw every input quantity in a random unit of its kind, so that unit-dependent behaviour of the code that the models do
    not share is a disagreement, and (b) the metamorphic search, which re-expresses all inputs of a scenario and compares SI outputs. *)
From Coq Require Import ZArith QArith Reals Lra String List Bool PrimFloat.
From GP Require Import ArithDef FloatUtil UnitsCore PyUnits RealArith Spec UnitsR UnitsCmp UnitsDim QOps QOpsR Motor MotorR Solver Relations RelR UnitIndep.
From GP.gen Require Import UnitsGen.
Import ListNotations.
Open Scope R_scope.

Theorem C07_rmul : forall x (a b za zb : qty RA), same a b -> qk a = qk b -> q_rmul x a = Ok za -> q_rmul x b = Ok zb -> same za zb.
Proof. exact rmul_congr. Qed.
Theorem C07_muln : forall x (a b za zb : qty RA), same a b -> qk a = qk b -> q_muln a x = Ok za -> q_muln b x = Ok zb -> same za zb.
Proof. exact muln_congr. Qed.
Theorem C07_divn : forall x (a b za zb : qty RA), same a b -> qk a = qk b -> q_divn a x = Ok za -> q_divn b x = Ok zb -> same za zb.
Proof. exact divn_congr. Qed.
Theorem C07_ratio : forall (a a' b b' : qty RA) x x', same a a' -> same b b' -> q_ratio a b = Ok x -> q_ratio a' b' = Ok x' -> x = x'.
Proof. exact ratio_congr. Qed.
Theorem C07_add : forall (a a' b b' z z' : qty RA), same a a' -> same b b' -> qk a = qk a' -> qk b = qk b' -> q_add a b = Ok z -> q_add a' b' = Ok z' -> same z z'.
Proof. exact add_congr. Qed.
Theorem C07_sub : forall (a a' b b' z z' : qty RA), same a a' -> same b b' -> qk a = qk a' -> qk b = qk b' -> sub_defect_site (qk a) (qk b) = false ->
  q_sub a b = Ok z -> q_sub a' b' = Ok z' -> same z z'.
Proof. exact sub_congr. Qed.
Theorem C07_mulq : forall (a a' b b' z z' : qty RA), same a a' -> same b b' -> qk a = qk a' -> qk b = qk b' -> q_mulq a b = Ok z -> q_mulq a' b' = Ok z' -> same z z'.
Proof. exact mulq_congr. Qed.
Theorem C07_divq : forall (a a' b b' z z' : qty RA), same a a' -> same b b' -> qk a = qk a' -> qk b = qk b' -> q_divq a b = Ok z -> q_divq a' b' = Ok z' -> same z z'.
Proof. exact divq_congr. Qed.
Theorem C07_to : forall (a z : qty RA) u, q_to a u = Ok z -> forall s, si a = Ok s -> same a z.
Proof. exact to_congr. Qed.
Theorem C07_comparison_decisive : forall m (a a' b b' : qty RA) r r' sa sb fa fb fa' fb', is_cmp m = true ->
  si a = Ok sa -> si a' = Ok sa -> si b = Ok sb -> si b' = Ok sb ->
  @factor RA GEN (qk a) (qu a) = Ok fa -> @factor RA GEN (qk b) (qu b) = Ok fb ->
  @factor RA GEN (qk a') (qu a') = Ok fa' -> @factor RA GEN (qk b') (qu b') = Ok fb' ->
  tolR * Rmax (Rmax fa fb) (Rmax fa' fb') < Rabs (sa - sb) ->
  q_cmp m a b = Ok r -> q_cmp m a' b' = Ok r' -> r = r'.
Proof. exact cmp_congr. Qed.
Theorem C07_motor_torque : forall (m m' : @motor RA) i0 imax i0' imax' W0 TM I0 IM (spd spd' : qty RA) w D T T',
  m_i0 m = Some i0 -> m_imax m = Some imax -> m_i0 m' = Some i0' -> m_imax m' = Some imax' ->
  si (m_w0 m) = Ok W0 -> si (m_w0 m') = Ok W0 -> si (m_Tmax m) = Ok TM -> si (m_Tmax m') = Ok TM ->
  si i0 = Ok I0 -> si i0' = Ok I0 -> si imax = Ok IM -> si imax' = Ok IM ->
  qk (m_Tmax m) = KTorque -> qk (m_Tmax m') = KTorque -> qk i0 = KCurrent -> qk i0' = KCurrent -> qk imax = KCurrent -> qk imax' = KCurrent ->
  si spd = Ok w -> si spd' = Ok w ->
  motor_torque m spd D = Ok T -> motor_torque m' spd' D = Ok T' -> same T T'.
Proof. exact motor_torque_unit_independent. Qed.
Theorem C07_step_count : forall (dt dt' T T' : qty RA) x x', same dt dt' -> same T T' -> q_ratio T dt = Ok x -> q_ratio T' dt' = Ok x' ->
  @round_half_even RA x = @round_half_even RA x'.
Proof. exact step_count_unit_independent. Qed.
Theorem C07_cos : forall (a b : qty RA) ca cb, same a b -> base_kind (qk a) = KAngularPosition -> @qcos RA a = Ok ca -> @qcos RA b = Ok cb -> ca = cb.
Proof. exact cos_unit_independent. Qed.
Theorem C07_tan : forall (a b : qty RA) ta tb, same a b -> base_kind (qk a) = KAngularPosition -> @qtan RA a = Ok ta -> @qtan RA b = Ok tb -> ta = tb.
Proof. exact tan_unit_independent. Qed.

Print Assumptions C07_comparison_decisive.
Print Assumptions C07_motor_torque.
