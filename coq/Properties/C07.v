(** * C07 — Results do not depend on the units inputs are expressed in.  Statements only.
    FULL STATEMENT wanted: two scenarios that differ only by re-expressing input quantities in other units of the same kind (equal SI
    magnitudes) succeed or fail together and, when every discrete decision is outside its tolerance band, produce histories, snapshots,
    stresses and stop instants with equal SI images.
    What is machine-checked here (_partial): every operation of the regenerated quantity layer that the models use is a congruence for
    "same kind family and same SI magnitude" (including every comparison outside the tolerance band of the larger unit, which is the
    formal content of the property's exclusion clause); and, at formula level, the motor law, the step count of a run and the angle
    functions depend on SI magnitudes only.  WHOLE RUNS: [C07_whole_run_partial] — in the regime where the solver model is proved to be
    the Euler recurrence (never held, constant duty cycle above the dead zone, constant step, constant load; chains of any length, any
    units, any schedule of runs and continuations) two descriptions of the same system record output speeds and positions with equal SI
    magnitudes at every instant.  Outside that regime (held instants, rules, stop conditions, varying loads: every place where the code
    COMPARES quantities) the lifting is NOT mechanised.  The whole-run statement is there covered by (a) the bit-exact correspondences of every model family, whose
    generators draw every input quantity in a random unit of its kind, so that unit-dependent behaviour of the code that the models do
    not share is a disagreement, and (b) the metamorphic search, which re-expresses all inputs of a scenario and compares SI outputs. *)
From Coq Require Import ZArith QArith Reals Lra String List Bool PrimFloat.
From GP Require Import ArithDef FloatUtil UnitsCore PyUnits RealArith Spec UnitsR UnitsCmp UnitsDim QOps QOpsR Motor MotorR Solver SolverProofs SolverSI Relations RelR UnitIndep RunIndep.
From GP.gen Require Import UnitsGen.
Import ListNotations.
Open Scope R_scope.

Theorem C07_rmul : forall x (a b za zb : qty RA), same a b -> qk a = qk b -> q_rmul x a = Ok za -> q_rmul x b = Ok zb -> same za zb.
Proof. exact rmul_congr. Qed.
Theorem C07_muln : forall x (a b za zb : qty RA), same a b -> qk a = qk b -> q_muln a x = Ok za -> q_muln b x = Ok zb -> same za zb.
Proof. exact muln_congr. Qed.
Theorem C07_divn : forall x (a b za zb : qty RA), same a b -> qk a = qk b -> q_divn a x = Ok za -> q_divn b x = Ok zb -> same za zb.
Proof. exact divn_congr. Qed.
Theorem C07_ratio : forall (a a' b b' : qty RA) x x', same a a' -> same b b' -> q_ratio a b = Ok x -> q_ratio a' b' = Ok x' -> x = x'.
Proof. exact ratio_congr. Qed.
Theorem C07_add : forall (a a' b b' z z' : qty RA), same a a' -> same b b' -> qk a = qk a' -> qk b = qk b' -> q_add a b = Ok z -> q_add a' b' = Ok z' -> same z z'.
Proof. exact add_congr. Qed.
Theorem C07_sub : forall (a a' b b' z z' : qty RA), same a a' -> same b b' -> qk a = qk a' -> qk b = qk b' -> sub_defect_site (qk a) (qk b) = false ->
  q_sub a b = Ok z -> q_sub a' b' = Ok z' -> same z z'.
Proof. exact sub_congr. Qed.
Theorem C07_mulq : forall (a a' b b' z z' : qty RA), same a a' -> same b b' -> qk a = qk a' -> qk b = qk b' -> q_mulq a b = Ok z -> q_mulq a' b' = Ok z' -> same z z'.
Proof. exact mulq_congr. Qed.
Theorem C07_divq : forall (a a' b b' z z' : qty RA), same a a' -> same b b' -> qk a = qk a' -> qk b = qk b' -> q_divq a b = Ok z -> q_divq a' b' = Ok z' -> same z z'.
Proof. exact divq_congr. Qed.
Theorem C07_to : forall (a z : qty RA) u, q_to a u = Ok z -> forall s, si a = Ok s -> same a z.
Proof. exact to_congr. Qed.
Theorem C07_comparison_decisive : forall m (a a' b b' : qty RA) r r' sa sb fa fb fa' fb', is_cmp m = true ->
  si a = Ok sa -> si a' = Ok sa -> si b = Ok sb -> si b' = Ok sb ->
  @factor RA GEN (qk a) (qu a) = Ok fa -> @factor RA GEN (qk b) (qu b) = Ok fb ->
  @factor RA GEN (qk a') (qu a') = Ok fa' -> @factor RA GEN (qk b') (qu b') = Ok fb' ->
  tolR * Rmax (Rmax fa fb) (Rmax fa' fb') < Rabs (sa - sb) ->
  q_cmp m a b = Ok r -> q_cmp m a' b' = Ok r' -> r = r'.
Proof. exact cmp_congr. Qed.
Theorem C07_motor_torque : forall (m m' : @motor RA) i0 imax i0' imax' W0 TM I0 IM (spd spd' : qty RA) w D T T',
  m_i0 m = Some i0 -> m_imax m = Some imax -> m_i0 m' = Some i0' -> m_imax m' = Some imax' ->
  si (m_w0 m) = Ok W0 -> si (m_w0 m') = Ok W0 -> si (m_Tmax m) = Ok TM -> si (m_Tmax m') = Ok TM ->
  si i0 = Ok I0 -> si i0' = Ok I0 -> si imax = Ok IM -> si imax' = Ok IM ->
  qk (m_Tmax m) = KTorque -> qk (m_Tmax m') = KTorque -> qk i0 = KCurrent -> qk i0' = KCurrent -> qk imax = KCurrent -> qk imax' = KCurrent ->
  si spd = Ok w -> si spd' = Ok w ->
  motor_torque m spd D = Ok T -> motor_torque m' spd' D = Ok T' -> same T T'.
Proof. exact motor_torque_unit_independent. Qed.
Theorem C07_step_count : forall (dt dt' T T' : qty RA) x x', same dt dt' -> same T T' -> q_ratio T dt = Ok x -> q_ratio T' dt' = Ok x' ->
  @round_half_even RA x = @round_half_even RA x'.
Proof. exact step_count_unit_independent. Qed.
Theorem C07_cos : forall (a b : qty RA) ca cb, same a b -> base_kind (qk a) = KAngularPosition -> @qcos RA a = Ok ca -> @qcos RA b = Ok cb -> ca = cb.
Proof. exact cos_unit_independent. Qed.
Theorem C07_tan : forall (a b : qty RA) ta tb, same a b -> base_kind (qk a) = KAngularPosition -> @qtan RA a = Ok ta -> @qtan RA b = Ok tb -> ta = tb.
Proof. exact tan_unit_independent. Qed.

(** [same_system c c' load load' W0 TM I0 IM L JJ]: the two descriptions have motor constants, load torque and equivalent inertia
    of the same SI magnitudes (each written in any unit) and the same products of gear ratios and of efficiencies;
    [uniform DT D h]: never held, duty cycle D, and every step of SI magnitude DT (in whatever unit each run expressed it), at every instant of h. *)
Theorem C07_whole_run_partial : forall (c c' : @chain RA) load load' W0 TM I0 IM L JJ DT D ops ops' p w p' w' st st',
  same_system c c' load load' W0 TM I0 IM L JJ ->
  I0 / IM < Rabs D -> 0 <= I0 /\ 0 < IM /\ 0 < W0 /\ 0 < JJ ->
  exec c load ops (initial p w) = Ok st -> exec c' load' ops' (initial p' w') = Ok st' ->
  uniform DT D (y_hist st) -> uniform DT D (y_hist st') ->
  forall t0 s0 pre t0' s0' pre', y_hist st = (pre ++ [(t0, s0)])%list -> y_hist st' = (pre' ++ [(t0', s0')])%list ->
  forall w0 p0 w0' p0' W00 P00, lastq (s_spd s0) = Ok w0 -> lastq (s_pos s0) = Ok p0 -> si w0 = Ok W00 -> si p0 = Ok P00 ->
                                lastq (s_spd s0') = Ok w0' -> lastq (s_pos s0') = Ok p0' -> si w0' = Ok W00 -> si p0' = Ok P00 ->
  forall front t s rest front' t' s' rest',
    y_hist st = (front ++ (t, s) :: rest)%list -> y_hist st' = (front' ++ (t', s') :: rest')%list -> length rest = length rest' ->
  exists wk pk wk' pk' Wk Pk,
    lastq (s_spd s) = Ok wk /\ lastq (s_pos s) = Ok pk /\ lastq (s_spd s') = Ok wk' /\ lastq (s_pos s') = Ok pk' /\
    si wk = Ok Wk /\ si wk' = Ok Wk /\ si pk = Ok Pk /\ si pk' = Ok Pk.
Proof. exact every_instant_unit_independent. Qed.

Print Assumptions C07_comparison_decisive.
Print Assumptions C07_whole_run_partial.
Print Assumptions C07_motor_torque.
