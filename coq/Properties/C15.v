(** * C15 — Each control rule applies in its documented window with its documented value.  Statements only.
    The rules are [apply_rule] of coq/Solver.v (tied to gearpy by the bit-exact solver correspondence on controlled runs, including
    runs that reuse one controller object across a reset with a re-declared load).  Proved over the reals, for parameters in any
    units: ConstantPWM's window; ReachAngularPosition's threshold and value; StartLimitCurrent's value, that it is a root of the
    motor's own current law, and hence that the documented motor characteristic (C08) yields exactly the limit current at that
    duty cycle; StartProportionalToAngularPosition's ramp and its minimum duty cycle (computed from the FIRST instant's load torque,
    user's fallback exactly when the computed value is zero).  Windows whose edges are within the comparison band of C05 are as
    the quantity comparisons decide them (finding D5). *)
From Coq Require Import ZArith QArith Reals Lra String List Bool PrimFloat.
From GP Require Import ArithDef FloatUtil UnitsCore PyUnits RealArith Spec UnitsR QOps QOpsR Motor MotorR Solver RulesR Examples.
From GP.gen Require Import UnitsGen.
Import ListNotations.
Open Scope R_scope.

(** ConstantPWM proposes its constant exactly while  t >= start  and  t - start <= duration  (the quantity layer's comparisons, C05) *)
Theorem C15_constant_window : forall (c : @chain RA) (w : @view RA) start dur v r,
  apply_rule c w (RConst start dur v) = Ok r ->
  exists b, timer_active start dur (w_time w) = Ok b /\ r = (if b then Some v else None).
Proof. exact rule_const_window. Qed.
Theorem C15_timer_active : forall start dur (t : qty RA) b, timer_active start dur t = Ok b ->
  (b = true <-> exists d, q_ge t start = Ok true /\ q_sub t start = Ok d /\ q_le d dur = Ok true).
Proof. exact timer_active_means. Qed.
(** ReachAngularPosition: value 1 - (theta - theta_s)/theta_b with theta_s = target - theta_b + (T_load/T_max)/eta_t * theta_b,
    eta_t the product of the efficiencies of the spur-like matings *)
Theorem C15_reach_value : forall (c : @chain RA) (w : @view RA) enc (target brake p : qty RA) TM TG BA L P v,
  si (m_Tmax (c_motor c)) = Ok TM -> si target = Ok TG -> si brake = Ok BA -> si (w_ltq0 w) = Ok L -> si p = Ok P ->
  qk target = KAngularPosition -> qk brake = KAngle -> qk p = KAngularPosition ->
  nth_error (w_pos w) enc = Some p ->
  apply_rule c w (RReach enc target brake) = Ok (Some v) ->
  let eta := spur_eff c in
  let theta_s := TG - BA + L / TM / eta * BA in
  eta <> 0 /\ BA <> 0 /\ v = 1 - (P - theta_s) / BA.
Proof. exact rule_reach_value. Qed.
(** StartLimitCurrent: while theta <= target it proposes D = (s + e + sqrt(s^2 + e^2 + 2 s (ilim - 2 i0)/imax)) / 2, s = w/w0, e = ilim/imax *)
Theorem C15_limit_value : forall (c : @chain RA) i0 imax, m_i0 (c_motor c) = Some i0 -> m_imax (c_motor c) = Some imax ->
  forall W0 I0 IM, si (m_w0 (c_motor c)) = Ok W0 -> si i0 = Ok I0 -> si imax = Ok IM -> qk i0 = KCurrent ->
  forall (w : @view RA) enc tach target (ilim : qty RA) ILIM p sp wv v,
  si ilim = Ok ILIM -> qk ilim = KCurrent ->
  nth_error (w_pos w) enc = Some p -> nth_error (w_spd w) tach = Some sp -> si sp = Ok wv ->
  apply_rule c w (RLim enc tach target ilim) = Ok (Some v) ->
  q_le p target = Ok true /\ v = lim_value (wv / W0) (ILIM / IM) ((ILIM - 2 * I0) / IM).
Proof. exact rule_limit_value. Qed.
(** ... which is a root of  imax D^2 - (imax s + ilim) D + i0 s = 0 ... *)
Theorem C15_limit_value_is_root : forall W0 I0 IM ILIM w : R, 0 < IM -> 0 < W0 ->
  let s := w / W0 in let e := ILIM / IM in let r := (ILIM - 2 * I0) / IM in
  0 <= s * s + e * e + 2 * s * r ->
  let D := lim_value s e r in
  IM * D * D - (IM * s + ILIM) * D + I0 * s = 0.
Proof. exact lim_value_is_root. Qed.
(** ... so that the motor's documented law (C08) gives exactly the limit current there, outside the dead zone *)
Theorem C15_limit_current_is_met : forall W0 TM I0 IM ILIM w D : R, 0 < TM -> 0 < W0 -> 0 <= I0 < IM -> I0 / IM < D ->
  IM * D * D - (IM * (w / W0) + ILIM) * D + I0 * (w / W0) = 0 ->
  I_code TM I0 IM (T_doc W0 TM I0 IM w D) D = ILIM.
Proof. exact limit_current_is_met. Qed.

(** StartProportionalToAngularPosition: while theta <= target the linear ramp from the minimum duty cycle pm to 1; the computed minimum
    duty cycle uses the motor load torque of the FIRST recorded instant (the present one on a fresh start), and the user's fallback
    is used exactly when the computed value is zero *)
Theorem C15_proportional_value : forall (c : @chain RA) (w : @view RA) enc (target p i0 imax : qty RA) mult pmin TM TG L P I0 IM v,
  m_i0 (c_motor c) = Some i0 -> m_imax (c_motor c) = Some imax ->
  si (m_Tmax (c_motor c)) = Ok TM -> si target = Ok TG -> si p = Ok P -> si i0 = Ok I0 -> si imax = Ok IM ->
  si (match w_first_ltq0 w with Some x => x | None => w_ltq0 w end) = Ok L ->
  qk i0 = KCurrent -> qk imax = KCurrent ->
  nth_error (w_pos w) enc = Some p ->
  apply_rule c w (RProp enc target mult pmin) = Ok (Some v) ->
  let eta := spur_eff c in
  let computed := mult * (1 / eta * (L / TM) * ((IM - I0) / IM) + I0 / IM) in
  eta <> 0 /\ TM <> 0 /\ IM <> 0 /\ TG <> 0 /\
  exists pm, (computed <> 0 -> pm = computed) /\ (computed = 0 -> pmin = Some pm) /\ v = (1 - pm) * P / TG + pm.
Proof. exact rule_prop_value. Qed.
Example C15_nonvacuous : Nat.eqb (count_locked (ex_final true 5)) 7 = true.
Proof. vm_compute. reflexivity. Qed.

Print Assumptions C15_limit_value.
Print Assumptions C15_limit_current_is_met.
Print Assumptions C15_reach_value.
