(** * C20 — A powertrain is exactly the drive chain reachable from its motor.  Statements only; generic in the arithmetic.
    [assemble] is the hand-written model of Powertrain.__init__ over the link state produced by the relation declarations
    (Relations.v), compared with gearpy on declaration histories that re-route the chain, with and without duplicate names. *)
From Coq Require Import ZArith String List Bool PrimFloat.
From GP Require Import ArithDef FloatUtil UnitsCore PyUnits QOps Relations RelProofs.
Import ListNotations.

(** [drives_path s m ids]: ids is m followed by what m drives, and so on, ending at an element that drives nothing *)
Theorem C20_assembled_is_the_chain : forall (A : Arith) (s : @rstate A) m ids lk, assemble s m = Ok (ids, lk) ->
  drives_path s m ids /\ 2 <= length ids /\ NoDup (map (name_of s) ids) /\ lk = existsb (worm_locks s) ids.
Proof. exact (@assemble_ok). Qed.
Theorem C20_every_chain_is_assembled : forall (A : Arith) (s : @rstate A) m x ids, get s m = Ok x -> ekind_eqb (d_kind (fst x)) EMotor = true ->
  l_drives (snd x) <> None -> drives_path s m ids -> NoDup ids -> NoDup (map (name_of s) ids) ->
  assemble s m = Ok (ids, existsb (worm_locks s) ids).
Proof. exact (@assemble_complete). Qed.
Theorem C20_motor_drives_nothing : forall (A : Arith) (s : @rstate A) m x, get s m = Ok x -> ekind_eqb (d_kind (fst x)) EMotor = true ->
  l_drives (snd x) = None -> assemble s m = Err ValueError.
Proof. exact (@assemble_motor_drives_nothing). Qed.
Theorem C20_duplicate_name : forall (A : Arith) (s : @rstate A) m x ids, get s m = Ok x -> ekind_eqb (d_kind (fst x)) EMotor = true ->
  l_drives (snd x) <> None -> drives_path s m ids -> length ids <= S (length s) -> ~ NoDup (map (name_of s) ids) -> assemble s m = Err NameError.
Proof. exact (@assemble_duplicate_name). Qed.
(** the self-locking flag: some worm gear of the chain whose mating was flagged self-locking (C10_worm_mating ties that flag to
    f > cos(alpha) * tan(beta)).  The tuple and the flag are returned values: no later operation of the model has access to them;
    that the Python attributes cannot be reassigned is checked on the implementation by the driver. *)
Theorem C20_self_locking_flag : forall (A : Arith) (s : @rstate A) i,
  worm_locks s i = match nth_error s i with
                   | Some (d, l) => ekind_eqb (d_kind d) EWorm && match l_selflock l with Some b => b | None => false end
                   | None => false end.
Proof. reflexivity. Qed.

Print Assumptions C20_assembled_is_the_chain.
Print Assumptions C20_every_chain_is_assembled.
