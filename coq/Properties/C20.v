(** * C20 — A powertrain is exactly the drive chain reachable from its motor.  Statements only; generic in the arithmetic.
    [assemble] is the hand-written model of Powertrain.__init__ over the link state produced by the relation declarations
    (Relations.v), compared with gearpy on declaration histories that re-route the chain, with and without duplicate names. *)
From Coq Require Import ZArith String List Bool PrimFloat.
From GP Require Import ArithDef FloatUtil UnitsCore PyUnits QOps Relations RelProofs PowertrainObj.
Import ListNotations.

(** [drives_path s m ids]: ids is m followed by what m drives, and so on, ending at an element that drives nothing *)
Theorem C20_assembled_is_the_chain : forall (A : Arith) (s : @rstate A) m ids lk, assemble s m = Ok (ids, lk) ->
  drives_path s m ids /\ 2 <= length ids /\ NoDup (map (name_of s) ids) /\ lk = existsb (worm_locks s) ids.
Proof. exact (@assemble_ok). Qed.
Theorem C20_every_chain_is_assembled : forall (A : Arith) (s : @rstate A) m x ids, get s m = Ok x -> ekind_eqb (d_kind (fst x)) EMotor = true ->
  l_drives (snd x) <> None -> drives_path s m ids -> NoDup ids -> NoDup (map (name_of s) ids) ->
  assemble s m = Ok (ids, existsb (worm_locks s) ids).
Proof. exact (@assemble_complete). Qed.
Theorem C20_motor_drives_nothing : forall (A : Arith) (s : @rstate A) m x, get s m = Ok x -> ekind_eqb (d_kind (fst x)) EMotor = true ->
  l_drives (snd x) = None -> assemble s m = Err ValueError.
Proof. exact (@assemble_motor_drives_nothing). Qed.
Theorem C20_duplicate_name : forall (A : Arith) (s : @rstate A) m x ids, get s m = Ok x -> ekind_eqb (d_kind (fst x)) EMotor = true ->
  l_drives (snd x) <> None -> drives_path s m ids -> length ids <= S (length s) -> ~ NoDup (map (name_of s) ids) -> assemble s m = Err NameError.
Proof. exact (@assemble_duplicate_name). Qed.
(** the self-locking flag: some worm gear of the chain whose mating was flagged self-locking (C10_worm_mating ties that flag to
    f > cos(alpha) * tan(beta)). *)
Theorem C20_self_locking_flag : forall (A : Arith) (s : @rstate A) i,
  worm_locks s i = match nth_error s i with
                   | Some (d, l) => ekind_eqb (d_kind d) EWorm && match l_selflock l with Some b => b | None => false end
                   | None => false end.
Proof. reflexivity. Qed.

(** "cannot be changed afterwards": the powertrain object (PowertrainObj.v) under any later sequence of update_time / reset / relation
    declarations on its elements / new elements shows the elements and the flag [assemble] returned at construction -- even when
    assembling again from the link state reached would give something else (the example: a worm mating re-declared below its
    self-locking threshold and the chain extended).  That the Python attributes cannot be reassigned is checked on the implementation. *)
Theorem C20_frozen_afterwards : forall (A : Arith) (s : @rstate A) m p (ops : list (@ptop A)), construct s m = Ok p ->
  exists ids lk, assemble s m = Ok (ids, lk) /\ p_elements (snd (pruns ops (s, p))) = ids /\ p_locking (snd (pruns ops (s, p))) = lk.
Proof. exact (@constructed_then_frozen). Qed.
Example C20_nonvacuous : ex_frozen_check = true.
Proof. exact frozen_differs_from_reassembly. Qed.

Print Assumptions C20_frozen_afterwards.
Print Assumptions C20_assembled_is_the_chain.
Print Assumptions C20_every_chain_is_assembled.
