(** * C18 — Snapshot and export report the recorded history faithfully.  Statements only.
    Model: coq/Report.v (Powertrain.snapshot as repaired by the fix commit for finding D14, and export_time_variables), run on the
    history gearpy itself recorded and compared with gearpy's own snapshot / exported CSV on that history: column names, row
    names, every cell bit for bit, exception classes.  scipy's linear interp1d on 1-D float data is numpy.interp; it is
    re-implemented in the model ([interp_segments]) and compared bit for bit, not verified; pandas is used only as a container. *)
From Coq Require Import ZArith QArith Reals Lra String List Bool PrimFloat.
From GP Require Import ArithDef FloatUtil UnitsCore PyUnits RealArith QOps Relations Gears GearsR Report ReportProofs.
Import ListNotations.

(** no other columns appear: exactly the requested variables, each once, in the fixed order, labelled with the requested units *)
Theorem C18_snapshot_columns : forall (A : Arith) times (els : list (@erec A)) req us target cols rows,
  snapshot times els req us target = Ok (cols, rows) ->
  cols = map (column_name us) (sorted_vars (match req with None => all_keys els | Some r => r end)).
Proof. exact (@snapshot_columns). Qed.
(** a filled cell is the interpolation over the instants (in seconds) of the element's recorded samples converted to the requested unit;
    an empty cell is a variable the element does not record *)
Theorem C18_cell_is_interpolation : forall (A : Arith) ts us (e : @erec A) v t y, cell ts us e v t = Ok (Some y) ->
  filled e v = true /\ exists l ys, lookup_var e v = Ok l /\
    (if String.eqb v "pwm" then numbers l else convert l (unit_of us v)) = Ok ys /\ interp1d ts ys t = Ok y.
Proof. exact (@cell_is_interpolation). Qed.
Theorem C18_empty_cell : forall (A : Arith) ts us (e : @erec A) v t, cell ts us e v t = Ok None -> filled e v = false.
Proof. exact (@cell_empty_means). Qed.
(** over the reals: at a recorded instant the interpolation is the recorded (converted) sample itself; between two instants, the
    linear interpolation of the two neighbouring samples *)
Theorem C18_at_recorded_instant : forall (xs ys : list R) t y, increasing (@zipn RA xs ys) ->
  @interp1d RA xs ys t = Ok y -> forall yk pre post, @zipn RA xs ys = (pre ++ (t, yk) :: post)%list -> y = yk.
Proof. exact interp1d_at_instant. Qed.
Theorem C18_between_instants : forall (xs ys : list R) t y, increasing (@zipn RA xs ys) ->
  @interp1d RA xs ys t = Ok y -> forall x0 y0 x1 y1 pre post, @zipn RA xs ys = (pre ++ (x0, y0) :: (x1, y1) :: post)%list ->
  (x0 <= t -> t < x1 -> y = y0 + (y1 - y0) * ((t - x0) / (x1 - x0)))%R.
Proof. exact interp1d_between. Qed.
(** the exported table: the time column in the requested unit and one column per recorded key in dictionary order, each with
    one value per recorded instant *)
(** the target handed to the interpolation is the requested time clamped into the simulated interval (D16 fix): within it, over the reals *)
Theorem C18_target_clamped : forall t lo hi : R, (lo <= hi)%R ->
  let t1 := if @ltb RA t lo then lo else t in
  let t2 := if @ltb RA hi t1 then hi else t1 in
  (lo <= t2 <= hi)%R.
Proof. exact clamp_in_range. Qed.
Theorem C18_export_shape : forall (A : Arith) times (e : @erec A) us cols, export times e us = Ok cols ->
  exists tcol rest, cols = ("time (" ++ u_time us ++ ")", tcol)%string :: rest /\ times_in times (u_time us) = Ok tcol /\
    map fst rest = map (fun p => column_name us (fst p)) (er_vars e) /\ Forall (fun c => length (snd c) = length tcol) rest.
Proof. exact (@export_shape). Qed.
(** and each exported value is the recorded sample converted to the requested unit (the definition of [convert]; the conversion keeps the
    SI magnitude by C05) *)
(** Powertrain.export_time_variables (the method): one file per element in the powertrain's order, each the export above with the same
    requested units; a raising element stops the loop and the files written before it are those of the elements before it *)
Theorem C18_export_method : forall (A : Arith) times (els : list (@erec A)) us,
  let r := export_all times els us in
  exists done, map fst (fst r) = map (@er_name A) done /\
    Forall2 (fun f e => fst f = er_name e /\ export times e us = Ok (snd f)) (fst r) done /\
    match snd r with
    | None => done = els
    | Some x => exists e rest, els = (done ++ e :: rest)%list /\ export times e us = Err x
    end.
Proof. exact (@export_all_files). Qed.
Theorem C18_convert_one_per_sample : forall (A : Arith) l u ys, @convert A l u = Ok ys -> length ys = length l.
Proof. exact (@convert_length). Qed.

Print Assumptions C18_snapshot_columns.
Print Assumptions C18_between_instants.
Print Assumptions C18_export_shape.
Print Assumptions C18_export_method.
