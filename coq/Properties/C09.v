(** * C09 — Gear tooth force and stresses equal the documented formulas.  Statements only.
    Model: coq/Gears.v (hand-written, generic in the arithmetic, over the REGENERATED Lewis and worm tables), compared bit for bit
    with gearpy's compute_tangential_force / compute_bending_stress / compute_contact_stress / lewis_factor on mated pairs of every
    kind, all teeth numbers 10..559 (+600, 1000), every optional-data subset, both roles, torques of either sign.
    Proved here: the interpolation of the regenerated table (for EVERY real argument, hence every teeth number without bound); the
    tangential force through the regenerated quantity layer; the algebraic identities that turn the code's bending / contact /
    virtual-teeth expressions into the documented ones; the bending stress of spur and helical gears and the contact stress of a spur
    gear carried through the quantity layer step by step (module, face width, moduli, force in ANY units: the result is a Stress
    whose SI magnitude is the documented expression); likewise the helical gear's contact stress (transverse pressure angle
    atan(tan 20deg / cos beta), face width b / cos beta) and the worm wheel's bending stress (normal pitch pi d_w sin(beta_w) / z,
    effective face width min(b, 0.67 d_w) as the quantity comparison decides it).  Not covered by a theorem: the helical gear's
    virtual teeth number fed to the Lewis interpolation is proved as an identity only (C09_virtual_teeth_identity), and the worm
    wheel's Lewis factor is a table lookup by pressure angle (correspondence).  The three "is computable"
    flags and the ValueError of a contact stress whose mate lacks data are in Keys.v / Gears.contact_stress (see C17). *)
From Coq Require Import ZArith QArith Reals Lra String List Bool PrimFloat.
From GP Require Import ArithDef FloatUtil UnitsCore PyUnits RealArith Spec UnitsR QOps QOpsR Relations Gears GearsR.
From GP.gen Require Import UnitsGen TablesGen.
Import ListNotations.
Open Scope R_scope.

(** the regenerated Lewis table is strictly increasing in the teeth number *)
Theorem C09_table_increasing : increasing (@lewis_table RA).
Proof. exact lewis_table_increasing. Qed.
(** on a strictly increasing table the interpolation lies on the chord of the segment [x0, x1) that contains the argument ... *)
Theorem C09_lewis_on_chord : forall (t : list (R * R)) x, increasing t ->
  forall x0 y0 x1 y1 pre post, t = (pre ++ (x0, y0) :: (x1, y1) :: post)%list ->
  x0 <= x -> x < x1 ->
  @interp_segments RA t x = y0 + (y1 - y0) * ((x - x0) / (x1 - x0)).
Proof. exact interp_on_chord. Qed.
(** ... equals the tabulated value at every knot (the first and the last included) ... *)
Theorem C09_lewis_at_knot : forall t : list (R * R), increasing t ->
  forall xk yk pre post, t = (pre ++ (xk, yk) :: post)%list -> @interp_segments RA t xk = yk.
Proof. exact interp_at_knot. Qed.
(** ... and is clamped to the first / last tabulated value outside the table *)
Theorem C09_lewis_clamped : forall (t : list (R * R)) xf yf xl yl mid x, t = ((xf, yf) :: mid ++ [(xl, yl)])%list ->
  (x < xf -> @lewis_interp RA t x = yf) /\ (xl < x -> xf <= x -> @lewis_interp RA t x = yl).
Proof. exact lewis_interp_clamped. Qed.
(** tangential force = |reference torque| / (d / 2), d = teeth * module, load torque for the master, driving torque for the slave,
    for torques and module in any units; unmated gears are rejected *)
Theorem C09_tangential_force : forall (g : @gear RA) r (ltq dtq F : qty RA) sl sd m sm,
  g_kind g <> EWorm -> g_module g = Some m -> qk m = KLength -> si m = Ok sm ->
  qk ltq = KTorque -> qk dtq = KTorque -> si ltq = Ok sl -> si dtq = Ok sd ->
  tangential_force g r ltq dtq = Ok F ->
  exists role, r = Some role /\ qk F = KForce /\
    si F = Ok (Rabs (match role with RMaster => sl | RSlave => sd end) / (IZR (g_n g) * sm / 2)).
Proof. exact tangential_force_doc. Qed.
(** the code's expressions are the documented ones *)
Theorem C09_bending_identity : forall ft m b Y : R, 0 < m -> 0 < b -> 0 < Y -> ft / (m * b) / Y = ft / (m * b * Y).
Proof. exact bending_identity. Qed.
Theorem C09_contact_identity : forall E1 E2 d1 d2 b ft ca sa : R, 0 < E1 -> 0 < E2 -> 0 < d1 -> 0 < d2 -> 0 < b -> 0 < ca -> 0 < sa ->
  (2 * E1 * (E2 / (E1 + E2))) * (ft / ca / (b * (sa / 2 * d1 * (d2 / (d1 + d2))))) =
  4 * ft / (b * ca * sa) * (1 / d1 + 1 / d2) * (E1 * E2 / (E1 + E2)).
Proof. exact contact_identity. Qed.
Theorem C09_virtual_teeth_identity : forall z cb ch : R, cb <> 0 -> ch <> 0 -> z / (cb * cb) / ch = z / (cb * cb * ch).
Proof. exact virtual_teeth_identity. Qed.

(** non-vacuity (binary64 instance): the Lewis factor at the knot 20 is the tabulated 0.320, and at 21.5 it is between the neighbours *)
(** bending stress of a spur or helical gear, whatever the units of module, face width and force:  F_t / (m b) / Y  in Pa,
    Y the Lewis factor ([lewis_factor], interpolated as proved above) *)
Theorem C09_bending_stress : forall (g : @gear RA) r mate (ft S m fw : qty RA) Y F sm sb,
  g_kind g <> EWheel -> lewis_factor g = Ok Y ->
  g_module g = Some m -> g_face g = Some fw -> qk m = KLength -> qk fw = KLength -> qk ft = KForce ->
  si m = Ok sm -> si fw = Ok sb -> si ft = Ok F ->
  bending_stress g r mate ft = Ok S ->
  sm * sb <> 0 /\ Y <> 0 /\ qk S = KStress /\ si S = Ok (F / (sm * sb) / Y).
Proof. exact bending_stress_doc. Qed.
(** contact stress of a spur gear (pressure angle 20 deg) against a spur or helical mate, whatever the units: with [C09_contact_identity]
    this is the documented  0.262922 sqrt( 4 F_t/(b cos a sin a) (1/d1 + 1/d2) E1 E2/(E1+E2) ) *)
Theorem C09_contact_stress_spur : forall (g mt : @gear RA) r (ft S m1 m2 fw e1 e2 : qty RA) F sm1 sm2 sb E1 E2,
  g_kind g = ESpur -> (g_kind mt = ESpur \/ g_kind mt = EHelical) -> r <> None ->
  g_module g = Some m1 -> g_module mt = Some m2 -> g_face g = Some fw -> g_emod g = Some e1 -> g_emod mt = Some e2 ->
  qk m1 = KLength -> qk m2 = KLength -> qk fw = KLength -> qk e1 = KStress -> qk e2 = KStress -> qk ft = KForce ->
  si m1 = Ok sm1 -> si m2 = Ok sm2 -> si fw = Ok sb -> si e1 = Ok E1 -> si e2 = Ok E2 -> si ft = Ok F ->
  contact_stress g r (Some mt) ft = Ok S ->
  let d1 := IZR (g_n g) * sm1 in let d2 := IZR (g_n mt) * sm2 in let al := 20 * (PI / 180) in
  qk S = KStress /\
  si S = Ok (131461 / 500000 * R_sqrt.sqrt ((2 * E1 * (E2 / (E1 + E2))) * (F / cos al / (sb * (sin al / 2 * d1 * (d2 / (d1 + d2))))))).
Proof. exact contact_stress_spur_doc. Qed.
(** contact stress of a helical gear: alpha_t = atan(tan 20deg / cos beta) for 20 deg, b / cos beta for b *)
Theorem C09_contact_stress_helical : forall (g mt : @gear RA) r (ft S m1 m2 fw e1 e2 hx : qty RA) F sm1 sm2 sb E1 E2 sh,
  g_kind g = EHelical -> (g_kind mt = ESpur \/ g_kind mt = EHelical) -> r <> None ->
  g_module g = Some m1 -> g_module mt = Some m2 -> g_face g = Some fw -> g_emod g = Some e1 -> g_emod mt = Some e2 -> g_helix g = Some hx ->
  qk m1 = KLength -> qk m2 = KLength -> qk fw = KLength -> qk e1 = KStress -> qk e2 = KStress -> qk ft = KForce ->
  base_kind (qk hx) = KAngularPosition ->
  si m1 = Ok sm1 -> si m2 = Ok sm2 -> si fw = Ok sb -> si e1 = Ok E1 -> si e2 = Ok E2 -> si ft = Ok F -> si hx = Ok sh ->
  contact_stress g r (Some mt) ft = Ok S ->
  let d1 := IZR (g_n g) * sm1 in let d2 := IZR (g_n mt) * sm2 in let al := atan (tan (20 * (PI / 180)) / cos sh) in
  cos sh <> 0 /\ qk S = KStress /\
  si S = Ok (131461 / 500000 * R_sqrt.sqrt ((2 * E1 * (E2 / (E1 + E2))) * (F / cos al / (sb / cos sh * (sin al / 2 * d1 * (d2 / (d1 + d2))))))).
Proof. exact contact_stress_helical_doc. Qed.
(** bending stress of a worm wheel: F_t / (p_n b_eff) / Y, p_n = pi d_w sin(beta_w) / z, b_eff = min(b, 0.67 d_w) *)
Theorem C09_bending_stress_wheel : forall (g mt : @gear RA) role (ft S dw hw fw : qty RA) Y F sdw shw sb,
  g_kind g = EWheel -> lewis_factor g = Ok Y ->
  g_dref mt = Some dw -> g_helix mt = Some hw -> g_face g = Some fw ->
  qk dw = KLength -> qk fw = KLength -> qk ft = KForce -> base_kind (qk hw) = KAngularPosition ->
  si dw = Ok sdw -> si hw = Ok shw -> si fw = Ok sb -> si ft = Ok F ->
  bending_stress g (Some role) (Some mt) ft = Ok S ->
  exists lim lt, q_rmul (@k067 RA) dw = Ok lim /\ si lim = Ok (67 / 100 * sdw) /\ q_lt lim fw = Ok lt /\
    qk S = KStress /\
    si S = Ok (F / (PI * sdw * sin shw / IZR (g_n g) * (if lt then 67 / 100 * sdw else sb)) / Y).
Proof. exact bending_stress_wheel_doc. Qed.

Example C09_nonvacuous :
  PrimFloat.eqb (@lewis_interp (FA []) (@lewis_table (FA [])) 20%float) 0x1.47ae147ae147bp-2%float
  && PrimFloat.ltb 0x1.4cccccccccccdp-2%float (@lewis_interp (FA []) (@lewis_table (FA [])) 0x1.58p+4%float)
  && PrimFloat.ltb (@lewis_interp (FA []) (@lewis_table (FA [])) 0x1.58p+4%float) 0x1.51eb851eb851fp-2%float = true.
Proof. vm_compute. reflexivity. Qed.

Print Assumptions C09_lewis_on_chord.
Print Assumptions C09_tangential_force.
Print Assumptions C09_table_increasing.
Print Assumptions C09_contact_stress_spur.
Print Assumptions C09_contact_stress_helical.
Print Assumptions C09_bending_stress_wheel.
