(** * C17 — Every advertised time variable has exactly one sample per instant.  Statements only.
    Two layers.  (1) The solver model records one snapshot per instant and every per-element list of a snapshot has one entry
    per element (theorems below, generic in the arithmetic; the six base variables, the duty cycle and the current).
    (2) Which optional keys (tangential force, bending stress, contact stress, electric current, pwm) an element advertises and
    which ones a computed instant appends to is the finite model Keys.v, compared with gearpy over every element kind, every
    subset of the optional data, both mating roles and the mate's data.  FULL STATEMENT wanted: appended = advertised for every
    configuration.  FALSE for one cell (finding D13: a mated worm wheel with module and face width whose worm has no reference
    diameter): kept as _partial + _refuted. *)
From Coq Require Import ZArith String List Bool PrimFloat.
From GP Require Import ArithDef FloatUtil UnitsCore PyUnits QOps Motor Solver SolverProofs SolverRun Relations Keys Examples.
Import ListNotations.

(** every run appends one recorded snapshot per grid instant it computed (and nothing else); reset empties everything *)
Theorem C17_one_record_per_instant : forall (A : Arith) (c : @chain A) load ctl stop dt T st st',
  run c load ctl stop dt T st = Ok st' ->
  exists t0 ts new, run_grid dt T (last_time st) = Ok (t0, ts) /\ map fst new = rev (firstn (length new) ts) /\
    match y_hist st with
    | [] => exists s0, y_hist st' = (new ++ [(t0, s0)])%list
    | _ :: _ => y_hist st' = (new ++ y_hist st)%list
    end.
Proof. exact (@run_records_grid). Qed.
(** in every recorded snapshot of every reachable state each per-element variable has exactly one sample per element *)
Theorem C17_one_sample_per_element : forall (A : Arith) (c : @chain A) load ops p w st t s,
  exec c load ops (initial p w) = Ok st -> In (t, s) (y_hist st) ->
  let n := S (length (c_elems c)) in
  length (s_pos s) = n /\ length (s_spd s) = n /\ length (s_acc s) = n /\ length (s_dtq s) = n /\ length (s_ltq s) = n /\ length (s_tq s) = n.
Proof. exact (@reachable_lengths). Qed.
(** the last sample equals the element's current attribute: after any reachable sequence of operations, the live position, speed,
    acceleration, motor torque and current are those of the last recorded snapshot (the duty cycle apart, which the user may assign
    between runs) *)
Theorem C17_last_sample_is_current : forall (A : Arith) (c : @chain A) load ops p w st t s h,
  exec c load ops (initial p w) = Ok st -> y_hist st = (t, s) :: h ->
  exists v1, live_of s = Ok v1 /\
    v_pos_last v1 = v_pos_last (y_live st) /\ v_spd_last v1 = v_spd_last (y_live st) /\ v_acc_last v1 = v_acc_last (y_live st) /\
    v_tq0 v1 = v_tq0 (y_live st) /\ v_cur v1 = v_cur (y_live st).
Proof. exact (@reachable_last_sample). Qed.
(** the optional keys: appended = advertised everywhere but in the D13 cell *)
Theorem C17_keys_partial : forall c : kcfg, d13_cell c = false -> appended c = advertised c.
Proof. exact keys_agree. Qed.
Theorem C17_keys_refuted : forall c : kcfg, d13_cell c = true ->
  advertised c = (base_keys ++ ["tangential force"; "bending stress"]%string)%list /\ appended c = (base_keys ++ ["tangential force"]%string)%list.
Proof. exact keys_d13. Qed.
Example C17_d13_cell_exists :
  d13_cell {| k_kind := EWheel; k_module := true; k_face := true; k_emod := false; k_dref := false; k_cur := false;
              k_role := Some RSlave; k_mate_dref := false; k_mate_module := false; k_mate_emod := false |} = true.
Proof. reflexivity. Qed.

Example C17_nonvacuous : Nat.eqb (hist_len (ex_final true 5)) 21 = true.
Proof. vm_compute. reflexivity. Qed.

Print Assumptions C17_one_sample_per_element.
Print Assumptions C17_keys_partial.
