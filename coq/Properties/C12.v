(** * C12 — Continuation and reset/rerun reproduce the same history.  Statements only; generic in the arithmetic.
    (About the code as repaired by the "fix:" commits for findings D1, D2, D3.)
    What is proved and what is not:
    - continuation with the SAME step object (same value, same unit): full state equality, given that the grids concatenate
      (a fact of real arithmetic; in binary64 the instants agree only up to rounding, which the metamorphic search measures);
    - continuation in ANOTHER unit: [C12_continue_other_unit_partial] — in the regime where the solver model is proved to be the Euler
      recurrence (never held, constant duty cycle outside the dead zone, constant load, steps of one SI magnitude written in ANY units,
      a different unit for each run if the user likes), any two schedules on the same powertrain record output speeds and positions of
      equal SI magnitude at instants of equal index — in particular "run T1; continue T2 with dt and T in another unit" against one run
      of T1+T2.  Outside that regime the cross-unit clause is covered by the bit-exact correspondence on schedules that continue in
      another unit and by the metamorphic search;
    - reset/rerun: [C12_reset_rerun] — reset, (optionally a new Solver), re-apply the initial position and speed, the same run:
      the rerun's history equals the original in every observable field of every instant, and the live values and the lock
      flag agree, for every chain, load, rule set, stop condition, dt and T, PROVIDED the duty cycle that reset restores
      (the one recorded at instant 0) is the one the original run started from.  Without that proviso the statement is
      FALSE: a control rule that changes the duty cycle at instant 0 of a self-locking train (finding D4: reset restores the
      post-control duty cycle, which the lock test of instant 0 reads) — [C12_reset_rerun_refuted]. *)
From Coq Require Import ZArith String List Bool PrimFloat Reals.
From GP Require Import ArithDef FloatUtil UnitsCore PyUnits QOps Motor Solver SolverProofs SolverRun SolverSched SolverRerun RealArith UnitsR SolverSI RunIndep Examples.
Import ListNotations.

Theorem C12_loop_concatenates : forall (A : Arith) (c : @chain A) load ctl J dt ts1 ts2 st,
  loop c load ctl None J dt (ts1 ++ ts2) st = (st1 <- loop c load ctl None J dt ts1 st ;; loop c load ctl None J dt ts2 st1).
Proof. exact (@loop_app). Qed.

Theorem C12_continue_same_step : forall (A : Arith) (c : @chain A) load ctl dt T1 T2 T12 st st1 t0 ts1 t0' ts2,
  run c load ctl None dt T1 st = Ok st1 ->
  run_grid dt T1 (last_time st) = Ok (t0, ts1) -> ts1 <> [] ->
  run_grid dt T2 (last_time st1) = Ok (t0', ts2) ->
  run_grid dt T12 (last_time st) = Ok (t0, (ts1 ++ ts2)%list) ->
  q_ge dt T2 = Ok false -> q_ge dt T12 = Ok false ->
  run c load ctl None dt T2 st1 = run c load ctl None dt T12 st.
Proof. exact (@continue_same_step). Qed.

(** [fresh p w pwm0]: a powertrain not simulated yet (initial position p and speed w of the output element, duty cycle pwm0);
    [same_obs st st']: same live values, same lock flag, histories equal instant by instant in time and in every recorded
    variable of every element (position, speed, acceleration, torque, driving torque, load torque, duty cycle, current, held flag);
    [comparable tq0]: the recorded motor torque of instant 0 can be compared with zero (it is a torque). *)
Theorem C12_reset_rerun : forall (A : Arith) (c : @chain A) load ctl stop dt T p w pwm0 (newsolver : bool) st1 t0 s0 rest tq0,
  run c load ctl stop dt T (fresh p w pwm0) = Ok st1 ->
  rev (y_hist st1) = (t0, s0) :: rest ->
  s_pwm s0 = pwm0 ->
  headq (s_tq s0) = Ok tq0 -> comparable tq0 ->
  exists st2,
    exec c load (SReset :: (if newsolver then [SNewSolver] else []) ++ [SSetInit p w; SRun dt T ctl stop])%list st1 = Ok st2 /\
    same_obs st1 st2.
Proof. exact (@rerun_reproduces). Qed.
Theorem C12_same_obs_means : forall (A : Arith) (st st' : @sys A), same_obs st st' ->
  y_live st = y_live st' /\ y_locked st = y_locked st' /\
  Forall2 (fun a b => fst a = fst b /\ obs (snd a) = obs (snd b)) (y_hist st) (y_hist st').
Proof. intros A st st' H. exact H. Qed.

(** non-vacuity of the hypotheses: the self-locking example train without controller, 5 Nm load: a run of 8 steps records 9 instants,
    the duty cycle recorded at instant 0 is the initial one, and the recorded motor torque compares with zero *)
Definition ex12_run : res (@sys FX0) :=
  run (ex_chain true) (ex_load 5) None None (Qx KTimeInterval 1 "ms") (Qx KTimeInterval 8 "ms")
      (fresh (Qx KAngularPosition 0 "rad") (Qx KAngularSpeed 0 "rad/s") 1).
Example C12_rerun_nonvacuous :
  match ex12_run with
  | Ok st => match rev (y_hist st) with
             | (_, s0) :: rest => PrimFloat.eqb (s_pwm s0) 1 && Nat.eqb (length rest) 8 &&
                                  match headq (s_tq s0) with
                                  | Ok t => match q_gt t NULL_TQ, q_lt t NULL_TQ with Ok _, Ok _ => true | _, _ => false end
                                  | Err _ => false end
             | [] => false end
  | Err _ => false end = true.
Proof. vm_compute. reflexivity. Qed.

Theorem C12_continue_other_unit_partial : forall (c : @chain RA) load W0 TM I0 IM L JJ DT D ops ops' p w p' w' st st',
  same_system c c load load W0 TM I0 IM L JJ ->
  (I0 / IM < Rabs D)%R -> (0 <= I0 /\ 0 < IM /\ 0 < W0 /\ 0 < JJ)%R ->
  exec c load ops (initial p w) = Ok st -> exec c load ops' (initial p' w') = Ok st' ->
  uniform DT D (y_hist st) -> uniform DT D (y_hist st') ->
  forall t0 s0 pre t0' s0' pre', y_hist st = (pre ++ [(t0, s0)])%list -> y_hist st' = (pre' ++ [(t0', s0')])%list ->
  forall w0 p0 w0' p0' W00 P00, lastq (s_spd s0) = Ok w0 -> lastq (s_pos s0) = Ok p0 -> si w0 = Ok W00 -> si p0 = Ok P00 ->
                                lastq (s_spd s0') = Ok w0' -> lastq (s_pos s0') = Ok p0' -> si w0' = Ok W00 -> si p0' = Ok P00 ->
  forall front t s rest front' t' s' rest',
    y_hist st = (front ++ (t, s) :: rest)%list -> y_hist st' = (front' ++ (t', s') :: rest')%list -> length rest = length rest' ->
  exists wk pk wk' pk' Wk Pk,
    lastq (s_spd s) = Ok wk /\ lastq (s_pos s) = Ok pk /\ lastq (s_spd s') = Ok wk' /\ lastq (s_pos s') = Ok pk' /\
    si wk = Ok Wk /\ si wk' = Ok Wk /\ si pk = Ok Pk /\ si pk' = Ok Pk.
Proof. intros c load. exact (every_instant_unit_independent c c load load). Qed.

(** finding D4 in the executable model (binary64): the self-locking example train under ConstantPWM(0) from t = 0, reset, rerun
    with a new solver: the instant-0 acceleration of the output changes from non-zero to zero *)
Definition d4_rules : list (@rule FX0) := [ @RConst FX0 (Qx KTime 0 "sec") (Qx KTimeInterval 1 "sec") 0 ].
Definition d4_run : @sop FX0 := @SRun FX0 (Qx KTimeInterval 1 "ms") (Qx KTimeInterval 5 "ms") (Some d4_rules) None.
Definition d4_first_acc (ops : list (@sop FX0)) : float :=
  match exec (ex_chain true) (ex_load (-5)) ops (initial (Qx KAngularPosition 0 "rad") (Qx KAngularSpeed 0 "rad/s")) with
  | Ok st => match rev (y_hist st) with (_, s) :: _ => match rev (s_acc s) with a :: _ => qv a | [] => nan end | [] => nan end
  | Err _ => nan end.
Theorem C12_reset_rerun_refuted :
  negb (PrimFloat.eqb (d4_first_acc [d4_run]) 0) && PrimFloat.eqb (d4_first_acc [d4_run; @SReset FX0; @SNewSolver FX0; d4_run]) 0 = true.
Proof. vm_compute. reflexivity. Qed.

Example C12_nonvacuous : Nat.eqb (hist_len (ex_final true 5)) 21 = true.
Proof. vm_compute. reflexivity. Qed.

Print Assumptions C12_continue_same_step.
Print Assumptions C12_reset_rerun.
