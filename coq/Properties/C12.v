(** * C12 — Continuation and reset/rerun reproduce the same history.  Statements only; generic in the arithmetic.
    (About the code as repaired by the "fix:" commits for findings D1, D2, D3.)
    What is proved and what is not:
    - continuation with the SAME step object (same value, same unit): full state equality, given that the grids concatenate
      (a fact of real arithmetic; in binary64 the instants agree only up to rounding, which the metamorphic search measures);
    - continuation in ANOTHER unit needs the unit-independence of the whole run (C07): here _partial, covered by the
      bit-exact correspondence on schedules that continue in another unit and by the metamorphic search;
    - reset/rerun: the first instant of the rerun is proved to record the same observable values as the original first
      instant whenever the live position, speed and duty cycle agree (the solver's flag is cleared by a fresh start and the
      left-over torque, acceleration and current are proved irrelevant).  The full statement "the whole history is
      reproduced" is FALSE when a control rule changes the duty cycle at instant 0 of a self-locking train (finding D4:
      reset restores the post-control duty cycle); the remaining induction over later instants is not mechanised: _partial. *)
From Coq Require Import ZArith String List Bool PrimFloat.
From GP Require Import ArithDef FloatUtil UnitsCore PyUnits QOps Motor Solver SolverProofs SolverRun SolverSched Examples.
Import ListNotations.

Theorem C12_loop_concatenates : forall (A : Arith) (c : @chain A) load ctl J dt ts1 ts2 st,
  loop c load ctl None J dt (ts1 ++ ts2) st = (st1 <- loop c load ctl None J dt ts1 st ;; loop c load ctl None J dt ts2 st1).
Proof. exact (@loop_app). Qed.

Theorem C12_continue_same_step : forall (A : Arith) (c : @chain A) load ctl dt T1 T2 T12 st st1 t0 ts1 t0' ts2,
  run c load ctl None dt T1 st = Ok st1 ->
  run_grid dt T1 (last_time st) = Ok (t0, ts1) -> ts1 <> [] ->
  run_grid dt T2 (last_time st1) = Ok (t0', ts2) ->
  run_grid dt T12 (last_time st) = Ok (t0, (ts1 ++ ts2)%list) ->
  q_ge dt T2 = Ok false -> q_ge dt T12 = Ok false ->
  run c load ctl None dt T2 st1 = run c load ctl None dt T12 st.
Proof. exact (@continue_same_step). Qed.

Theorem C12_rerun_first_instant_partial : forall (A : Arith) (c : @chain A) load ctl J t f v v' s lk prov,
  v_pos_last v' = v_pos_last v -> v_spd_last v' = v_spd_last v -> v_pwm v' = v_pwm v -> v_tq0 v = None ->
  instant c load ctl J t f v' false prov = Ok (s, lk) ->
  exists s0, instant c load ctl J t f v false prov = Ok (s0, lk) /\ obs s0 = obs s.
Proof. exact (@first_instant_rerun). Qed.

(** finding D4 in the executable model (binary64): the self-locking example train under ConstantPWM(0) from t = 0, reset, rerun
    with a new solver: the instant-0 acceleration of the output changes from non-zero to zero *)
Definition d4_rules : list (@rule FX0) := [ @RConst FX0 (Qx KTime 0 "sec") (Qx KTimeInterval 1 "sec") 0 ].
Definition d4_run : @sop FX0 := @SRun FX0 (Qx KTimeInterval 1 "ms") (Qx KTimeInterval 5 "ms") (Some d4_rules) None.
Definition d4_first_acc (ops : list (@sop FX0)) : float :=
  match exec (ex_chain true) (ex_load (-5)) ops (initial (Qx KAngularPosition 0 "rad") (Qx KAngularSpeed 0 "rad/s")) with
  | Ok st => match rev (y_hist st) with (_, s) :: _ => match rev (s_acc s) with a :: _ => qv a | [] => nan end | [] => nan end
  | Err _ => nan end.
Theorem C12_reset_rerun_refuted :
  negb (PrimFloat.eqb (d4_first_acc [d4_run]) 0) && PrimFloat.eqb (d4_first_acc [d4_run; @SReset FX0; @SNewSolver FX0; d4_run]) 0 = true.
Proof. vm_compute. reflexivity. Qed.

Example C12_nonvacuous : Nat.eqb (hist_len (ex_final true 5)) 21 = true.
Proof. vm_compute. reflexivity. Qed.

Print Assumptions C12_continue_same_step.
Print Assumptions C12_rerun_first_instant_partial.
