(** * C03 — Equation of motion and time-step update of the output element.  Statements only; generic in the arithmetic. *)
From Coq Require Import ZArith String List Bool PrimFloat.
From GP Require Import ArithDef FloatUtil UnitsCore PyUnits QOps Motor Solver SolverProofs Examples.
Import ListNotations.

(** whenever the instant is not held, the last element's acceleration is its net torque divided by the equivalent inertia *)
Theorem C03_equation_of_motion : forall (A : Arith) (c : @chain A) load ops p w st t s,
  exec c load ops (initial p w) = Ok st -> In (t, s) (y_hist st) -> s_locked s = false ->
  exists J tl a, equivalent_inertia c = Ok J /\ lastq (s_tq s) = Ok tl /\ q_divq tl J = Ok a /\ lastq (s_acc s) = Ok a.
Proof. exact (@reachable_motion). Qed.
(** ... where the equivalent inertia is the documented reduction: start from the motor's, and for each further element
    multiply the running total by its ratio and add its inertia *)
Theorem C03_inertia_reduction : forall (A : Arith) (c : @chain A),
  equivalent_inertia c = fold_left (fun acc e => j <- acc ;; j1 <- q_muln j (e_ratio e) ;; q_add j1 (e_J e)) (c_elems c) (Ok (c_J0 c)).
Proof. reflexivity. Qed.
(** two consecutive recorded instants (history is newest first): the newer one was reached by one step dt (ghost field
    [s_dt]); speed advances by the previously recorded acceleration times dt, position by the ADVANCED speed times dt, and
    the recorded speed is the advanced one unless the newer instant is held, in which case it is the zero constant.
    Holds across continued runs and never spans a reset (the history is emptied there). *)
Theorem C03_time_step : forall (A : Arith) (c : @chain A) load ops p w st pre t s t1 s1 post,
  exec c load ops (initial p w) = Ok st -> y_hist st = (pre ++ (t, s) :: (t1, s1) :: post)%list ->
  exists dt, s_dt s = Some dt /\
  exists a1 w1 p1 dv w' dp p',
    lastq (s_acc s1) = Ok a1 /\ lastq (s_spd s1) = Ok w1 /\ lastq (s_pos s1) = Ok p1 /\
    q_mulq a1 dt = Ok dv /\ q_add w1 dv = Ok w' /\ q_mulq w' dt = Ok dp /\ q_add p1 dp = Ok p' /\
    lastq (s_pos s) = Ok p' /\ lastq (s_spd s) = Ok (if s_locked s then NULL_SPD else w').
Proof. exact (@reachable_step). Qed.

Example C03_nonvacuous : Nat.eqb (hist_len (ex_final false 5)) 21 && Nat.eqb (count_locked (ex_final false 5)) 0 = true.
Proof. vm_compute. reflexivity. Qed.

Print Assumptions C03_time_step.
