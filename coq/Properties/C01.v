(** * C01 — Kinematic coupling: neighbours move in the gear ratio at every instant.
    Statements only.  The theorems hold for EVERY arithmetic [A], hence for the binary64 instance of the model that the
    correspondence check compares bit for bit with gearpy, for every chain, load function, rule set and every sequence
    of run / continue / early stop / reset / new solver / duty-cycle changes that returns. *)
From Coq Require Import ZArith String List Bool PrimFloat Reals.
From GP Require Import ArithDef FloatUtil UnitsCore PyUnits RealArith UnitsR QOps Motor Solver SolverProofs SolverSI ChainSI Examples.
Import ListNotations.

(** [linked q_rmul ratios l]: l[i] = ratio[i+1] * l[i+1] for every adjacent pair (the Python expression of the solver),
    where ratio[i+1] is the downstream element's ratio to its driver *)
Theorem C01_kinematic_coupling : forall (A : Arith) (c : @chain A) load ops p w st t s,
  exec c load ops (initial p w) = Ok st -> In (t, s) (y_hist st) ->
  linked q_rmul (ratios c) (s_pos s) /\
  (s_locked s = false -> linked q_rmul (ratios c) (s_spd s) /\ linked q_rmul (ratios c) (s_acc s)) /\
  (s_locked s = true -> Forall (eq NULL_SPD) (s_spd s) /\ Forall (eq NULL_ACC) (s_acc s) /\
                        length (s_spd s) = length (s_pos s) /\ length (s_acc s) = length (s_pos s)).
Proof. exact (@reachable_kin). Qed.

(** the shape of [linked], spelled out: one value per element, adjacent values related by the operation *)
Theorem C01_linked_means : forall (A : Arith) rs (x : qty A) l, back_prop rs x = Ok l ->
  linked q_rmul rs l /\ lastq l = Ok x /\ length l = S (length rs).
Proof. exact (@back_prop_spec). Qed.

(** end to end, in SI, whatever the units the quantities are recorded in (over the reals): the motor's position is the output element's
    times the product [Rr c] of all gear ratios; likewise speed and acceleration at every instant that is not held *)
Theorem C01_position_end_to_end : forall (c : @chain RA) load ops p w st t s xl X,
  exec c load ops (initial p w) = Ok st -> In (t, s) (y_hist st) -> lastq (s_pos s) = Ok xl -> si xl = Ok X ->
  exists x0, headq (s_pos s) = Ok x0 /\ si x0 = Ok (Rr c * X)%R.
Proof. exact kinematics_end_to_end. Qed.
Theorem C01_speed_end_to_end : forall (c : @chain RA) load ops p w st t s xl X,
  exec c load ops (initial p w) = Ok st -> In (t, s) (y_hist st) -> s_locked s = false -> lastq (s_spd s) = Ok xl -> si xl = Ok X ->
  exists x0, headq (s_spd s) = Ok x0 /\ si x0 = Ok (Rr c * X)%R.
Proof. exact speed_end_to_end. Qed.
Theorem C01_acceleration_end_to_end : forall (c : @chain RA) load ops p w st t s xl X,
  exec c load ops (initial p w) = Ok st -> In (t, s) (y_hist st) -> s_locked s = false -> lastq (s_acc s) = Ok xl -> si xl = Ok X ->
  exists x0, headq (s_acc s) = Ok x0 /\ si x0 = Ok (Rr c * X)%R.
Proof. exact acceleration_end_to_end. Qed.
Theorem C01_Rr_is_the_product : forall c : @chain RA, Rr c = fold_right Rmult 1%R (map e_ratio (c_elems c)).
Proof. reflexivity. Qed.
(** non-vacuity: a 3-element self-locking worm train run, continued with another step; 21 recorded instants, 7 of them held *)
Example C01_nonvacuous :
  Nat.eqb (hist_len (ex_final true 5)) 21 && Nat.eqb (count_locked (ex_final true 5)) 7 && moved (ex_final true 5) = true.
Proof. vm_compute. reflexivity. Qed.

Print Assumptions C01_kinematic_coupling.
