(** * C16 — A stop condition ends the run at the first instant it holds.  Statements only; generic in the arithmetic. *)
From Coq Require Import ZArith String List Bool PrimFloat.
From GP Require Import ArithDef FloatUtil UnitsCore PyUnits QOps Motor Solver SolverProofs SolverRun Examples.
Import ListNotations.

(** [new] (newest first) is what the run appended after its starting instant; ts is the full grid of the run.
    The comparison is false at every earlier computed instant, true at the last recorded one whenever the run ended before
    the full grid, nothing is recorded after it, and the first instant of a fresh simulation is recorded but not tested. *)
Theorem C16_stop_condition : forall (A : Arith) (c : @chain A) load ctl sc dt T st st',
  run c load ctl (Some sc) dt T st = Ok st' ->
  exists t0 x new,
    q_ratio T dt = Ok x /\
    let ts := grid_from (qv t0) (qv dt) (qu dt) 1 (Z.to_nat (round_half_even x)) in
    (map fst new = rev (firstn (length new) ts) /\ length new <= length ts /\
     (forall t s, In (t, s) (tl new) -> stop_check sc s = Ok false) /\
     (length new < length ts -> exists t s, hd_error new = Some (t, s) /\ stop_check sc s = Ok true)) /\
    match y_hist st with
    | [] => exists s0, y_hist st' = (new ++ [(t0, s0)])%list
    | _ :: _ => y_hist st' = (new ++ y_hist st)%list
    end.
Proof.
  intros A c load ctl sc dt T st st' H.
  destruct (run_spec c load ctl (Some sc) dt T st st' H) as (t0 & x & new & Hx & [H1 H2 H3 H4 _] & Hh).
  exists t0, x, new. split; [exact Hx|]. split; [auto|]. destruct (y_hist st) as [|[tl sl] h]; [|apply Hh].
  destruct Hh as (_ & s0 & Hs & _). eauto.
Qed.
(** what is compared: the sensor's reading of the just-recorded instant against the threshold with the chosen operator *)
Theorem C16_check_is : forall (A : Arith) (sc : @stopcond A) s,
  stop_check sc s = (v <- sensor_value s (sc_sensor sc) ;;
                     match sc_op sc with
                     | OpGT => q_gt v (sc_threshold sc) | OpGE => q_ge v (sc_threshold sc) | OpEQ => q_eq v (sc_threshold sc)
                     | OpLT => q_lt v (sc_threshold sc) | OpLE => q_le v (sc_threshold sc) end).
Proof. reflexivity. Qed.

(** non-vacuity: a run of 50 possible steps that stops after 4 (5 recorded instants) *)
Example C16_nonvacuous : Nat.eqb (hist_len ex_stop_final) 5 = true.
Proof. vm_compute. reflexivity. Qed.

Print Assumptions C16_stop_condition.
