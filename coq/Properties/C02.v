(** * C02 — Torque propagation and balance along the chain at every instant.  Statements only; generic in the arithmetic. *)
From Coq Require Import ZArith String List Bool PrimFloat.
From GP Require Import ArithDef FloatUtil UnitsCore PyUnits QOps Motor Solver SolverProofs Examples.
Import ListNotations.

(** at every recorded instant (t, s) of every reachable state:
    - the motor's driving torque is [motor_torque] at the RECORDED motor speed and the RECORDED duty cycle, and each following
      element's is (driver's * efficiency) * ratio  ([drive_linked]);
    - the last element's load torque is the user's load function at the instant's time and the recorded position and speed of
      that element, and each upstream one is (follower's / efficiency) / ratio  ([load_linked]);
    - every net torque is driving minus load, element by element ([pointwise q_sub]). *)
Theorem C02_torque_balance : forall (A : Arith) (c : @chain A) load ops p w st t s,
  exec c load ops (initial p w) = Ok st -> In (t, s) (y_hist st) ->
  (exists spd0 d0, headq (s_spd s) = Ok spd0 /\ motor_torque (c_motor c) spd0 (s_pwm s) = Ok d0 /\
                   headq (s_dtq s) = Ok d0 /\ drive_linked (c_elems c) (s_dtq s)) /\
  (exists pl sl lt, lastq (s_pos s) = Ok pl /\ lastq (s_spd s) = Ok sl /\ load t pl sl = Ok lt /\
                   lastq (s_ltq s) = Ok lt /\ load_linked (c_elems c) (s_ltq s)) /\
  pointwise q_sub (s_dtq s) (s_ltq s) (s_tq s).
Proof. exact (@reachable_torque). Qed.

Example C02_nonvacuous : Nat.eqb (hist_len (ex_final false 5)) 21 && moved (ex_final false 5) = true.
Proof. vm_compute. reflexivity. Qed.

Print Assumptions C02_torque_balance.
