(** * C02 — Torque propagation and balance along the chain at every instant.  Statements only; generic in the arithmetic. *)
From Coq Require Import ZArith String List Bool PrimFloat Reals.
From GP Require Import ArithDef FloatUtil UnitsCore PyUnits RealArith UnitsR QOps Motor Solver SolverProofs SolverSegs SolverSI ChainSI Examples.
Import ListNotations.

(** at every recorded instant (t, s) of every reachable state:
    - the motor's driving torque is [motor_torque] at the RECORDED motor speed and the RECORDED duty cycle, and each following
      element's is (driver's * efficiency) * ratio  ([drive_linked]);
    - the last element's load torque is the user's load function at the instant's time and the recorded position and speed of
      that element, and each upstream one is (follower's / efficiency) / ratio  ([load_linked]);
    - every net torque is driving minus load, element by element ([pointwise q_sub]). *)
Theorem C02_torque_balance : forall (A : Arith) (c : @chain A) load ops p w st t s,
  exec c load ops (initial p w) = Ok st -> In (t, s) (y_hist st) ->
  (exists spd0 d0, headq (s_spd s) = Ok spd0 /\ motor_torque (c_motor c) spd0 (s_pwm s) = Ok d0 /\
                   headq (s_dtq s) = Ok d0 /\ drive_linked (c_elems c) (s_dtq s)) /\
  (exists pl sl lt, lastq (s_pos s) = Ok pl /\ lastq (s_spd s) = Ok sl /\ load t pl sl = Ok lt /\
                   lastq (s_ltq s) = Ok lt /\ load_linked (c_elems c) (s_ltq s)) /\
  pointwise q_sub (s_dtq s) (s_ltq s) (s_tq s).
Proof. exact (@reachable_torque). Qed.

(** the same when the user re-declares things BETWEEN simulations (another external torque on the last element, a mating declared
    again with another efficiency: an efficiency sweep on the same objects).  The schedule is a list of segments, each with the chain
    and load in force; every later segment starts with Powertrain.reset() and carries the powertrain's frozen self-locking flag
    (C20).  Every recorded instant of the final history obeys the relations of the system IN FORCE AT THE END -- a solver that kept
    the efficiencies it saw when it was created would not (seeded change C02d). *)
Theorem C02_redeclared_between_simulations : forall (A : Arith) (c0 : @chain A) l0 ops0 (rest : list (@seg A)) p w st t s,
  segs_ok (c_selflock c0) rest -> exec_segs ((c0, l0, ops0) :: rest) (initial p w) = Ok st -> In (t, s) (y_hist st) ->
  let cl := fst (last_system c0 l0 rest) in let ll := snd (last_system c0 l0 rest) in
  kin_ok cl s /\ torque_ok cl ll t s /\ motion_ok cl s /\ lock_ok cl s.
Proof. exact (@segs_final_history). Qed.

(** end to end, in SI, whatever the units (over the reals): with [Gg c] the product over the chain of (efficiency x ratio), the output
    element's driving torque is the motor's times [Gg c], and the motor's load torque is the output element's divided by [Gg c] *)
Theorem C02_driving_torque_end_to_end : forall (c : @chain RA) load ops p w st t s d0 D0,
  exec c load ops (initial p w) = Ok st -> In (t, s) (y_hist st) -> headq (s_dtq s) = Ok d0 -> si d0 = Ok D0 ->
  exists dl, lastq (s_dtq s) = Ok dl /\ si dl = Ok (D0 * Gg c)%R.
Proof. exact driving_torque_end_to_end. Qed.
Theorem C02_load_torque_end_to_end : forall (c : @chain RA) load ops p w st t s ll LL,
  exec c load ops (initial p w) = Ok st -> In (t, s) (y_hist st) -> lastq (s_ltq s) = Ok ll -> si ll = Ok LL ->
  exists l0, headq (s_ltq s) = Ok l0 /\ si l0 = Ok (LL / Gg c)%R /\ Gg c <> 0%R.
Proof. exact load_torque_end_to_end. Qed.
Theorem C02_Gg_is_the_product : forall c : @chain RA,
  Gg c = fold_right (fun (e : @elem RA) (acc : R) => ((e_eff e : R) * (e_ratio e : R) * acc)%R) 1%R (c_elems c).
Proof. reflexivity. Qed.
Example C02_nonvacuous : Nat.eqb (hist_len (ex_final false 5)) 21 && moved (ex_final false 5) = true.
Proof. vm_compute. reflexivity. Qed.

Print Assumptions C02_torque_balance.
Print Assumptions C02_redeclared_between_simulations.
