(** * C11 — The time axis is the uniform grid 0, dt, ..., T and never overruns T.  Statements only.
    (About the code as repaired by the "fix:" commits for findings D1 and D2: count-based grid.) *)
From Coq Require Import ZArith QArith Reals Lra String List Bool PrimFloat.
From GP Require Import ArithDef FloatUtil UnitsCore PyUnits RealArith UnitsR QOps Motor Solver SolverProofs SolverRun GridR Examples.
Import ListNotations. Open Scope nat_scope.

(** generic in the arithmetic: a run without stop condition appends exactly the grid instants  t0 + k*dt, k = 1..n,
    n = round(T/dt), in dt's unit, where t0 is 0 for a fresh simulation (whose first recorded instant is t0 itself) and the
    previous final instant converted to dt's unit for a continued one; with a stop condition, a prefix of that grid *)
Theorem C11_time_axis : forall (A : Arith) (c : @chain A) load ctl stop dt T st st',
  run c load ctl stop dt T st = Ok st' ->
  exists t0 x new,
    q_ratio T dt = Ok x /\
    let n := Z.to_nat (round_half_even x) in
    let ts := grid_from (qv t0) (qv dt) (qu dt) 1 n in
    map fst new = rev (firstn (length new) ts) /\ length new <= n /\ (stop = None -> length new = n) /\
    match y_hist st with
    | [] => q_new KTime zero (qu dt) = Ok t0 /\ exists s0, y_hist st' = (new ++ [(t0, s0)])%list
    | (tl, _) :: _ => q_to tl (qu dt) = Ok t0 /\ y_hist st' = (new ++ y_hist st)%list
    end.
Proof.
  intros A c load ctl stop dt T st st' H.
  destruct (run_spec c load ctl stop dt T st st' H) as (t0 & x & new & Hx & [H1 H2 _ _ H5] & Hh).
  exists t0, x, new. split; [exact Hx|]. cbn zeta. rewrite grid_from_length in H2, H5. split; [exact H1|]. split; [exact H2|]. split; [exact H5|].
  destruct (y_hist st) as [|[tl sl] h]; [|exact Hh]. destruct Hh as (Ht & s0 & Hs & _). eauto.
Qed.
(** the i-th grid instant *)
Theorem C11_grid_instant : forall (A : Arith) (t0v dtv : num A) u n i, (i < n)%nat ->
  nth_error (grid_from t0v dtv u 1 n) i = Some {| qk := KTime; qv := add t0v (mul (of_Z (1 + Z.of_nat i)) dtv); qu := u |}.
Proof. intros. apply grid_from_nth. assumption. Qed.
(** over the reals: consecutive instants are exactly dt apart, the last one is t0 + n*dt, none exceeds it; and when T is n steps
    (T/dt is the integer n), round(T/dt) = n, so the last instant is t0 + T *)
Theorem C11_real_grid : forall (t0 dt : R) u (n i : nat), (i < n)%nat -> (0 < dt)%R ->
  exists q, nth_error (@grid_from RA t0 dt u 1 n) i = Some q /\ qv q = (t0 + INR (S i) * dt)%R /\ (qv q <= t0 + INR n * dt)%R.
Proof.
  intros t0 dt u n i Hi Hdt. eexists. split; [apply grid_from_nth; exact Hi|]. cbn [qv].
  assert (E : @of_Z RA (1 + Z.of_nat i) = INR (S i)).
  { change (@of_Z RA) with IZR. rewrite plus_IZR, <- INR_IZR_INZ, S_INR. lra. }
  change (@add RA) with Rplus. change (@mul RA) with Rmult. rewrite E. split; [reflexivity|].
  assert (INR (S i) <= INR n)%R by (apply le_INR; exact Hi). nra.
Qed.
(** the grid of a run in SI, whatever the units of dt, T and of the previous final instant (over the reals): round(T/dt) instants,
    the i-th one at  T0 + (i+1) dt  seconds, T0 = 0 for a fresh simulation and the previous final instant for a continued one *)
Theorem C11_grid_SI : forall (dt T : qty RA) (last : option (qty RA)) t0 ts DT TT,
  run_grid dt T last = Ok (t0, ts) -> qk dt = KTimeInterval -> si dt = Ok DT -> si T = Ok TT ->
  forall T0, match last with Some tl => si tl = Ok T0 /\ qk tl = KTime | None => T0 = 0%R end ->
  length ts = Z.to_nat (@round_half_even RA (TT / DT)%R) /\
  forall i q, nth_error ts i = Some q -> si q = Ok (T0 + INR (S i) * DT)%R.
Proof. exact run_grid_SI. Qed.
Theorem C11_round_exact : forall n : Z, @round_half_even RA (IZR n) = n.
Proof. exact Rround_IZR. Qed.

(** non-vacuity: 8 steps of 1 ms then 12 steps of 0.5 ms: 1 + 8 + 12 = 21 recorded instants *)
(** never more instants than the grids allow: whatever the schedule (runs, continuations, resets, new solvers, re-assigned state or
    duty cycle, stop conditions, rules), the history holds at most the instants it held before plus, for every run, round(T/dt) + 1.
    (This is the bound behind the harness's "runaway" witness: an implementation run that holds more instants than this when the
    harness interrupts it contradicts the time axis whatever it would have done next.) *)
Theorem C11_never_more_than_the_grids : forall (A : Arith) (c : @chain A) load ops st st',
  exec c load ops st = Ok st' -> length (y_hist st') <= length (y_hist st) + budget ops.
Proof. exact (@exec_length_bound). Qed.

Example C11_nonvacuous : Nat.eqb (hist_len (ex_final false 5)) 21 = true.
Proof. vm_compute. reflexivity. Qed.

Print Assumptions C11_time_axis.
Print Assumptions C11_real_grid.
Print Assumptions C11_grid_SI.
Print Assumptions C11_never_more_than_the_grids.
