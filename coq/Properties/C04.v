(** * C04 — Trajectories converge to the closed-form solution as dt shrinks.  Statements only.
    Three layers, all machine-checked:  (1) real analysis: the Euler factor (1-x)^k against e^{-kx};  (2) the explicit recurrence the
    solver performs on  w' = A - kap w  against the exponential solution: speed within (2/5) kap dt |w0 - w_inf| and position within
    dt |w0 - w_inf| of the closed form at every instant, for every step count;  (3) REFINEMENT: every history of the solver model
    (coq/Solver.v, tied to gearpy bit for bit) that is never held, at a constant duty cycle OF EITHER SIGN outside the dead zone of a motor with
    current data, constant step and constant load, has the SI speed and position of its output element equal to that recurrence, with
    A and kap explicit in ratios, efficiencies, inertias, motor constants and load — for chains of any length and quantities in any units.
    (3') the same for a motor WITHOUT current data (torque Tmax (1 - w/w0) whatever the duty cycle).
    Not covered, hence _partial (correspondence + the dt-halving search on the implementation): the two-sided first-order statement "the error roughly halves" (only the O(dt) upper bound is proved).
    Rounding of the binary64 run is not part of the theorems. *)
From Coq Require Import ZArith QArith Reals Lra String List Bool PrimFloat.
From Coquelicot Require Import Coquelicot.
From GP Require Import ArithDef FloatUtil UnitsCore PyUnits RealArith Spec UnitsR QOps QOpsR Motor MotorR Solver SolverProofs C04Core SolverSI.
Import ListNotations.
Open Scope R_scope.

Theorem C04_euler_factor : forall x k, 0 < x <= 1/5 -> 0 <= exp (- (INR k * x)) - (1 - x) ^ k <= 2/5 * x.
Proof. exact euler_speed_error. Qed.
Theorem C04_speed_error : forall A kap dt w0 th0, 0 < kap -> 0 < dt -> kap * dt <= 1/5 -> forall k,
  Rabs (snd (euler A kap dt w0 th0 k) - w_exact A kap w0 (INR k * dt)) <= 2/5 * (kap * dt) * Rabs (w0 - A / kap).
Proof. exact speed_error. Qed.
Theorem C04_position_error : forall A kap dt w0 th0, 0 < kap -> 0 < dt -> kap * dt <= 1/5 -> forall k,
  Rabs (fst (euler A kap dt w0 th0 k) - th_exact A kap w0 th0 (INR k * dt)) <= dt * Rabs (w0 - A / kap).
Proof. exact position_error. Qed.
(** the acceleration of any recorded, not-held instant of the model, in SI *)
Theorem C04_model_acceleration : forall (c : @chain RA) load i0 imax, m_i0 (c_motor c) = Some i0 -> m_imax (c_motor c) = Some imax ->
  forall W0 TM I0 IM L, si (m_w0 (c_motor c)) = Ok W0 -> si (m_Tmax (c_motor c)) = Ok TM -> si i0 = Ok I0 -> si imax = Ok IM ->
  qk (m_Tmax (c_motor c)) = KTorque -> qk i0 = KCurrent -> qk imax = KCurrent ->
  (forall t p w lt, load t p w = Ok lt -> qk lt = KTorque /\ si lt = Ok L) ->
  forall ctl J t f v locked prov (s : @snap RA) JJ wl w,
  instant_facts c load ctl J t f v locked prov s -> s_locked s = false ->
  si J = Ok JJ -> qk J = KInertiaMoment -> lastq (s_spd s) = Ok wl -> si wl = Ok w -> 0 <= I0 / IM -> I0 / IM < Rabs (s_pwm s) ->
  let D := s_pwm s in
  let TD := (if Rlt_dec 0 D then TM * ((D * IM - I0) / (IM - I0)) else TM * ((D * IM + I0) / (IM - I0))) in
  exists a, lastq (s_acc s) = Ok a /\ si a = Ok ((TD * (1 - Rr c * w / (D * W0)) * Gg c - L) / JJ).
Proof. exact instant_acceleration_SI. Qed.
(** the coefficients of the linear equation of motion  w' = A - kap w  of the output element, spelled out: TD is the maximum torque at duty
    cycle D (either sign), G the product of ratio x efficiency along the chain, R the product of the ratios *)
Theorem C04_coefficients : forall (c : @chain RA) W0 TM I0 IM L JJ D,
  let TD := (if Rlt_dec 0 D then TM * ((D * IM - I0) / (IM - I0)) else TM * ((D * IM + I0) / (IM - I0))) in
  A_lin c TM I0 IM L JJ D = (TD * Gg c - L) / JJ /\ kap_lin c W0 TM I0 IM JJ D = TD * Gg c * Rr c / (D * W0 * JJ).
Proof. intros. split; reflexivity. Qed.
(** refinement + bound: the model's own trajectory stays within the bound of the closed form at every recorded instant *)
Theorem C04_model_converges : forall (c : @chain RA) load i0 imax, m_i0 (c_motor c) = Some i0 -> m_imax (c_motor c) = Some imax ->
  forall W0 TM I0 IM L, si (m_w0 (c_motor c)) = Ok W0 -> si (m_Tmax (c_motor c)) = Ok TM -> si i0 = Ok I0 -> si imax = Ok IM ->
  qk (m_Tmax (c_motor c)) = KTorque -> qk i0 = KCurrent -> qk imax = KCurrent ->
  (forall t p w lt, load t p w = Ok lt -> qk lt = KTorque /\ si lt = Ok L) ->
  forall JJ DT D J, equivalent_inertia c = Ok J -> si J = Ok JJ -> qk J = KInertiaMoment -> I0 / IM < Rabs D ->
  0 <= I0 /\ 0 < IM /\ 0 < W0 /\ 0 < JJ ->
  let A := A_lin c TM I0 IM L JJ D in let kap := kap_lin c W0 TM I0 IM JJ D in
  0 < kap -> kap * DT <= 1/5 -> 0 < DT ->
  forall h, hist_ok c load h -> uniform DT D h -> h <> [] ->
  forall t0 s0 pre, h = (pre ++ [(t0, s0)])%list ->
  forall w0 p0 W00 P00, lastq (s_spd s0) = Ok w0 -> lastq (s_pos s0) = Ok p0 -> si w0 = Ok W00 -> si p0 = Ok P00 ->
  forall t s rest, h = (t, s) :: rest ->
  let k := length rest in
  exists wk pk Wk Pk, lastq (s_spd s) = Ok wk /\ lastq (s_pos s) = Ok pk /\ si wk = Ok Wk /\ si pk = Ok Pk /\
    Rabs (Wk - w_exact A kap W00 (INR k * DT)) <= 2/5 * (kap * DT) * Rabs (W00 - A / kap) /\
    Rabs (Pk - th_exact A kap W00 P00 (INR k * DT)) <= DT * Rabs (W00 - A / kap).
Proof. intros. eapply model_converges; eauto. Qed.

(** a motor without current data: A = (Tmax G - L)/J, kap = Tmax G R/(w0 J) *)
Theorem C04_model_converges_nocurrent : forall (c : @chain RA) load, (m_i0 (c_motor c) = None \/ m_imax (c_motor c) = None) ->
  forall W0 TM L, si (m_w0 (c_motor c)) = Ok W0 -> si (m_Tmax (c_motor c)) = Ok TM -> qk (m_Tmax (c_motor c)) = KTorque ->
  (forall t p w lt, load t p w = Ok lt -> qk lt = KTorque /\ si lt = Ok L) ->
  forall JJ DT D J, equivalent_inertia c = Ok J -> si J = Ok JJ -> qk J = KInertiaMoment -> 0 < W0 /\ 0 < JJ ->
  let A := (TM * Gg c - L) / JJ in let kap := TM * Gg c * Rr c / (1 * W0 * JJ) in
  0 < kap -> kap * DT <= 1/5 -> 0 < DT ->
  forall h, hist_ok c load h -> uniform DT D h -> h <> [] ->
  forall t0 s0 pre, h = (pre ++ [(t0, s0)])%list ->
  forall w0 p0 W00 P00, lastq (s_spd s0) = Ok w0 -> lastq (s_pos s0) = Ok p0 -> si w0 = Ok W00 -> si p0 = Ok P00 ->
  forall t s rest, h = (t, s) :: rest ->
  let k := length rest in
  exists wk pk Wk Pk, lastq (s_spd s) = Ok wk /\ lastq (s_pos s) = Ok pk /\ si wk = Ok Wk /\ si pk = Ok Pk /\
    Rabs (Wk - w_exact A kap W00 (INR k * DT)) <= 2/5 * (kap * DT) * Rabs (W00 - A / kap) /\
    Rabs (Pk - th_exact A kap W00 P00 (INR k * DT)) <= DT * Rabs (W00 - A / kap).
Proof. intros. eapply (model_converges_nocurrent c load); eauto. Qed.

Print Assumptions C04_model_converges.
Print Assumptions C04_speed_error.
