(** * C10 — Declaring a mating or joint sets a consistent, validated relation.  Statements only.
    [gear_mating], [worm_mating] (as repaired by the fix commit for finding D9), [fixed_joint] are the hand-written model of
    gearpy.utils.relations, compared with gearpy on declaration histories (failing calls included) through the full public link
    state of every element after every call.  In the model a call either returns the new state or raises and returns nothing:
    "a rejected call leaves both elements unmodified" is what the correspondence checks of the code. *)
From Coq Require Import ZArith QArith Reals Lra String List Bool PrimFloat.
From GP Require Import ArithDef FloatUtil UnitsCore PyUnits RealArith Spec UnitsR QOps QOpsR Relations RelProofs RelR PowertrainObj.
Import ListNotations.

(** an accepted gear mating: mutual links, master / slave roles, ratio = slave teeth / master teeth, the given efficiency,
    accepted only with efficiency within [0,1] and a positive ratio; nothing else of the two link records changes *)
Theorem C10_gear_mating : forall (A : Arith) (s s' : @rstate A) i j eff, gear_mating s i j eff = Ok s' ->
  exists dm lm ds ls, nth_error s i = Some (dm, lm) /\ nth_error s j = Some (ds, ls) /\ i <> j /\
    is_gearbase (d_kind dm) = true /\ is_gearbase (d_kind ds) = true /\
    ltb one eff = false /\ ltb eff zero = false /\
    let ratio := div (of_Z (d_n ds)) (of_Z (d_n dm)) in
    leb ratio zero = false /\
    link_of s' i = Some {| l_drives := Some j; l_driven_by := l_driven_by lm; l_role := Some RMaster; l_ratio := l_ratio lm; l_eff := l_eff lm; l_selflock := l_selflock lm |} /\
    link_of s' j = Some {| l_drives := l_drives ls; l_driven_by := Some i; l_role := Some RSlave; l_ratio := Some ratio; l_eff := eff; l_selflock := l_selflock ls |}.
Proof. exact (@gear_mating_sets). Qed.
(** a fixed joint: mutual links, ratio exactly 1, a motor cannot be the slave, an element cannot be joined with itself *)
Theorem C10_fixed_joint : forall (A : Arith) (s s' : @rstate A) i j, fixed_joint s i j = Ok s' ->
  exists dm lm ds ls, nth_error s i = Some (dm, lm) /\ nth_error s j = Some (ds, ls) /\ i <> j /\ ekind_eqb (d_kind ds) EMotor = false /\
    link_of s' i = Some {| l_drives := Some j; l_driven_by := l_driven_by lm; l_role := l_role lm; l_ratio := l_ratio lm; l_eff := l_eff lm; l_selflock := l_selflock lm |} /\
    link_of s' j = Some {| l_drives := l_drives ls; l_driven_by := Some i; l_role := l_role ls; l_ratio := Some one; l_eff := l_eff ls; l_selflock := l_selflock ls |}.
Proof. exact (@fixed_joint_sets). Qed.
(** a worm mating: one worm and one wheel with equal pressure angles, friction within [0,1]; ratio = slave count / master count
    (wheel teeth / worm starts, or its inverse when the wheel drives); efficiency = the friction formula of the driving side,
    accepted only within [0,1]; the worm is flagged self-locking exactly when f > cos(alpha) * tan(beta) *)
Theorem C10_worm_mating : forall (A : Arith) (s s' : @rstate A) i j f, worm_mating s i j f = Ok s' ->
  exists dm lm ds ls pam hm c t x, nth_error s i = Some (dm, lm) /\ nth_error s j = Some (ds, ls) /\
    is_wormish (d_kind dm) = true /\ is_wormish (d_kind ds) = true /\ ekind_eqb (d_kind dm) (d_kind ds) = false /\
    ltb one f = false /\ ltb f zero = false /\
    d_pa dm = Some pam /\ d_helix dm = Some hm /\ qcos pam = Ok c /\ qtan hm = Ok t /\ pydiv f t = Ok x /\
    let worm_drives := ekind_eqb (d_kind dm) EWorm in
    let ratio := div (of_Z (d_n ds)) (of_Z (d_n dm)) in
    exists eff, (if worm_drives then pydiv (sub c (mul f t)) (add c x) else pydiv (sub c x) (add c (mul f t))) = Ok eff /\
    ltb one eff = false /\ ltb eff zero = false /\ leb ratio zero = false /\
    (exists lj, link_of s' j = Some lj /\ l_driven_by lj = Some i /\ l_ratio lj = Some ratio /\ l_eff lj = eff) /\
    (exists li, link_of s' i = Some li /\ l_drives li = Some j) /\
    exists dw lw paw hw cw tw, nth_error s (if worm_drives then i else j) = Some (dw, lw) /\ d_pa dw = Some paw /\ d_helix dw = Some hw /\
      qcos paw = Ok cw /\ qtan hw = Ok tw /\
      exists lw', link_of s' (if worm_drives then i else j) = Some lw' /\ l_selflock lw' = Some (ltb (mul cw tw) f).
Proof. exact (@worm_mating_sets). Qed.
(** frame: an accepted call leaves every other element, and the constructor data of all elements, as they were *)
Theorem C10_frame : forall (A : Arith) (s s' : @rstate A) c, declare s c = Ok s' ->
  length s' = length s /\
  (forall k, option_map fst (nth_error s' k) = option_map fst (nth_error s k)) /\
  (forall k, k <> (match c with CGear i _ _ | CWorm i _ _ | CJoint i _ => i end) ->
             k <> (match c with CGear _ j _ | CWorm _ j _ | CJoint _ j => j end) -> nth_error s' k = nth_error s k).
Proof. exact (@declare_frame). Qed.
Theorem C10_any_sequence : forall (A : Arith) cs (s : @rstate A),
  length (declare_all cs s) = length s /\ forall k, option_map fst (nth_error (declare_all cs s) k) = option_map fst (nth_error s k).
Proof. exact (@declare_all_decls). Qed.
(** over the reals: the checks above mean efficiency in [0,1] and ratio > 0; cos / tan are those of the angle in radians whatever
    unit it was given in, so the flag is f > cos(alpha) * tan(beta) *)
Theorem C10_accepted_range : forall eff ratio : R, @ltb RA one eff = false -> @ltb RA eff zero = false -> @leb RA ratio zero = false ->
  (0 <= eff <= 1 /\ 0 < ratio)%R.
Proof. exact accepted_range. Qed.
Theorem C10_cos_is_cos : forall (q : qty RA) c s, base_kind (qk q) = KAngularPosition -> @qcos RA q = Ok c -> si q = Ok s -> c = cos s.
Proof. exact qcos_si. Qed.
Theorem C10_tan_is_tan : forall (q : qty RA) t s, base_kind (qk q) = KAngularPosition -> @qtan RA q = Ok t -> si q = Ok s -> t = tan s.
Proof. exact qtan_si. Qed.
Theorem C10_worm_efficiency_range : forall c t f : R, (0 < c -> 0 < t -> 0 <= f -> (0 <= (c - f * t) / (c + f / t) <= 1 <-> f * t <= c))%R.
Proof. exact worm_efficiency_in_range. Qed.

(** non-vacuity (binary64, the example world of PowertrainObj.v): motor = worm -> wheel with friction 0.4 > cos 20deg * tan 10deg: both
    declarations are accepted, the worm drives the wheel, is flagged self-locking, the wheel's ratio is 40 / 1 *)
Example C10_nonvacuous :
  match nth_error ex_world0 1, nth_error ex_world0 2 with
  | Some (_, lw), Some (_, lh) =>
      match l_drives lw, l_driven_by lh, l_selflock lw, l_ratio lh with
      | Some 2%nat, Some 1%nat, Some true, Some r => PrimFloat.eqb r 40
      | _, _, _, _ => false
      end
  | _, _ => false
  end = true.
Proof. vm_compute. reflexivity. Qed.

Print Assumptions C10_worm_mating.
Print Assumptions C10_frame.
Print Assumptions C10_cos_is_cos.
