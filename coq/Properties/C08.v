(** * C08 — DC motor torque and current follow the documented characteristic.  Statements only.
    [motor_torque] / [motor_current] are the hand-written model of DCMotor.compute_torque / compute_electric_current (as
    repaired by the fix commit for finding D8), compared bit for bit with gearpy on dense duty cycles including the dead-zone
    boundary and its floating-point neighbours.  The theorems are over the reals, for motor constants in ANY units. *)
From Coq Require Import ZArith QArith Reals Lra String List Bool PrimFloat.
From GP Require Import ArithDef FloatUtil UnitsCore PyUnits RealArith Spec UnitsR UnitsDim QOps QOpsR Motor MotorR Examples.
From GP.gen Require Import UnitsGen.
Open Scope R_scope.

(** torque, with current data: Tmax(D) * (1 - w/(D*w0)), Tmax(D) = Tmax*(D*imax - i0)/(imax - i0) for D > i0/imax, mirrored
    for D < -i0/imax, exactly 0 whenever |D| <= i0/imax; the result is a Torque in Tmax's unit *)
Theorem C08_torque : forall (m : @motor RA) i0 imax W0 TM I0 IM,
  m_i0 m = Some i0 -> m_imax m = Some imax ->
  si (m_w0 m) = Ok W0 -> si (m_Tmax m) = Ok TM -> si i0 = Ok I0 -> si imax = Ok IM ->
  qk (m_Tmax m) = KTorque -> qk i0 = KCurrent -> qk imax = KCurrent ->
  forall spd w D T, si spd = Ok w -> motor_torque m spd D = Ok T ->
  qk T = KTorque /\ qu T = qu (m_Tmax m) /\
  si T = Ok (if Rle_dec (Rabs D) (I0 / IM) then 0
             else if Rlt_dec (I0 / IM) D then TM * ((D * IM - I0) / (IM - I0)) * (1 - w / (D * W0))
             else TM * ((D * IM + I0) / (IM - I0)) * (1 - w / (D * W0))).
Proof. intros. eapply motor_torque_doc; eauto; lra. Qed.
(** torque, without current data: Tmax * (1 - w/w0) *)
Theorem C08_torque_without_current_data : forall (m : @motor RA) spd w W0 TM D T,
  (m_i0 m = None \/ m_imax m = None) -> si (m_w0 m) = Ok W0 -> si (m_Tmax m) = Ok TM -> qk (m_Tmax m) = KTorque -> si spd = Ok w ->
  motor_torque m spd D = Ok T -> si T = Ok (TM * (1 - w / W0)).
Proof. intros. eapply motor_torque_nocurrent; eauto; lra. Qed.
(** current: D*imax inside the dead zone, (imax - i0)*T/Tmax +- i0 outside ... *)
Theorem C08_current : forall (m : @motor RA) i0 imax TM I0 IM,
  m_i0 m = Some i0 -> m_imax m = Some imax ->
  si (m_Tmax m) = Ok TM -> si i0 = Ok I0 -> si imax = Ok IM -> qk i0 = KCurrent -> qk imax = KCurrent -> 0 < IM ->
  forall dtq Tq D c, si dtq = Ok Tq -> motor_current m dtq D = Ok c ->
  exists q, c = Some q /\ qk q = KCurrent /\ qu q = qu imax /\
    si q = Ok (if Rle_dec (Rabs D) (I0 / IM) then D * IM
               else if Rlt_dec (I0 / IM) D then (IM - I0) * (Tq / TM) + I0 else (IM - I0) * (Tq / TM) - I0).
Proof. intros. eapply motor_current_doc; eauto; lra. Qed.
(** ... which is the documented (D*imax - i0) * T / Tmax(D) + i0 (mirrored for negative D) *)
Theorem C08_current_is_documented : forall TM I0 IM, 0 < TM -> 0 <= I0 < IM -> forall Tq D, I0 / IM < D ->
  I_code TM I0 IM Tq D = (D * IM - I0) * (Tq / (TM * ((D * IM - I0) / (IM - I0)))) + I0.
Proof. intros. eapply current_is_documented; eauto; lra. Qed.
Theorem C08_current_is_documented_neg : forall TM I0 IM, 0 < TM -> 0 <= I0 < IM -> forall Tq D, D < - (I0 / IM) ->
  I_code TM I0 IM Tq D = (D * IM + I0) * (Tq / (TM * ((D * IM + I0) / (IM - I0)))) - I0.
Proof. intros. eapply current_is_documented_neg; eauto; lra. Qed.
(** hence: at D = 1 standstill gives Tmax and imax, the no-load speed gives zero torque and i0 *)
Theorem C08_standstill : forall W0 TM I0 IM, 0 < TM -> 0 < W0 -> 0 <= I0 < IM ->
  T_doc W0 TM I0 IM 0 1 = TM /\ I_code TM I0 IM (T_doc W0 TM I0 IM 0 1) 1 = IM.
Proof. intros. eapply standstill; eauto; lra. Qed.
Theorem C08_no_load : forall W0 TM I0 IM, 0 < TM -> 0 < W0 -> 0 <= I0 < IM ->
  T_doc W0 TM I0 IM W0 1 = 0 /\ I_code TM I0 IM (T_doc W0 TM I0 IM W0 1) 1 = I0.
Proof. intros. eapply no_load; eauto; lra. Qed.
(** reversing both D and w reverses torque and current exactly *)
Theorem C08_odd_torque : forall W0 TM I0 IM, 0 < TM -> 0 < W0 -> 0 <= I0 < IM -> forall w D, T_doc W0 TM I0 IM (- w) (- D) = - T_doc W0 TM I0 IM w D.
Proof. intros. eapply odd_torque; eauto; lra. Qed.
Theorem C08_odd_current : forall TM I0 IM, 0 < TM -> 0 <= I0 < IM -> forall Tq D, I_code TM I0 IM (- Tq) (- D) = - I_code TM I0 IM Tq D.
Proof. intros. eapply odd_current; eauto; lra. Qed.
(** both laws are continuous across the dead-zone boundary when i0 > 0 (for i0 = 0 the documented torque law itself jumps at
    D = 0 when w <> 0: a remark on the property's "hence", not on the code) *)
Theorem C08_boundary_torque : forall W0 TM I0 IM, 0 < TM -> 0 < W0 -> 0 <= I0 < IM -> forall w D, 0 < I0 -> I0 / IM < D ->
  Rabs (T_doc W0 TM I0 IM w D) <= TM * IM / (IM - I0) * (1 + Rabs w / (I0 / IM * W0)) * (D - I0 / IM).
Proof. intros. eapply boundary_torque; eauto; lra. Qed.
Theorem C08_boundary_current : forall TM I0 IM, 0 < TM -> 0 <= I0 < IM -> 0 < I0 ->
  I_code TM I0 IM 0 (I0 / IM) = I0 /\ forall D, I0 / IM < D -> I_code TM I0 IM 0 D = I0.
Proof. intros. eapply boundary_current; eauto; lra. Qed.

(** non-vacuity (binary64 instance of the same model): the example motor at D = 1, standstill: 0.5 Nm *)
Example C08_nonvacuous :
  match @motor_torque FX0 ex_motor (Qx KAngularSpeed 0%float "rad/s") 1%float with
  | Ok T => PrimFloat.eqb (qv T) 0x1p-1%float | Err _ => false end = true.
Proof. vm_compute. reflexivity. Qed.

Print Assumptions C08_torque.
Print Assumptions C08_current.
Print Assumptions C08_boundary_torque.
