(** * C19 — Sign-constrained quantities can never be invalid; component constructors reject non-physical parameters.
    Statements only.  First clause: proofs in UnitsValid, about the REGENERATED description [GEN].  Second clause: the constructor
    models of coq/Components.v (tied to gearpy's DCMotor, SpurGear, HelicalGear, WormGear, WormWheel, Flywheel constructors and the
    duty-cycle setter by comparing the outcome of thousands of calls with valid, boundary, wrongly typed and non-physical arguments),
    proofs in ComponentsR. *)
From Coq Require Import ZArith QArith Reals String List Bool PrimFloat.
From GP Require Import ArithDef FloatUtil UnitsCore PyUnits RealArith Spec UnitsR UnitsValid QuantityCorr QOps Motor Relations Gears Components ComponentsR Examples.
From GP.gen Require Import UnitsGen.
Open Scope R_scope. Open Scope string_scope.

(** what "valid" means, in the words of the property *)
Theorem C19_valid_means : forall q : qty RA, valid q ->
  match qk q with
  | KLength | KSurface | KInertiaMoment | KTimeInterval => 0 < qv q
  | KAngle => 0 <= qv q
  | _ => True end.
Proof. exact valid_spec. Qed.

(** the constructor of the regenerated description enforces exactly the constraints of [Spec] (generic in the arithmetic:
    holds of the binary64 instance too, where "valid" is the boolean the constructor itself computes) *)
Theorem C19_constructor : forall (A : Arith) k v u (q : qty A), ctor GEN k v u = Ok q -> valid q.
Proof. exact (@ctor_valid). Qed.
(** every quantity returned by any arithmetic method, abs, neg or a copying conversion was built by the constructor
    (generic in the arithmetic and in the description: a structural fact of the interpreter's result forms) *)
Theorem C19_results_are_constructed : forall (A : Arith) (D : unitsgen) m (self : qty A) other q,
  call D m self other = Ok (PQ q) -> built D q.
Proof. exact (@call_built). Qed.
(** the in-place conversion runs no constructor; it preserves validity because every unit factor is positive *)
Theorem C19_to_inplace : forall (q q' : qty RA) u, valid q -> to_inplace GEN q u = Ok q' -> valid q'.
Proof. exact to_inplace_valid. Qed.
(** one step of a program: valid heap in, valid heap out (a step that raises leaves the heap as it was, by definition of [exec1]) *)
Theorem C19_step : forall h o h', Forall valid h -> UnitsValid.step h o = Ok h' -> Forall valid h'.
Proof. exact step_valid. Qed.
(** every straight-line program of construct, + - * / (with quantities or numbers), abs, neg, to, to-in-place, of any length:
    every live object is valid at the end (hence, by taking prefixes, after every step) *)
Theorem C19_programs : forall ops : list UnitsValid.qop, Forall valid (UnitsValid.exec ops).
Proof. exact exec_valid. Qed.

(** non-vacuity (binary64 instance): rejected constructions and rejected results really are rejected, accepted ones accepted *)
(** ** second clause: component constructors *)
(** an accepted DC motor, for every arithmetic: positive no-load speed and maximum torque values, non-negative no-load current, positive
    maximum current, and the quantity comparison  i0 >= imax  is false *)
Theorem C19_motor_constructor : forall (A : Arith) name J w0 tmax i0 imax n j (m : @motor A),
  motor_ctor name J w0 tmax i0 imax = Ok (n, j, m) ->
  n <> ""%string /\ is_subkind GEN (qk j) KInertiaMoment = true /\
  is_subkind GEN (qk (m_w0 m)) KAngularSpeed = true /\ is_subkind GEN (qk (m_Tmax m)) KTorque = true /\
  leb (qv (m_w0 m)) zero = false /\ leb (qv (m_Tmax m)) zero = false /\
  (forall a, m_i0 m = Some a -> is_subkind GEN (qk a) KCurrent = true /\ ltb (qv a) zero = false) /\
  (forall b, m_imax m = Some b -> is_subkind GEN (qk b) KCurrent = true /\ leb (qv b) zero = false) /\
  (forall a b, m_i0 m = Some a -> m_imax m = Some b -> q_ge a b = Ok false).
Proof. exact (@motor_ctor_checks). Qed.
(** ... hence, over the reals and in SI, whatever the units: 0 < w0, 0 < Tmax, 0 <= i0 < imax — exactly the hypotheses under which
    the motor characteristic (C08), the limit-current rule (C15) and the convergence theorem (C04) are stated *)
Theorem C19_motor_parameters_physical : forall name J w0 tmax i0 imax n j (m : @motor RA) a b W0 TM I0 IM,
  motor_ctor name J w0 tmax i0 imax = Ok (n, j, m) -> m_i0 m = Some a -> m_imax m = Some b ->
  si (m_w0 m) = Ok W0 -> si (m_Tmax m) = Ok TM -> si a = Ok I0 -> si b = Ok IM ->
  qk (m_w0 m) = KAngularSpeed /\ qk (m_Tmax m) = KTorque /\ qk a = KCurrent /\ qk b = KCurrent /\ qk j = KInertiaMoment /\
  0 < W0 /\ 0 < TM /\ 0 <= I0 < IM.
Proof. exact motor_parameters_physical. Qed.
(** spur gear (GearBase): not fewer teeth than the first row of the regenerated Lewis table; a given elastic modulus has a positive value *)
Theorem C19_gear_constructor : forall (A : Arith) kind name n J module face emod nm j (g : @gear A),
  gearbase_ctor kind name n J module face emod = Ok (nm, j, g) ->
  g_kind g = kind /\ @ltb A (of_Z (g_n g)) min_teeth = false /\
  (forall q, g_module g = Some q -> is_subkind GEN (qk q) KLength = true) /\
  (forall q, g_face g = Some q -> is_subkind GEN (qk q) KLength = true) /\
  (forall q, g_emod g = Some q -> is_subkind GEN (qk q) KStress = true /\ leb (qv q) zero = false).
Proof. exact (@gearbase_ctor_checks). Qed.
(** helical gear: additionally the comparison  helix >= 90 deg  is false; over the reals the helix angle is below pi/2 and the modulus positive in SI *)
Theorem C19_helical_constructor : forall (A : Arith) kind name n J helix module face emod nm j (g : @gear A),
  helical_ctor kind name n J helix module face emod = Ok (nm, j, g) ->
  @ltb A (of_Z (g_n g)) min_teeth = false /\
  (forall q, g_emod g = Some q -> leb (qv q) zero = false) /\
  exists h, g_helix g = Some h /\ is_subkind GEN (qk h) KAngle = true /\ q_ge h A90 = Ok false.
Proof. exact (@helical_ctor_checks). Qed.
Theorem C19_helical_parameters_physical : forall kind name n J helix module face emod nm j (g : @gear RA) h H,
  helical_ctor kind name n J helix module face emod = Ok (nm, j, g) -> g_helix g = Some h -> si h = Ok H ->
  H < PI / 2 /\ (forall e E, g_emod g = Some e -> si e = Ok E -> 0 < E).
Proof. exact helical_parameters_physical. Qed.
(** worm gear and worm wheel: at least one start / the minimum teeth number; the pressure angle compares equal to a row of the regenerated
    worm table and the comparison  helix > that row's limit  is false *)
Theorem C19_worm_constructor : forall (A : Arith) name n J helix pa dref nm j (g : @gear A),
  worm_ctor name n J helix pa dref = Ok (nm, j, g) ->
  (1 <= g_n g)%Z /\ exists h p, g_helix g = Some h /\ g_pa g = Some p /\ check_pa_helix p h = Ok tt.
Proof. exact (@worm_ctor_checks). Qed.
Theorem C19_wheel_constructor : forall (A : Arith) name n J helix pa module face nm j (g : @gear A),
  wheel_ctor name n J helix pa module face = Ok (nm, j, g) ->
  @ltb A (of_Z (g_n g)) min_teeth = false /\
  exists h p, g_helix g = Some h /\ g_pa g = Some p /\ q_ge h A90 = Ok false /\ check_pa_helix p h = Ok tt.
Proof. exact (@wheel_ctor_checks). Qed.
Theorem C19_pa_helix_means : forall (A : Arith) (pa h : qty A), check_pa_helix pa h = Ok tt ->
  exists mx y m, pa_row worm_table pa = Ok (Some (mx, y)) /\ q_new KAngle mx "deg" = Ok m /\ q_gt h m = Ok false.
Proof. exact (@check_pa_helix_ok). Qed.
(** the duty-cycle setter accepts exactly numbers within [-1, 1] *)
Theorem C19_pwm_setter : forall (A : Arith) x v, @pwm_setter A x = Ok v -> leb (neg one) v = true /\ leb v one = true.
Proof. exact (@pwm_setter_range). Qed.

(** non-vacuity: a motor that is accepted, and three that are rejected with ValueError (zero no-load speed, i0 = imax in another unit,
    no-load current above the maximum) — binary64 instance *)
Definition mk_motor (w0 : float) (i0 : qty FX0) : bool * bool :=
  match @motor_ctor FX0 (CStr "m") (CQ (Qx KInertiaMoment 1 "kgm^2")) (CQ (Qx KAngularSpeed w0 "rpm")) (CQ (Qx KTorque 0x1p-1 "Nm"))
                    (CQ i0) (CQ (Qx KCurrent 2 "A")) with
  | Ok _ => (true, false) | Err ValueError => (false, true) | Err _ => (false, false) end.
Example C19_ctor_nonvacuous :
  fst (mk_motor 3000 (Qx KCurrent 100 "mA")) && snd (mk_motor 0 (Qx KCurrent 100 "mA")) &&
  snd (mk_motor 3000 (Qx KCurrent 2000 "mA")) && snd (mk_motor 3000 (Qx KCurrent 3 "A")) = true.
Proof. vm_compute. reflexivity. Qed.

Example C19_nonvacuous :
  res_pyval_is (q <- @ctor F0 GEN KLength (-1)%float "m" ;; Ok (@PQ F0 q)) (XErr ValueError)
  && res_pyval_is (q <- @ctor F0 GEN KAngle 0%float "deg" ;; Ok (@PQ F0 q)) (XQ KAngle 0%float "deg")
  && res_pyval_is (@py_sub F0 GEN (mkq KLength 1%float "m") (@PQ F0 (mkq KLength 2000%float "mm"))) (XErr ValueError)
  && res_pyval_is (@py_neg F0 GEN (mkq KSurface 1%float "m^2")) (XErr ValueError)
  && res_pyval_is (@py_mul F0 GEN (mkq KInertiaMoment 1%float "kgm^2") (@PN F0 0%float)) (XErr ValueError)
  && res_pyval_is (q <- @to_inplace F0 GEN (mkq KLength 2%float "m") "mm" ;; Ok (@PQ F0 q)) (XQ KLength 2000%float "mm") = true.
Proof. vm_compute. reflexivity. Qed.

Print Assumptions C19_programs.
Print Assumptions C19_constructor.
Print Assumptions C19_results_are_constructed.
Print Assumptions C19_motor_constructor.
Print Assumptions C19_motor_parameters_physical.
