(** * C19 — Sign-constrained quantities can never be invalid (quantity part).
    Statements only; proofs in UnitsValid, about the REGENERATED description [GEN]. *)
From Coq Require Import ZArith QArith Reals String List Bool PrimFloat.
From GP Require Import ArithDef FloatUtil UnitsCore PyUnits RealArith Spec UnitsR UnitsValid QuantityCorr.
From GP.gen Require Import UnitsGen.
Open Scope R_scope. Open Scope string_scope.

(** what "valid" means, in the words of the property *)
Theorem C19_valid_means : forall q : qty RA, valid q ->
  match qk q with
  | KLength | KSurface | KInertiaMoment | KTimeInterval => 0 < qv q
  | KAngle => 0 <= qv q
  | _ => True end.
Proof. exact valid_spec. Qed.

(** the constructor of the regenerated description enforces exactly the constraints of [Spec] (generic in the arithmetic:
    holds of the binary64 instance too, where "valid" is the boolean the constructor itself computes) *)
Theorem C19_constructor : forall (A : Arith) k v u (q : qty A), ctor GEN k v u = Ok q -> valid q.
Proof. exact (@ctor_valid). Qed.
(** every quantity returned by any arithmetic method, abs, neg or a copying conversion was built by the constructor
    (generic in the arithmetic and in the description: a structural fact of the interpreter's result forms) *)
Theorem C19_results_are_constructed : forall (A : Arith) (D : unitsgen) m (self : qty A) other q,
  call D m self other = Ok (PQ q) -> built D q.
Proof. exact (@call_built). Qed.
(** the in-place conversion runs no constructor; it preserves validity because every unit factor is positive *)
Theorem C19_to_inplace : forall (q q' : qty RA) u, valid q -> to_inplace GEN q u = Ok q' -> valid q'.
Proof. exact to_inplace_valid. Qed.
(** one step of a program: valid heap in, valid heap out (a step that raises leaves the heap as it was, by definition of [exec1]) *)
Theorem C19_step : forall h o h', Forall valid h -> UnitsValid.step h o = Ok h' -> Forall valid h'.
Proof. exact step_valid. Qed.
(** every straight-line program of construct, + - * / (with quantities or numbers), abs, neg, to, to-in-place, of any length:
    every live object is valid at the end (hence, by taking prefixes, after every step) *)
Theorem C19_programs : forall ops : list UnitsValid.qop, Forall valid (UnitsValid.exec ops).
Proof. exact exec_valid. Qed.

(** non-vacuity (binary64 instance): rejected constructions and rejected results really are rejected, accepted ones accepted *)
Example C19_nonvacuous :
  res_pyval_is (q <- @ctor F0 GEN KLength (-1)%float "m" ;; Ok (@PQ F0 q)) (XErr ValueError)
  && res_pyval_is (q <- @ctor F0 GEN KAngle 0%float "deg" ;; Ok (@PQ F0 q)) (XQ KAngle 0%float "deg")
  && res_pyval_is (@py_sub F0 GEN (mkq KLength 1%float "m") (@PQ F0 (mkq KLength 2000%float "mm"))) (XErr ValueError)
  && res_pyval_is (@py_neg F0 GEN (mkq KSurface 1%float "m^2")) (XErr ValueError)
  && res_pyval_is (@py_mul F0 GEN (mkq KInertiaMoment 1%float "kgm^2") (@PN F0 0%float)) (XErr ValueError)
  && res_pyval_is (q <- @to_inplace F0 GEN (mkq KLength 2%float "m") "mm" ;; Ok (@PQ F0 q)) (XQ KLength 2000%float "mm") = true.
Proof. vm_compute. reflexivity. Qed.

Print Assumptions C19_programs.
Print Assumptions C19_constructor.
Print Assumptions C19_results_are_constructed.
