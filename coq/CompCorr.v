(** * CompCorr: executable comparison of the constructor models (Components.v, binary64 instance) with what gearpy's constructors did. *)
From Coq Require Import ZArith String List Bool PrimFloat.
From GP Require Import ArithDef FloatUtil UnitsCore PyUnits QOps Motor Relations Gears Components.
Import ListNotations.

Section Corr.
Variable O : oracle.
Notation FX := (FA O).
Notation arg := (@carg FX).

Inductive ccall :=
  | KMotor (name J w0 tmax i0 imax : arg)
  | KSpur (name n J module face emod : arg)
  | KHelical (name n J helix module face emod : arg)
  | KWheel (name n J helix pa module face : arg)
  | KWorm (name n J helix pa dref : arg)
  | KFly (name J : arg)
  | KPwm (x : arg).
Inductive cexp := XOk | XErr (e : exn).
Definition drop {T} (r : res T) : res unit := match r with Ok _ => Ok tt | Err e => Err e end.
Definition run_ccall (c : ccall) : res unit :=
  match c with
  | KMotor a b c0 d e f => drop (motor_ctor a b c0 d e f)
  | KSpur a b c0 d e f => drop (gearbase_ctor ESpur a b c0 d e f)
  | KHelical a b c0 d e f g => drop (helical_ctor EHelical a b c0 d e f g)
  | KWheel a b c0 d e f g => drop (wheel_ctor a b c0 d e f g)
  | KWorm a b c0 d e f => drop (worm_ctor a b c0 d e f)
  | KFly a b => drop (rotating_ctor a b)
  | KPwm x => drop (pwm_setter x)
  end.
Definition ccall_code (p : ccall * cexp) : N :=
  match run_ccall (fst p), snd p with
  | Ok _, XOk => 0
  | Err e, XErr e' => if exn_eqb e e' then 0 else 12
  | Ok _, XErr _ => 13
  | Err _, XOk => 14
  end.
Fixpoint cfailing_from (i : N) (l : list (ccall * cexp)) : list (N * (N * N)) :=
  match l with
  | [] => []
  | p :: l' => let c := ccall_code p in if N.eqb c 0 then cfailing_from (N.succ i) l' else (i, (c, 0%N)) :: cfailing_from (N.succ i) l'
  end.
Definition cfailing (l : list (ccall * cexp)) : list (N * (N * N)) := cfailing_from 0 l.
End Corr.
