(** * Report: Powertrain.snapshot (as repaired by the D14 and D16 fix commits) and export_time_variables over a recorded history,
    operation for operation, generic in the arithmetic.  The recorded history is an input: per element, its insertion-ordered
    dictionary of time variables.  No proofs here. *)
From Coq Require Import ZArith QArith String List Bool PrimFloat.
From GP Require Import ArithDef UnitsCore PyUnits QOps Relations Gears.
Import ListNotations.
Open Scope string_scope.

Section Report.
Context {A : Arith}.
Notation qty := (qty A).

Inductive sample := SQ (q : qty) | SN (x : num A).
(** one element as the reporting code sees it *)
Record erec := { er_name : string; er_kind : ekind;
                 er_force : bool; er_bend : bool; er_contact : bool; er_cur : bool;     (* the four "is computable" flags, as they are now *)
                 er_vars : list (string * list sample) }.

Definition var_order : list string :=
  ["angular position"; "angular speed"; "angular acceleration"; "torque"; "driving torque"; "load torque";
   "tangential force"; "bending stress"; "contact stress"; "electric current"; "pwm"].
Record units := { u_pos : string; u_spd : string; u_acc : string; u_tq : string; u_dtq : string; u_ltq : string;
                  u_force : string; u_stress : string; u_cur : string; u_time : string }.
Definition unit_of (us : units) (v : string) : string :=
  if String.eqb v "angular position" then u_pos us else if String.eqb v "angular speed" then u_spd us
  else if String.eqb v "angular acceleration" then u_acc us else if String.eqb v "torque" then u_tq us
  else if String.eqb v "driving torque" then u_dtq us else if String.eqb v "load torque" then u_ltq us
  else if String.eqb v "tangential force" then u_force us else if String.eqb v "bending stress" then u_stress us
  else if String.eqb v "contact stress" then u_stress us else if String.eqb v "electric current" then u_cur us else "".
Definition column_name (us : units) (v : string) : string :=
  if String.eqb (unit_of us v) "" then v else v ++ " (" ++ unit_of us v ++ ")".

Definition mem (v : string) (l : list string) : bool := existsb (String.eqb v) l.
Definition lookup_var (e : erec) (v : string) : res (list sample) :=
  match find (fun p => String.eqb (fst p) v) (er_vars e) with Some p => Ok (snd p) | None => Err KeyError end.
Fixpoint convert (l : list sample) (u : string) : res (list (num A)) :=
  match l with
  | [] => Ok []
  | SQ q :: l' => c <- q_to q u ;; r <- convert l' u ;; Ok (qv c :: r)
  | SN x :: l' => Err AttributeError            (* a bare number has no .to() *)
  end.
Fixpoint numbers (l : list sample) : res (list (num A)) :=
  match l with
  | [] => Ok []
  | SN x :: l' => r <- numbers l' ;; Ok (x :: r)
  | SQ q :: l' => Err TypeError
  end.
Fixpoint zipn (a b : list (num A)) : list (num A * num A) :=
  match a, b with x :: a', y :: b' => (x, y) :: zipn a' b' | _, _ => [] end.
(** scipy interp1d(x, y)(t) with the default bounds_error: ValueError outside [x_first, x_last] *)
Definition interp1d (xs ys : list (num A)) (t : num A) : res (num A) :=
  if negb (Nat.eqb (length xs) (length ys)) then Err ValueError else
  if Nat.ltb (length xs) 2 then Err ValueError else
  match xs, rev xs with
  | xf :: _, xl :: _ => if ltb t xf || ltb xl t then Err ValueError else Ok (interp_segments (zipn xs ys) t)
  | _, _ => Err ValueError
  end.

(** is the (element, variable) cell of a snapshot filled? *)
Definition filled (e : erec) (v : string) : bool :=
  if mem v ["angular position"; "angular speed"; "angular acceleration"; "torque"; "driving torque"; "load torque"] then true
  else if String.eqb v "pwm" then ekind_eqb (er_kind e) EMotor
  else if String.eqb v "electric current" then ekind_eqb (er_kind e) EMotor && er_cur e
  else
    let gearlike := match er_kind e with ESpur | EHelical | EWheel | EWorm => true | _ => false end in
    let gearbase := match er_kind e with ESpur | EHelical | EWheel => true | _ => false end in
    if String.eqb v "tangential force" then gearlike && er_force e
    else if String.eqb v "bending stress" then gearbase && er_force e && er_bend e
    else if String.eqb v "contact stress" then gearbase && er_force e && er_bend e && er_contact e
    else false.

Definition cell (times_sec : list (num A)) (us : units) (e : erec) (v : string) (t : num A) : res (option (num A)) :=
  if negb (filled e v) then Ok None else
  l <- lookup_var e v ;;
  ys <- (if String.eqb v "pwm" then numbers l else convert l (unit_of us v)) ;;
  y <- interp1d times_sec ys t ;; Ok (Some y).
Fixpoint cells (times_sec : list (num A)) (us : units) (e : erec) (vs : list string) (t : num A) : res (list (option (num A))) :=
  match vs with
  | [] => Ok []
  | v :: vs' => c <- cell times_sec us e v t ;; r <- cells times_sec us e vs' t ;; Ok (c :: r)
  end.
Fixpoint times_in (ts : list qty) (u : string) : res (list (num A)) :=
  match ts with [] => Ok [] | t :: ts' => c <- q_to t u ;; r <- times_in ts' u ;; Ok (qv c :: r) end.

(** the requested variables, de-duplicated and sorted as the code sorts them *)
Definition all_keys (els : list erec) : list string := flat_map (fun e => map fst (er_vars e)) els.
Definition sorted_vars (req : list string) : list string := filter (fun v => mem v req) var_order.

Fixpoint qmin (l : list qty) (m : qty) : res qty :=          (* Python's min(): keeps the first of equal elements *)
  match l with [] => Ok m | x :: l' => b <- q_lt x m ;; qmin l' (if b then x else m) end.
Fixpoint qmax (l : list qty) (m : qty) : res qty :=
  match l with [] => Ok m | x :: l' => b <- q_gt x m ;; qmax l' (if b then x else m) end.

(** Powertrain.snapshot: (column names, rows = (element name, cells)) — rows only for elements with a filled cell *)
Definition snapshot (times : list qty) (els : list erec) (req : option (list string)) (us : units) (target : qty)
    : res (list string * list (string * list (option (num A)))) :=
  match times with
  | [] => Err ValueError
  | t0 :: rest =>
      lo <- qmin rest t0 ;; hi <- qmax rest t0 ;;
      b1 <- q_lt target lo ;;
      out <- (if b1 then Ok true else q_gt target hi) ;;
      if out then Err ValueError else
      let valid := all_keys els in
      bad <- Ok (match req with
                 | None => false
                 | Some r => match r with [] => true | _ => existsb (fun v => negb (mem v valid)) r end
                 end) ;;
      if bad then Err ValueError else
      let vs := sorted_vars (match req with None => valid | Some r => r end) in
      ts <- times_in times "sec" ;; tt <- q_to target "sec" ;;
      (* as repaired by the D16 fix commit: the range check above is tolerance based, so the target in seconds is clamped into the
         simulated interval before interpolating (Python's min / max: the first of equal arguments) *)
      let lo := fold_left (fun m x => if ltb x m then x else m) ts (hd zero ts) in
      let hi := fold_left (fun m x => if ltb m x then x else m) ts (hd zero ts) in
      let t1 := if ltb (qv tt) lo then lo else qv tt in
      let t2 := if ltb hi t1 then hi else t1 in
      rows <- (fix go (l : list erec) : res (list (string * list (option (num A)))) :=
                 match l with
                 | [] => Ok []
                 | e :: l' => c <- cells ts us e vs t2 ;; r <- go l' ;;
                              Ok (if existsb (fun o => match o with Some _ => true | None => false end) c then (er_name e, c) :: r else r)
                 end) els ;;
      Ok (map (column_name us) vs, rows)
  end.

(** export_time_variables of one element: column names and columns (one value per recorded instant) *)
Definition export (times : list qty) (e : erec) (us : units) : res (list (string * list (num A))) :=
  match times with
  | [] => Err ValueError
  | _ =>
      tcol <- times_in times (u_time us) ;;
      cols <- (fix go (l : list (string * list sample)) : res (list (string * list (num A))) :=
                 match l with
                 | [] => Ok []
                 | (v, smp) :: l' =>
                     c <- (if String.eqb (unit_of us v) "" then numbers smp else convert smp (unit_of us v)) ;;
                     r <- go l' ;;
                     if negb (Nat.eqb (length c) (length tcol)) then Err ValueError else Ok ((column_name us v, c) :: r)
                 end) (er_vars e) ;;
      Ok (("time (" ++ u_time us ++ ")", tcol) :: cols)
  end.
(** Powertrain.export_time_variables (the method): the function above for every element of the powertrain in order, one file per
    element, named after it, all with the same requested units; an element whose export raises stops the loop (the files already
    written remain) *)
Fixpoint export_all (times : list qty) (els : list erec) (us : units) : list (string * list (string * list (num A))) * option exn :=
  match els with
  | [] => ([], None)
  | e :: els' =>
      match export times e us with
      | Ok cols => let r := export_all times els' us in ((er_name e, cols) :: fst r, snd r)
      | Err x => ([], Some x)
      end
  end.
End Report.
