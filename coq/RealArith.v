(** * RealArith: the instance [RA] of [Arith] over Coq's real numbers, in which the properties are stated. *)
From Coq Require Import ZArith QArith Reals Lra Lia Qreals String List Bool.
From GP Require Import ArithDef.
Open Scope R_scope.

Definition Rltb (x y : R) : bool := if Rlt_dec x y then true else false.
Definition Rleb (x y : R) : bool := if Rle_dec x y then true else false.
Definition Reqb (x y : R) : bool := if Req_EM_T x y then true else false.

(** Python's round(): nearest integer, ties to even. *)
Definition Rround_half_even (x : R) : Z :=
  let f := Int_part x in
  let d := x - IZR f in
  if Rlt_dec d (1/2) then f
  else if Rlt_dec (1/2) d then (f + 1)%Z
  else if Z.even f then f else (f + 1)%Z.

Definition RA : Arith := {|
  num := R;
  zero := 0; one := 1; pi := PI;
  add := Rplus; sub := Rminus; mul := Rmult; div := Rdiv;
  neg := Ropp; absn := Rabs; sqrtn := sqrt;
  ltb := Rltb; leb := Rleb; eqb := Reqb;
  lit := fun q _ => Q2R q;
  of_Z := IZR;
  round_half_even := Rround_half_even;
  fsin := sin; fcos := cos; ftan := tan; fatan := atan; fsquare := fun x => x * x
|}.

Lemma Rltb_true x y : Rltb x y = true <-> x < y.
Proof. unfold Rltb; destruct (Rlt_dec x y); split; intros; try lra; try discriminate; reflexivity. Qed.
Lemma Rltb_false x y : Rltb x y = false <-> y <= x.
Proof. unfold Rltb; destruct (Rlt_dec x y); split; intros; try lra; try discriminate; reflexivity. Qed.
Lemma Rleb_true x y : Rleb x y = true <-> x <= y.
Proof. unfold Rleb; destruct (Rle_dec x y); split; intros; try lra; try discriminate; reflexivity. Qed.
Lemma Rleb_false x y : Rleb x y = false <-> y < x.
Proof. unfold Rleb; destruct (Rle_dec x y); split; intros; try lra; try discriminate; reflexivity. Qed.
Lemma Reqb_true x y : Reqb x y = true <-> x = y.
Proof. unfold Reqb; destruct (Req_EM_T x y); split; intros; try lra; try discriminate; try reflexivity; congruence. Qed.
Lemma Reqb_false x y : Reqb x y = false <-> x <> y.
Proof. unfold Reqb; destruct (Req_EM_T x y); split; intros; try discriminate; try reflexivity; congruence. Qed.

(** rounding an exact integer gives it back *)
Lemma Rround_IZR z : Rround_half_even (IZR z) = z.
Proof.
  unfold Rround_half_even.
  assert (H : Int_part (IZR z) = z).
  { unfold Int_part. generalize (tech_up (IZR z) (z + 1)). intro T.
    rewrite <- T; [lia| rewrite plus_IZR; lra | rewrite plus_IZR; lra]. }
  rewrite H. replace (IZR z - IZR z) with 0 by lra.
  destruct (Rlt_dec 0 (1/2)); [reflexivity|lra].
Qed.
