(** * QOps: the quantity operations the hand-written models use, as calls into the REGENERATED description of gearpy/units.
    Each is exactly one Python expression shape; nothing here knows how an operation is implemented. *)
From Coq Require Import ZArith QArith String List Bool PrimFloat.
From GP Require Import ArithDef UnitsCore PyUnits.
From GP.gen Require Import UnitsGen.
Import ListNotations.
Open Scope string_scope.

Section QOps.
Context {A : Arith}.
Notation qty := (qty A).

Definition q_new (k : kind) (v : num A) (u : string) : res qty := ctor GEN k v u.             (* K(value, unit) *)
Definition q_rmul (x : num A) (q : qty) : res qty := as_qty (py_rmul GEN x q).                (* x * q *)
Definition q_muln (q : qty) (x : num A) : res qty := as_qty (py_mul GEN q (PN x)).            (* q * x *)
Definition q_divn (q : qty) (x : num A) : res qty := as_qty (py_div GEN q (PN x)).            (* q / x *)
Definition q_add (a b : qty) : res qty := as_qty (py_add GEN a (PQ b)).                       (* a + b *)
Definition q_sub (a b : qty) : res qty := as_qty (py_sub GEN a (PQ b)).                       (* a - b *)
Definition q_mulq (a b : qty) : res qty := as_qty (py_mul GEN a (PQ b)).                      (* a * b, both quantities *)
Definition q_divq (a b : qty) : res qty := as_qty (py_div GEN a (PQ b)).                      (* a / b, a quantity results *)
Definition q_ratio (a b : qty) : res (num A) := as_num (py_div GEN a (PQ b)).                 (* a / b, a number results *)
Definition q_neg (a : qty) : res qty := as_qty (py_neg GEN a).
Definition q_to (a : qty) (u : string) : res qty := to_qty GEN a u.
Definition q_cmp (m : mname) (a b : qty) : res bool := py_cmp GEN m a b.
Definition q_lt := q_cmp MLt. Definition q_le := q_cmp MLe. Definition q_gt := q_cmp MGt.
Definition q_ge := q_cmp MGe. Definition q_eq := q_cmp MEq.

(** the module-level constants of solver.py *)
Definition NULL_SPD : qty := {| qk := KAngularSpeed; qv := zero; qu := "rad/s" |}.
Definition NULL_ACC : qty := {| qk := KAngularAcceleration; qv := zero; qu := "rad/s^2" |}.
Definition NULL_TQ : qty := {| qk := KTorque; qv := zero; qu := "Nm" |}.

(** Python's  x and y / x or y  on results (short circuit) *)
Definition andr (x : res bool) (y : res bool) : res bool := b <- x ;; if b then y else Ok false.
Definition orr (x : res bool) (y : res bool) : res bool := b <- x ;; if b then Ok true else y.
End QOps.
