(** * QOpsR: SI meaning of the quantity operations the models use (over the reals), from the sweeps of UnitsDim. *)
From Coq Require Import ZArith QArith Reals Lra Lia Qreals String List Bool.
From GP Require Import ArithDef UnitsCore PyUnits RealArith Spec UnitsR UnitsDim QOps.
From GP.gen Require Import UnitsGen.
Import ListNotations.
Open Scope R_scope.

Notation rq := (qty RA).

Lemma as_qty_inv (r : res (pyval RA)) (q : rq) : as_qty r = Ok q -> r = Ok (PQ q).
Proof. unfold as_qty, bind. destruct r as [[q'|x|b|]|]; intros H; try discriminate. injection H as <-. reflexivity. Qed.
Lemma as_num_inv (r : res (pyval RA)) (x : R) : as_num r = Ok x -> r = Ok (@PN RA x).
Proof. unfold as_num, bind. destruct r as [[q'|y|b|]|]; intros H; try discriminate. injection H as <-. reflexivity. Qed.

Lemma q_new_eq k v u (q : rq) : q_new k v u = Ok q -> q = mk k v u.
Proof. unfold q_new. intros H. apply ctor_ok in H. exact H. Qed.

Lemma q_rmul_si x (q z : rq) s : q_rmul x q = Ok z -> si q = Ok s -> qk z = qk q /\ qu z = qu q /\ si z = Ok (x * s).
Proof.
  unfold q_rmul. intros H Hs. apply as_qty_inv in H. rewrite (mk_eta q) in H, Hs.
  destruct (rmul_sound _ _ _ _ _ H) as (q' & E & Hk & Hu & Hsi). injection E as <-. rewrite (Hsi _ Hs). auto.
Qed.
Lemma q_muln_si (q z : rq) x s : q_muln q x = Ok z -> si q = Ok s -> qk z = qk q /\ qu z = qu q /\ si z = Ok (s * x).
Proof.
  unfold q_muln. intros H Hs. apply as_qty_inv in H. rewrite (mk_eta q) in H, Hs.
  destruct (mul_qn_sound _ _ _ _ _ H) as (q' & E & Hk & Hu & Hsi). injection E as <-. rewrite (Hsi _ Hs). auto.
Qed.
Lemma q_divn_si (q z : rq) x s : q_divn q x = Ok z -> si q = Ok s -> x <> 0 /\ qk z = qk q /\ qu z = qu q /\ si z = Ok (s / x).
Proof.
  unfold q_divn. intros H Hs. apply as_qty_inv in H. rewrite (mk_eta q) in H, Hs.
  destruct (div_qn_sound _ _ _ _ _ H) as (Hx & q' & E & Hk & Hu & Hsi). injection E as <-. rewrite (Hsi _ Hs). auto.
Qed.
Lemma q_add_si (a b z : rq) sa sb : q_add a b = Ok z -> si a = Ok sa -> si b = Ok sb ->
  spec_addsub (qk a) (qk b) = Some (qk z) /\ qu z = qu a /\ si z = Ok (sa + sb).
Proof.
  unfold q_add. intros H Ha Hb. apply as_qty_inv in H. rewrite (mk_eta a) in H, Ha. rewrite (mk_eta b) in H, Hb.
  destruct (add_sound _ _ _ _ _ _ _ H) as (q' & E & Hk & Hu & Hsi). injection E as <-. rewrite (Hsi _ _ Ha Hb). auto.
Qed.
Lemma q_sub_si (a b z : rq) sa sb : q_sub a b = Ok z -> sub_defect_site (qk a) (qk b) = false -> si a = Ok sa -> si b = Ok sb ->
  spec_addsub (qk a) (qk b) = Some (qk z) /\ qu z = qu a /\ si z = Ok (sa - sb).
Proof.
  unfold q_sub. intros H Hd Ha Hb. apply as_qty_inv in H. rewrite (mk_eta a) in H, Ha. rewrite (mk_eta b) in H, Hb.
  destruct (sub_sound _ _ _ _ _ _ _ Hd H) as (q' & E & Hk & Hu & Hsi). injection E as <-. rewrite (Hsi _ _ Ha Hb). auto.
Qed.
Lemma q_ratio_si (a b : rq) x sa sb : q_ratio a b = Ok x -> si a = Ok sa -> si b = Ok sb -> sb <> 0 /\ x = sa / sb.
Proof.
  unfold q_ratio. intros H Ha Hb. apply as_num_inv in H. rewrite (mk_eta a) in H, Ha. rewrite (mk_eta b) in H, Hb.
  destruct (div_qq_sound _ _ _ _ _ _ _ H _ _ Ha Hb) as (Hn & [(y & E & _ & Hy)|(q & E & _)]); [|discriminate].
  injection E as <-. auto.
Qed.
Lemma q_mulq_si (a b z : rq) sa sb : q_mulq a b = Ok z -> si a = Ok sa -> si b = Ok sb ->
  spec_mul (qk a) (qk b) = Some (DQ (qk z)) /\ si z = Ok (sa * sb).
Proof.
  unfold q_mulq. intros H Ha Hb. apply as_qty_inv in H. rewrite (mk_eta a) in H, Ha. rewrite (mk_eta b) in H, Hb.
  destruct (mul_qq_sound _ _ _ _ _ _ _ H) as (q' & E & Hk & Hsi). injection E as <-. rewrite (Hsi _ _ Ha Hb). auto.
Qed.
Lemma q_divq_si (a b z : rq) sa sb : q_divq a b = Ok z -> si a = Ok sa -> si b = Ok sb ->
  sb <> 0 /\ spec_div (qk a) (qk b) = Some (DQ (qk z)) /\ si z = Ok (sa / sb).
Proof.
  unfold q_divq. intros H Ha Hb. apply as_qty_inv in H. rewrite (mk_eta a) in H, Ha. rewrite (mk_eta b) in H, Hb.
  destruct (div_qq_sound _ _ _ _ _ _ _ H _ _ Ha Hb) as (Hn & [(y & E & _)|(q & E & Hk & Hsi)]); [discriminate|].
  injection E as <-. auto.
Qed.
Lemma q_neg_si (a z : rq) sa : q_neg a = Ok z -> si a = Ok sa -> qk z = qk a /\ qu z = qu a /\ si z = Ok (- sa).
Proof.
  unfold q_neg. intros H Ha. apply as_qty_inv in H. rewrite (mk_eta a) in H, Ha.
  destruct (neg_sound _ _ _ _ H) as (q' & E & Hk & Hu & Hsi). injection E as <-. rewrite (Hsi _ Ha). auto.
Qed.
Lemma q_to_si (a z : rq) u sa : q_to a u = Ok z -> si a = Ok sa -> qk z = qk a /\ qu z = u /\ si z = Ok sa.
Proof.
  unfold q_to. intros H Ha. destruct (to_qty_si _ _ _ H) as (Hk & Hu & s & H1 & H2). rewrite Ha in H1. injection H1 as <-. auto.
Qed.
(** the SI magnitude of a quantity given by value and unit *)
Lemma si_mk k v u f : @factor RA GEN k u = Ok f -> si (mk k v u) = Ok (v * f).
Proof. intros H. unfold si, bind; cbn. change G with GEN. rewrite H. reflexivity. Qed.
