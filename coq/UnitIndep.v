(** * UnitIndep: results depend on the SI magnitudes of the inputs, not on the units they are written in (C07, formula level). *)
From Coq Require Import ZArith QArith Reals Lra Lia Qreals String List Bool.
From GP Require Import ArithDef UnitsCore PyUnits RealArith Spec UnitsR UnitsCmp UnitsDim QOps QOpsR Motor MotorR Solver SolverProofs Relations RelR.
From GP.gen Require Import UnitsGen.
Import ListNotations.
Open Scope R_scope.

(** two quantities denote the same thing: same family of kinds and same SI magnitude *)
Definition same (a b : rq) : Prop := base_kind (qk a) = base_kind (qk b) /\ exists s, si a = Ok s /\ si b = Ok s.

(** ** every operation of the quantity layer the models use is a congruence for [same] *)
Lemma rmul_congr x (a b za zb : rq) : same a b -> qk a = qk b -> q_rmul x a = Ok za -> q_rmul x b = Ok zb -> same za zb.
Proof.
  intros (Hk & s & Ha & Hb) Hkk H1 H2. destruct (q_rmul_si _ _ _ _ H1 Ha) as (k1 & _ & s1). destruct (q_rmul_si _ _ _ _ H2 Hb) as (k2 & _ & s2).
  split; [congruence|]. exists (x * s). auto.
Qed.
Lemma muln_congr x (a b za zb : rq) : same a b -> qk a = qk b -> q_muln a x = Ok za -> q_muln b x = Ok zb -> same za zb.
Proof.
  intros (Hk & s & Ha & Hb) Hkk H1 H2. destruct (q_muln_si _ _ _ _ H1 Ha) as (k1 & _ & s1). destruct (q_muln_si _ _ _ _ H2 Hb) as (k2 & _ & s2).
  split; [congruence|]. exists (s * x). auto.
Qed.
Lemma divn_congr x (a b za zb : rq) : same a b -> qk a = qk b -> q_divn a x = Ok za -> q_divn b x = Ok zb -> same za zb.
Proof.
  intros (Hk & s & Ha & Hb) Hkk H1 H2. destruct (q_divn_si _ _ _ _ H1 Ha) as (_ & k1 & _ & s1). destruct (q_divn_si _ _ _ _ H2 Hb) as (_ & k2 & _ & s2).
  split; [congruence|]. exists (s / x). auto.
Qed.
Lemma ratio_congr (a a' b b' : rq) x x' : same a a' -> same b b' -> q_ratio a b = Ok x -> q_ratio a' b' = Ok x' -> x = x'.
Proof.
  intros (_ & sa & Ha & Ha') (_ & sb & Hb & Hb') H1 H2.
  destruct (q_ratio_si _ _ _ _ _ H1 Ha Hb) as (_ & ->). destruct (q_ratio_si _ _ _ _ _ H2 Ha' Hb') as (_ & ->). reflexivity.
Qed.
Lemma add_congr (a a' b b' z z' : rq) : same a a' -> same b b' -> qk a = qk a' -> qk b = qk b' -> q_add a b = Ok z -> q_add a' b' = Ok z' -> same z z'.
Proof.
  intros (_ & sa & Ha & Ha') (_ & sb & Hb & Hb') Hka Hkb H1 H2.
  destruct (q_add_si _ _ _ _ _ H1 Ha Hb) as (k1 & _ & s1). destruct (q_add_si _ _ _ _ _ H2 Ha' Hb') as (k2 & _ & s2).
  split; [rewrite Hka, Hkb in k1; congruence|]. exists (sa + sb). auto.
Qed.
Lemma sub_congr (a a' b b' z z' : rq) : same a a' -> same b b' -> qk a = qk a' -> qk b = qk b' -> sub_defect_site (qk a) (qk b) = false ->
  q_sub a b = Ok z -> q_sub a' b' = Ok z' -> same z z'.
Proof.
  intros (_ & sa & Ha & Ha') (_ & sb & Hb & Hb') Hka Hkb Hd H1 H2.
  destruct (q_sub_si _ _ _ _ _ H1 Hd Ha Hb) as (k1 & _ & s1). rewrite Hka, Hkb in Hd. destruct (q_sub_si _ _ _ _ _ H2 Hd Ha' Hb') as (k2 & _ & s2).
  split; [rewrite Hka, Hkb in k1; congruence|]. exists (sa - sb). auto.
Qed.
Lemma mulq_congr (a a' b b' z z' : rq) : same a a' -> same b b' -> qk a = qk a' -> qk b = qk b' -> q_mulq a b = Ok z -> q_mulq a' b' = Ok z' -> same z z'.
Proof.
  intros (_ & sa & Ha & Ha') (_ & sb & Hb & Hb') Hka Hkb H1 H2.
  destruct (q_mulq_si _ _ _ _ _ H1 Ha Hb) as (k1 & s1). destruct (q_mulq_si _ _ _ _ _ H2 Ha' Hb') as (k2 & s2).
  split; [rewrite Hka, Hkb in k1; rewrite k1 in k2; injection k2 as ->; reflexivity|]. exists (sa * sb). auto.
Qed.
Lemma divq_congr (a a' b b' z z' : rq) : same a a' -> same b b' -> qk a = qk a' -> qk b = qk b' -> q_divq a b = Ok z -> q_divq a' b' = Ok z' -> same z z'.
Proof.
  intros (_ & sa & Ha & Ha') (_ & sb & Hb & Hb') Hka Hkb H1 H2.
  destruct (q_divq_si _ _ _ _ _ H1 Ha Hb) as (_ & k1 & s1). destruct (q_divq_si _ _ _ _ _ H2 Ha' Hb') as (_ & k2 & s2).
  split; [rewrite Hka, Hkb in k1; rewrite k1 in k2; injection k2 as ->; reflexivity|]. exists (sa / sb). auto.
Qed.
Lemma to_congr (a z : rq) u : q_to a u = Ok z -> forall s, si a = Ok s -> same a z.
Proof. intros H s Hs. destruct (q_to_si _ _ _ _ H Hs) as (k & _ & sz). split; [congruence|]. exists s. auto. Qed.
(** comparisons: outside the tolerance band of the larger unit the result is a function of the SI magnitudes alone (the formal
    content of the property's exclusion "a discrete decision within rounding distance of its threshold") *)
Lemma cmp_congr m (a a' b b' : rq) r r' sa sb fa fb fa' fb' : is_cmp m = true ->
  si a = Ok sa -> si a' = Ok sa -> si b = Ok sb -> si b' = Ok sb ->
  @factor RA GEN (qk a) (qu a) = Ok fa -> @factor RA GEN (qk b) (qu b) = Ok fb ->
  @factor RA GEN (qk a') (qu a') = Ok fa' -> @factor RA GEN (qk b') (qu b') = Ok fb' ->
  tolR * Rmax (Rmax fa fb) (Rmax fa' fb') < Rabs (sa - sb) ->
  q_cmp m a b = Ok r -> q_cmp m a' b' = Ok r' -> r = r'.
Proof.
  intros Hm Ha Ha' Hb Hb' Hfa Hfb Hfa' Hfb' Hd H1 H2. unfold q_cmp in *.
  assert (Ht := tolR_pos).
  rewrite (cmp_decisive m a b r sa sb fa fb Hm H1 Ha Hb Hfa Hfb).
  - rewrite (cmp_decisive m a' b' r' sa sb fa' fb' Hm H2 Ha' Hb' Hfa' Hfb'); [reflexivity|].
    eapply Rle_lt_trans; [|exact Hd]. apply Rmult_le_compat_l; [lra|]. apply Rmax_r.
  - eapply Rle_lt_trans; [|exact Hd]. apply Rmult_le_compat_l; [lra|]. apply Rmax_l.
Qed.

(** ** formula level: the motor law *)
Theorem motor_torque_unit_independent (m m' : @motor RA) i0 imax i0' imax' W0 TM I0 IM (spd spd' : rq) w D T T' :
  m_i0 m = Some i0 -> m_imax m = Some imax -> m_i0 m' = Some i0' -> m_imax m' = Some imax' ->
  si (m_w0 m) = Ok W0 -> si (m_w0 m') = Ok W0 -> si (m_Tmax m) = Ok TM -> si (m_Tmax m') = Ok TM ->
  si i0 = Ok I0 -> si i0' = Ok I0 -> si imax = Ok IM -> si imax' = Ok IM ->
  qk (m_Tmax m) = KTorque -> qk (m_Tmax m') = KTorque -> qk i0 = KCurrent -> qk i0' = KCurrent -> qk imax = KCurrent -> qk imax' = KCurrent ->
  si spd = Ok w -> si spd' = Ok w ->
  motor_torque m spd D = Ok T -> motor_torque m' spd' D = Ok T' -> same T T'.
Proof.
  intros Hi Hm Hi' Hm' sW sW' sT sT' sI sI' sM sM' kT kT' kI kI' kM kM' sw sw' H H'.
  destruct (motor_torque_doc m i0 imax Hi Hm W0 TM I0 IM sW sT sI sM kT kI kM spd w D T sw H) as (k1 & _ & s1).
  destruct (motor_torque_doc m' i0' imax' Hi' Hm' W0 TM I0 IM sW' sT' sI' sM' kT' kI' kM' spd' w D T' sw' H') as (k2 & _ & s2).
  split; [rewrite k1, k2; reflexivity|]. eexists. split; eassumption.
Qed.
(** the number of steps of a run *)
Theorem step_count_unit_independent (dt dt' T T' : rq) x x' : same dt dt' -> same T T' -> q_ratio T dt = Ok x -> q_ratio T' dt' = Ok x' ->
  @round_half_even RA x = @round_half_even RA x'.
Proof. intros Hd HT H1 H2. rewrite (ratio_congr _ _ _ _ _ _ HT Hd H1 H2). reflexivity. Qed.
(** the angle functions *)
Theorem cos_unit_independent (a b : rq) ca cb : same a b -> base_kind (qk a) = KAngularPosition -> @qcos RA a = Ok ca -> @qcos RA b = Ok cb -> ca = cb.
Proof.
  intros (Hk & s & Ha & Hb) Hka H1 H2. rewrite (qcos_si _ _ _ Hka H1 Ha). assert (Hkb : base_kind (qk b) = KAngularPosition) by (rewrite <- Hk; exact Hka). rewrite (qcos_si _ _ _ Hkb H2 Hb). reflexivity.
Qed.
Theorem tan_unit_independent (a b : rq) ta tb : same a b -> base_kind (qk a) = KAngularPosition -> @qtan RA a = Ok ta -> @qtan RA b = Ok tb -> ta = tb.
Proof.
  intros (Hk & s & Ha & Hb) Hka H1 H2. rewrite (qtan_si _ _ _ Hka H1 Ha). assert (Hkb : base_kind (qk b) = KAngularPosition) by (rewrite <- Hk; exact Hka). rewrite (qtan_si _ _ _ Hkb H2 Hb). reflexivity.
Qed.
