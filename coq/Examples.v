(** * Examples: concrete histories (binary64 instance) used as non-vacuity witnesses by the property files.
    All observers are booleans (see the remark in QuantityCorr). *)
From Coq Require Import ZArith String List Bool PrimFloat.
From GP Require Import ArithDef FloatUtil UnitsCore PyUnits QOps Motor Solver.
Import ListNotations.
Open Scope string_scope. Open Scope float_scope.

Definition FX0 : Arith := FA [].
Definition Qx (k : kind) (v : float) (u : string) : qty FX0 := @Build_qty FX0 k v u.

(** motor (0.5 Nm, 3000 rpm, 0.1 A / 2 A) - worm (1 start) - wheel (40 teeth), self-locking, 5 Nm load on the wheel *)
Definition ex_motor : @motor FX0 :=
  {| m_w0 := Qx KAngularSpeed 3000 "rpm"; m_Tmax := Qx KTorque 0x1p-1 "Nm";
     m_i0 := Some (Qx KCurrent 100 "mA"); m_imax := Some (Qx KCurrent 2 "A") |}.
Definition ex_chain (selflock : bool) : @chain FX0 :=
  {| c_motor := ex_motor; c_J0 := Qx KInertiaMoment 0x1.a36e2eb1c432dp-13 "kgm^2";
     c_elems := [ @Build_elem FX0 1 1 (Qx KInertiaMoment 100 "gcm^2") false;
                  @Build_elem FX0 40 0x1.999999999999ap-2 (Qx KInertiaMoment 0x1.0624dd2f1a9fcp-11 "kgm^2") true ];
     c_selflock := selflock |}.
Definition ex_load (nm : float) : qty FX0 -> qty FX0 -> qty FX0 -> res (qty FX0) := @eval_load FX0 (@LoadAffine FX0 nm 0 0 0 "Nm").
(** duty cycle 1 for 5 ms, then 0 for 5 ms, then 1 again *)
Definition ex_rules : list (@rule FX0) :=
  [ @RConst FX0 (Qx KTime 0 "sec") (Qx KTimeInterval 5 "ms") 1;
    @RConst FX0 (Qx KTime 6 "ms") (Qx KTimeInterval 4 "ms") 0;
    @RConst FX0 (Qx KTime 11 "ms") (Qx KTimeInterval 1 "sec") 1 ].
Definition ex_ops : list (@sop FX0) :=
  [ @SRun FX0 (Qx KTimeInterval 1 "ms") (Qx KTimeInterval 8 "ms") (Some ex_rules) None;
    @SRun FX0 (Qx KTimeInterval 0x1p-1 "ms") (Qx KTimeInterval 6 "ms") (Some ex_rules) None ].
Definition ex_final (selflock : bool) (load_nm : float) : res (@sys FX0) :=
  exec (ex_chain selflock) (ex_load load_nm) ex_ops (initial (Qx KAngularPosition 0 "rad") (Qx KAngularSpeed 0 "rad/s")).

Definition hist_len (r : res (@sys FX0)) : nat := match r with Ok st => length (y_hist st) | Err _ => 0%nat end.
Definition count_locked (r : res (@sys FX0)) : nat :=
  match r with Ok st => length (filter (fun x => s_locked (snd x)) (y_hist st)) | Err _ => 0%nat end.
Definition moved (r : res (@sys FX0)) : bool :=
  match r with
  | Ok st => existsb (fun x : qty FX0 * @snap FX0 => match s_spd (snd x) with q :: _ => PrimFloat.ltb 0 (qv q) | [] => false end) (y_hist st)
  | Err _ => false end.
(** held at some instant and released at a later one *)
Fixpoint released (h : list (qty FX0 * @snap FX0)) : bool :=      (* h newest first *)
  match h with
  | (_, s) :: (((_, s1) :: _) as h') => (negb (s_locked s) && s_locked s1) || released h'
  | _ => false
  end.
Definition has_release (r : res (@sys FX0)) : bool := match r with Ok st => released (y_hist st) | Err _ => false end.

(** a stop condition that ends a run early: motor speed >= 100 rad/s *)
Definition ex_stop : @stopcond FX0 := @Build_stopcond FX0 (STacho 0%nat) (Qx KAngularSpeed 100 "rad/s") OpGE.
Definition ex_stop_final : res (@sys FX0) :=
  exec (ex_chain false) (ex_load 0x1p-1) [ @SRun FX0 (Qx KTimeInterval 1 "ms") (Qx KTimeInterval 50 "ms") None (Some ex_stop) ]
       (initial (Qx KAngularPosition 0 "rad") (Qx KAngularSpeed 0 "rad/s")).
