(** * The assembled Powertrain as an object that goes on living (C20, last clause: "cannot be changed afterwards").
    Powertrain.__init__ stores the tuple of elements and the self-locking flag ([assemble], Relations.v) in private attributes that
    only read-only properties expose; the methods that mutate the object afterwards are [update_time] (appends an instant) and [reset]
    (forgets the instants).  Meanwhile the user may go on declaring relations on the very elements the powertrain holds: those calls
    change the link state of the world, not the powertrain.  The world is (link state, powertrain object); [pstep] is one later
    operation; the theorem says the two frozen fields never move, whatever is done, even when re-assembling from the new link state
    would give something else ([frozen_differs_from_reassembly] exhibits such a history).
    Tie to the code: fam_rel.afterwards() re-declares every worm mating of the chain across its self-locking threshold, simulates,
    resets, appends an element behind the chain, and compares elements / self_locking with the values at assembly; the correspondence
    compares [assemble]'s result with what the powertrain shows at the END of that history. *)
From Coq Require Import ZArith String List Bool.
From GP Require Import ArithDef UnitsCore PyUnits QOps Relations.
Import ListNotations.

Section Obj.
Context {A : Arith}.
Record ptobj := { p_elements : list nat; p_locking : bool; p_time : list (@qty A) }.
Definition construct (s : @rstate A) (m : nat) : res ptobj :=
  r <- assemble s m ;; Ok {| p_elements := fst r; p_locking := snd r; p_time := [] |}.
Inductive ptop :=
| PUpdateTime (t : @qty A)          (* Powertrain.update_time: self.__time.append(instant) *)
| PReset                            (* Powertrain.reset: self.__time = [] (the elements' own variables are C12's subject) *)
| PDeclare (c : @relcall A)         (* add_gear_mating / add_worm_gear_mating / add_fixed_joint on the elements, accepted or rejected *)
| PAppend (d : @edecl A)               (* a new element is created (and may then be linked by a PDeclare) *).
Definition pstep (w : @rstate A * ptobj) (o : ptop) : @rstate A * ptobj :=
  let (s, p) := w in
  match o with
  | PUpdateTime t => (s, {| p_elements := p_elements p; p_locking := p_locking p; p_time := (p_time p ++ [t])%list |})
  | PReset => (s, {| p_elements := p_elements p; p_locking := p_locking p; p_time := [] |})
  | PDeclare c => (declare1 s c, p)
  | PAppend d => ((s ++ [(d, fresh_link (d_kind d))])%list, p)
  end.
Definition pruns (ops : list ptop) (w : @rstate A * ptobj) : @rstate A * ptobj := fold_left pstep ops w.

Lemma pstep_frozen w o : p_elements (snd (pstep w o)) = p_elements (snd w) /\ p_locking (snd (pstep w o)) = p_locking (snd w).
Proof. destruct w as [s p]; destruct o; simpl; split; reflexivity. Qed.
Theorem frozen_afterwards ops w :
  p_elements (snd (pruns ops w)) = p_elements (snd w) /\ p_locking (snd (pruns ops w)) = p_locking (snd w).
Proof.
  revert w; induction ops as [|o ops IH]; intros w; simpl; [split; reflexivity|].
  destruct (IH (pstep w o)) as [E1 E2]; destruct (pstep_frozen w o) as [F1 F2].
  unfold pruns in *; rewrite E1, E2, F1, F2; split; reflexivity.
Qed.
(** stated from the constructor: whatever happens later, the object shows what [assemble] returned when it was built *)
Theorem constructed_then_frozen s m p ops : construct s m = Ok p ->
  exists ids lk, assemble s m = Ok (ids, lk) /\ p_elements (snd (pruns ops (s, p))) = ids /\ p_locking (snd (pruns ops (s, p))) = lk.
Proof.
  unfold construct; intros H. destruct (assemble s m) as [[ids lk]|e] eqn:E; simpl in H; [|discriminate H].
  injection H as <-. exists ids, lk. destruct (frozen_afterwards ops (s, {| p_elements := ids; p_locking := lk; p_time := [] |})) as [E1 E2].
  simpl in *. auto.
Qed.
End Obj.

(** ** Non-vacuity (binary64): motor - worm (1 start, 20 deg pressure angle, 10 deg helix) - wheel (40 teeth), friction 0.4 at assembly
    (self-locking: 0.4 > cos 20 * tan 10 = 0.1657); afterwards the worm mating is re-declared with friction 0.1, an instant is
    appended, the powertrain is reset and a flywheel is jointed behind the wheel.  The object still shows the chain [0;1;2] and the
    flag true, while assembling again from the link state reached would give [0;1;2;3] and false. *)
From Coq Require Import PrimFloat.
From GP Require Import FloatUtil.
Open Scope string_scope.
Definition Oex : oracle :=
  [(LCos, 0x1.657184ae74487p-2%float, 0x1.e11f642522d1cp-1%float); (LTan, 0x1.657184ae74487p-2%float, 0x1.74b49cf3902d4p-2%float);
   (LSin, 0x1.657184ae74487p-2%float, 0x1.5e3a8748a0bf5p-2%float); (LCos, 0x1.657184ae74487p-3%float, 0x1.f838b8c811c17p-1%float);
   (LTan, 0x1.657184ae74487p-3%float, 0x1.691e1ebc5cbbcp-3%float); (LSin, 0x1.657184ae74487p-3%float, 0x1.63a1a7e0b7389p-3%float)].
Definition FXo : Arith := FA Oex.
Definition Qo (k : kind) (v : float) (u : string) : qty FXo := @Build_qty FXo k v u.
Definition ex_decls : list (@edecl FXo) :=
  [ @Build_edecl FXo EMotor "motor" 0 None None None;
    @Build_edecl FXo EWorm "worm" 1 None (Some (Qo KAngle 10 "deg")) (Some (Qo KAngle 20 "deg"));
    @Build_edecl FXo EWheel "wheel" 40 None (Some (Qo KAngle 10 "deg")) (Some (Qo KAngle 20 "deg")) ].
Definition ex_world0 : @rstate FXo :=
  declare_all [ @CJoint FXo 0 1; @CWorm FXo 1 2 0x1.999999999999ap-2%float ] (map (fun d => (d, @fresh_link FXo (d_kind d))) ex_decls).
Definition ex_later : list (@ptop FXo) :=
  [ PDeclare (@CWorm FXo 1 2 0x1.999999999999ap-4%float); PUpdateTime (Qo KTime 0 "sec"); PReset;
    PAppend (@Build_edecl FXo EFly "appended afterwards" 0 None None None); PDeclare (@CJoint FXo 2 3) ].
Fixpoint nats_eqb (a b : list nat) : bool :=
  match a, b with [], [] => true | x :: a', y :: b' => Nat.eqb x y && nats_eqb a' b' | _, _ => false end.
Definition ex_frozen_check : bool :=
  match @construct FXo ex_world0 0 with
  | Ok p =>
      let w := pruns ex_later (ex_world0, p) in
      let same := nats_eqb (p_elements (snd w)) [0; 1; 2]%nat && Bool.eqb (p_locking (snd w)) true in
      match @assemble FXo (fst w) 0 with
      | Ok (ids, lk) => same && nats_eqb ids [0; 1; 2; 3]%nat && Bool.eqb lk false
      | Err _ => false
      end
  | Err _ => false
  end.
Example frozen_differs_from_reassembly : ex_frozen_check = true.
Proof. vm_compute. reflexivity. Qed.
