(** * HeldR: while a self-locking powertrain is held, positions stay constant (C13), over the reals.
    The instant that FOLLOWS a held instant records the same output position, in SI, whatever the units and the step:
    the held instant recorded zero speed and zero acceleration (proved for every arithmetic in SolverProofs), and the step
    advances the position by (0 + 0*dt)*dt. *)
From Coq Require Import ZArith QArith Reals Lra String List Bool.
From GP Require Import ArithDef UnitsCore PyUnits RealArith Spec UnitsR QOps QOpsR Motor Solver SolverProofs.
From GP.gen Require Import UnitsGen.
Import ListNotations.
Open Scope R_scope.

Lemma null_spd_si : si (@NULL_SPD RA) = Ok 0.
Proof. unfold si, bind, NULL_SPD. cbn. f_equal. unfold Q2R; cbn. change (@zero RA) with 0. lra. Qed.
Lemma null_acc_si : si (@NULL_ACC RA) = Ok 0.
Proof. unfold si, bind, NULL_ACC. cbn. f_equal. unfold Q2R; cbn. change (@zero RA) with 0. lra. Qed.

Lemma lastq_in (l : list rq) x : lastq l = Ok x -> In x l.
Proof. unfold lastq. destruct (rev l) as [|y r] eqn:E; [discriminate|]. intros H. injection H as <-. apply in_rev. rewrite E. left. reflexivity. Qed.

Theorem held_position_constant (c : @chain RA) load ops p w st pre t s t1 s1 post p1 P1 DT :
  exec c load ops (initial p w) = Ok st ->
  y_hist st = (pre ++ (t, s) :: (t1, s1) :: post)%list ->
  s_locked s1 = true ->                                   (* the older of the two instants is held *)
  lastq (s_pos s1) = Ok p1 -> si p1 = Ok P1 ->
  (forall dt, s_dt s = Some dt -> si dt = Ok DT) ->
  exists p', lastq (s_pos s) = Ok p' /\ si p' = Ok P1.
Proof.
  intros He E Hlk Hp1 sp1 Hdt.
  destruct (reachable_step c load ops p w st pre t s t1 s1 post He E) as (dt & Hd & (a1 & w1 & p1' & dv & w' & dp & p' & Ha & Hw & Hp & Hdv & Hw' & Hdp & Hp' & Hlp & _)).
  rewrite Hp1 in Hp. injection Hp as <-.
  assert (Hin : In (t1, s1) (y_hist st)) by (rewrite E; apply in_or_app; right; right; left; reflexivity).
  destruct (reachable_lock c load ops p w st t1 s1 He Hin) as (_ & _ & Hz & _). destruct (Hz Hlk) as (Hs0 & Ha0).
  assert (Ea : a1 = NULL_ACC). { apply lastq_in in Ha. rewrite Forall_forall in Ha0. symmetry. exact (Ha0 _ Ha). }
  assert (Ew : w1 = NULL_SPD). { apply lastq_in in Hw. rewrite Forall_forall in Hs0. symmetry. exact (Hs0 _ Hw). }
  subst a1 w1. specialize (Hdt dt Hd).
  destruct (q_mulq_si _ _ _ _ _ Hdv null_acc_si Hdt) as (_ & sdv).
  destruct (q_add_si _ _ _ _ _ Hw' null_spd_si sdv) as (_ & _ & sw').
  destruct (q_mulq_si _ _ _ _ _ Hdp sw' Hdt) as (_ & sdp).
  destruct (q_add_si _ _ _ _ _ Hp' sp1 sdp) as (_ & _ & sp').
  exists p'. split; [exact Hlp|]. rewrite sp'. f_equal. lra.
Qed.
