(** * CorrSound: the attribution evaluator of SolverCorr.v ([loop_p], [run_p], [exec_p]) computes what the model computes
    whenever the model returns. *)
From Coq Require Import ZArith String List Bool PrimFloat.
From GP Require Import ArithDef FloatUtil UnitsCore PyUnits QOps Motor Solver SolverProofs SolverSegs SolverCorr.
Import ListNotations.

Section S.
Variable O : oracle.
Notation FX := (FA O).

Lemma loop_p_ok : forall (c : @chain FX) load ctl stop J dt ts st st',
  loop c load ctl stop J dt ts st = Ok st' -> loop_p O c load ctl stop J dt ts st = (st', None).
Proof.
  intros c load ctl stop J dt ts. induction ts as [|t ts IH]; intros st st' H; cbn [loop loop_p] in *.
  - now inversion H.
  - destruct (integrate (y_live st) dt) as [v|e]; cbn [bind] in *; [|discriminate H].
    destruct (record_instant c load ctl J t v st (Some dt)) as [[st1 s]|e]; cbn [bind] in *; [|discriminate H].
    destruct (match stop with Some sc => stop_check sc s | None => Ok false end) as [[|]|e]; cbn [bind] in *.
    + now inversion H.
    + now apply IH.
    + discriminate H.
Qed.

Lemma run_p_ok : forall (c : @chain FX) load ctl stop dt T st st',
  run c load ctl stop dt T st = Ok st' -> run_p O c load ctl stop dt T st = (st', None).
Proof.
  intros c load ctl stop dt T st st' H. unfold run in H. unfold run_p, run_pre.
  destruct (q_ge dt T) as [[|]|e]; cbn [bind] in *; try discriminate H.
  destruct (equivalent_inertia c) as [J|e]; cbn [bind] in *; [|discriminate H].
  match type of H with context [bind ?X _] => destruct X as [[t0 st0]|e] end; cbn [bind] in *; [|discriminate H].
  destruct (q_ratio T dt) as [x|e]; cbn [bind] in *; [|discriminate H].
  now apply loop_p_ok.
Qed.

Lemma exec_t_ok : forall (c : @chain FX) load ops st st' acc,
  exec c load ops st = Ok st' -> exists acc', exec_t O c load ops st acc = (st', None, acc').
Proof.
  intros c load ops. induction ops as [|o ops IH]; intros st st' acc H; cbn [exec exec_t] in *.
  - inversion H. now eexists.
  - destruct (step_op c load st o) as [st1|e] eqn:E; cbn [bind] in H; [|discriminate H].
    destruct o; cbv beta iota.
    + cbn [step_op] in E. rewrite (run_p_ok _ _ _ _ _ _ _ _ E). now apply IH.
    + change (reset st = Ok st1) in E. rewrite E. now apply IH.
    + try rewrite E; now apply IH.
    + try rewrite E; now apply IH.
    + try rewrite E; now apply IH.
Qed.
(** the segmented evaluator (a chain and a load per segment) against the generic segmented schedule of SolverSegs.v *)
Definition seg_of (x : @chain FX * @loadexpr FX * list (@sop FX)) : @seg FX := (fst (fst x), eval_load (snd (fst x)), snd x).
Lemma exec_segs_t_ok : forall segs st st' acc,
  SolverSegs.exec_segs (map seg_of segs) st = Ok st' -> exists acc', exec_segs_t O segs st acc = (st', None, acc').
Proof.
  induction segs as [|[[c l] ops] segs IH]; intros st st' acc H; cbn [map SolverSegs.exec_segs exec_segs_t seg_of fst snd] in *.
  - inversion H. now eexists.
  - destruct (exec c (eval_load l) ops st) as [st1|e] eqn:E; cbn [bind] in H; [|discriminate H].
    destruct (exec_t_ok c (eval_load l) ops st st1 acc E) as (acc1 & ->). now apply IH.
Qed.
End S.
