(** * QuantityCorr: executable comparison of the generated quantity layer (in binary64) with gearpy's results.
    The harness writes a list of [qcase] with the implementation's outcomes; [failing] returns the indices that differ. *)
From Coq Require Import ZArith String List Bool PrimFloat.
From GP Require Import ArithDef FloatUtil UnitsCore PyUnits.
From GP.gen Require Import UnitsGen.
Import ListNotations.
Open Scope string_scope.

Definition F0 : Arith := FA [].
Definition fq := qty F0.
Definition mkq (k : kind) (v : float) (u : string) : fq := @Build_qty F0 k v u.

Inductive plit := LQ (k : kind) (v : float) (u : string) | LN (v : float) | LStr.   (* LStr: an operand of a foreign type *)
Inductive outcome := XQ (k : kind) (v : float) (u : string) | XN (v : float) | XB (b : bool) | XNone | XErr (e : exn).
Inductive qop := QAdd | QSub | QMul | QDiv | QRMul | QAbs | QNeg | QCmp (m : mname) | QTo (u : string) | QToInplace (u : string) | QCtor.
(** [c_pre = Some u]: the left operand is first converted to unit u IN PLACE (the same object then takes part in the operation) *)
Record qcase := { c_op : qop; c_a : plit; c_b : plit; c_pre : option string; c_out : outcome }.

Definition pv (l : plit) : pyval F0 := match l with LQ k v u => @PQ F0 (mkq k v u) | LN v => @PN F0 v | LStr => @PNone F0 end.
Definition out_of (r : res (pyval F0)) : outcome :=
  match r with
  | Ok (PQ q) => XQ (qk q) (qv q) (qu q) | Ok (PN x) => XN x | Ok (PB b) => XB b | Ok PNone => XNone
  | Err e => XErr e end.
Definition run_case0 (op : qop) (a b : plit) : outcome :=
  match op, a, b with
  | QAdd, LQ k v u, b => out_of (@py_add F0 GEN (mkq k v u) (pv b))
  | QSub, LQ k v u, b => out_of (@py_sub F0 GEN (mkq k v u) (pv b))
  | QMul, LQ k v u, b => out_of (@py_mul F0 GEN (mkq k v u) (pv b))
  | QDiv, LQ k v u, b => out_of (@py_div F0 GEN (mkq k v u) (pv b))
  | QRMul, LN x, LQ k v u => out_of (@py_rmul F0 GEN x (mkq k v u))
  (* number OP quantity: float.__op__ returns NotImplemented and Python looks for the reflected method of the quantity.  The described
     classes define __rmul__ only (the translator rejects a class body with any method outside its table, so a class that grew an
     __radd__ / __rsub__ / __rtruediv__ is not described at all): TypeError.  A reflected comparison is the mirrored method. *)
  | QAdd, LN _, LQ _ _ _ => XErr TypeError
  | QSub, LN _, LQ _ _ _ => XErr TypeError
  | QDiv, LN _, LQ _ _ _ => XErr TypeError
  | QCmp m, LN x, LQ k v u => out_of (@call F0 GEN (reflect_cmp m) (mkq k v u) (@PN F0 x))
  | QAbs, LQ k v u, _ => out_of (@py_abs F0 GEN (mkq k v u))
  | QNeg, LQ k v u, _ => out_of (@py_neg F0 GEN (mkq k v u))
  | QCmp m, LQ k v u, LQ k2 v2 u2 =>
      out_of (b <- @py_cmp F0 GEN m (mkq k v u) (mkq k2 v2 u2) ;; Ok (@PB F0 b))
  | QCmp m, LQ k v u, b => out_of (@call F0 GEN m (mkq k v u) (pv b))
  | QTo t, LQ k v u, _ => out_of (q <- @to_qty F0 GEN (mkq k v u) t ;; Ok (@PQ F0 q))
  | QToInplace t, LQ k v u, _ => out_of (q <- @to_inplace F0 GEN (mkq k v u) t ;; Ok (@PQ F0 q))
  | QCtor, LQ k v u, _ => out_of (q <- @ctor F0 GEN k v u ;; Ok (@PQ F0 q))
  | _, _, _ => XErr OutOfFuel
  end.
Definition run_case (c : qcase) : outcome :=
  match c_pre c, c_a c with
  | Some u, LQ k v u0 =>
      match @to_inplace F0 GEN (mkq k v u0) u with
      | Ok q => run_case0 (c_op c) (LQ (qk q) (qv q) (qu q)) (c_b c)
      | Err e => XErr e
      end
  | _, _ => run_case0 (c_op c) (c_a c) (c_b c)
  end.
Definition outcome_eqb (a b : outcome) : bool :=
  match a, b with
  | XQ k v u, XQ k' v' u' => kind_eqb k k' && fbits_eq v v' && String.eqb u u'
  | XN v, XN v' => fbits_eq v v'
  | XB x, XB y => Bool.eqb x y
  | XNone, XNone => true
  | XErr e, XErr e' => exn_eqb e e'
  | _, _ => false end.
Fixpoint failing_from (i : N) (l : list qcase) : list N :=
  match l with
  | [] => []
  | c :: l' => if outcome_eqb (run_case c) (c_out c) then failing_from (N.succ i) l' else i :: failing_from (N.succ i) l'
  end.
Definition failing (l : list qcase) : list N := failing_from 0%N l.

(** Boolean observers, so that statements evaluated by vm_compute are equalities at type [bool]
    (an equality at type [res (qty F0)] would make vm_compute normalise the whole record [FA []]). *)
Definition res_bool_is (r : res bool) (b : bool) : bool := match r with Ok x => Bool.eqb x b | Err _ => false end.
Definition res_qty_is (r : res fq) (k : kind) (v : float) (u : string) : bool :=
  match r with Ok q => kind_eqb (qk q) k && fbits_eq (qv q) v && String.eqb (qu q) u | Err _ => false end.
Definition res_pyval_is (r : res (pyval F0)) (o : outcome) : bool := outcome_eqb (out_of r) o.
