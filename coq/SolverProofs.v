(** * SolverProofs: structural theorems about the Solver model, for EVERY arithmetic [A] (hence for the binary64
    instance that is compared bit for bit with gearpy, and for the reals). *)
From Coq Require Import ZArith QArith String List Bool Lia.
From GP Require Import ArithDef UnitsCore PyUnits QOps Motor Solver.
Import ListNotations.

Ltac mon H :=
  unfold bind in H;
  repeat match type of H with
  | (match ?x with Ok _ => _ | Err _ => _ end) = _ => let E := fresh "E" in destruct x eqn:E; [|discriminate H]
  end.

Section Proofs.
Context {A : Arith}.
Notation qty := (qty A).
Notation snap := (@snap A).
Notation chain := (@chain A).

(** ** chains of values linked by an operation *)
Inductive linked (op : num A -> qty -> res qty) : list (num A) -> list qty -> Prop :=
  | linked_one x : linked op [] [x]
  | linked_cons r rs y z l : linked op rs (y :: l) -> op r y = Ok z -> linked op (r :: rs) (z :: y :: l).

Lemma lastq_cons (z : qty) l x : lastq l = Ok x -> lastq (z :: l) = Ok x.
Proof.
  unfold lastq. cbn [rev]. destruct (rev l) as [|y r] eqn:E; [discriminate|]. intros H. injection H as <-. reflexivity.
Qed.
Lemma lastq_map_const (f : qty -> qty) (c : qty) l x : lastq l = Ok x -> (forall y, f y = c) -> lastq (map f l) = Ok c.
Proof.
  unfold lastq. rewrite <- map_rev. destruct (rev l); [discriminate|]. intros _ Hf. cbn. rewrite Hf. reflexivity.
Qed.

Lemma back_prop_spec rs x l : back_prop rs x = Ok l ->
  linked q_rmul rs l /\ lastq l = Ok x /\ length l = S (length rs).
Proof.
  revert l. induction rs as [|r rs IH]; cbn [back_prop]; intros l H.
  - injection H as <-. repeat split; constructor.
  - unfold bind in H. destruct (back_prop rs x) as [l0|] eqn:E; [|discriminate].
    destruct (IH _ eq_refl) as (Hl & Hx & Hn). destruct l0 as [|y l0]; [discriminate|].
    destruct (q_rmul r y) as [z|] eqn:Ez; [|discriminate]. injection H as <-. split; [|split].
    + constructor; assumption.
    + apply lastq_cons. exact Hx.
    + cbn [length] in *. lia.
Qed.

(** driving torque: l[i] = (l[i-1] * eff[i]) * ratio[i], l[0] = the motor's *)
Inductive drive_linked : list (@elem A) -> list qty -> Prop :=
  | dl_one x : drive_linked [] [x]
  | dl_cons e es x a b l : q_muln x (e_eff e) = Ok a -> q_muln a (e_ratio e) = Ok b -> drive_linked es (b :: l) ->
      drive_linked (e :: es) (x :: b :: l).
Lemma drive_prop_spec es x l : drive_prop es x = Ok l -> drive_linked es l /\ headq l = Ok x /\ length l = S (length es).
Proof.
  revert x l. induction es as [|e es IH]; cbn [drive_prop]; intros x l H.
  - injection H as <-. repeat split; constructor.
  - unfold bind in H. destruct (q_muln x (e_eff e)) as [a|] eqn:Ea; [|discriminate].
    destruct (q_muln a (e_ratio e)) as [b|] eqn:Eb; [|discriminate].
    destruct (drive_prop es b) as [l0|] eqn:El; [|discriminate]. injection H as <-. destruct (IH _ _ El) as (Hl & Hh & Hn).
    destruct l0 as [|b' l0]; [discriminate|]. cbn in Hh. injection Hh as ->.
    split; [|split]; [econstructor; eauto|reflexivity|cbn [length] in *; lia].
Qed.
(** load torque: l[i-1] = (l[i] / eff[i]) / ratio[i], l[last] = the external load *)
Inductive load_linked : list (@elem A) -> list qty -> Prop :=
  | ll_one x : load_linked [] [x]
  | ll_cons e es y a b l : load_linked es (y :: l) -> q_divn y (e_eff e) = Ok a -> q_divn a (e_ratio e) = Ok b ->
      load_linked (e :: es) (b :: y :: l).
Lemma load_prop_spec es x l : load_prop es x = Ok l -> load_linked es l /\ lastq l = Ok x /\ length l = S (length es).
Proof.
  revert l. induction es as [|e es IH]; cbn [load_prop]; intros l H.
  - injection H as <-. repeat split; constructor.
  - unfold bind in H. destruct (load_prop es x) as [l0|] eqn:E; [|discriminate].
    destruct (IH _ eq_refl) as (Hl & Hx & Hn). destruct l0 as [|y l0]; [discriminate|].
    destruct (q_divn y (e_eff e)) as [a|] eqn:Ea; [|discriminate]. destruct (q_divn a (e_ratio e)) as [b|] eqn:Eb; [|discriminate].
    injection H as <-. split; [|split]; [econstructor; eauto|apply lastq_cons; exact Hx|cbn [length] in *; lia].
Qed.
Inductive pointwise (f : qty -> qty -> res qty) : list qty -> list qty -> list qty -> Prop :=
  | pw_nil : pointwise f [] [] []
  | pw_cons x y z a b c : f x y = Ok z -> pointwise f a b c -> pointwise f (x :: a) (y :: b) (z :: c).
Lemma map2r_spec f a b c : map2r f a b = Ok c -> pointwise f a b c.
Proof.
  revert b c. induction a as [|x a IH]; intros [|y b] c H; cbn [map2r] in H; try discriminate.
  - injection H as <-. constructor.
  - unfold bind in H. destruct (f x y) as [z|] eqn:Ez; [|discriminate]. destruct (map2r f a b) as [c0|] eqn:Ec; [|discriminate].
    injection H as <-. constructor; auto.
Qed.

(** ** one instant: everything [instant] computed, as equations between its inputs and the recorded values *)
Record instant_facts (c : chain) (load : qty -> qty -> qty -> res qty) (ctl : option (list rule)) (J t : qty)
    (first_ltq0 : option qty) (v : live) (locked : bool) (prov : option qty) (s : snap) : Prop := {
  if_pos : back_prop (ratios c) (v_pos_last v) = Ok (s_pos s);
  if_spd1 : exists spd1 spd0, back_prop (ratios c) (v_spd_last v) = Ok spd1 /\ headq spd1 = Ok spd0 /\
              lock_decision c (v_pwm v) spd0 (v_tq0 v) locked = Ok (s_locked s) /\
              s_spd s = (if s_locked s then map (fun _ => NULL_SPD) spd1 else spd1);
  if_load : exists pl sl lt, lastq (s_pos s) = Ok pl /\ lastq (s_spd s) = Ok sl /\ load t pl sl = Ok lt /\
              load_prop (c_elems c) lt = Ok (s_ltq s);
  if_ctl : exists ltq0, headq (s_ltq s) = Ok ltq0 /\
              control c ctl {| w_time := t; w_pos := s_pos s; w_spd := s_spd s; w_ltq0 := ltq0; w_first_ltq0 := first_ltq0 |} (v_pwm v) = Ok (s_pwm s);
  if_drive : exists spd0' d0, headq (s_spd s) = Ok spd0' /\ motor_torque (c_motor c) spd0' (s_pwm s) = Ok d0 /\
              drive_prop (c_elems c) d0 = Ok (s_dtq s) /\ motor_current (c_motor c) d0 (s_pwm s) = Ok (s_cur s);
  if_net : map2r q_sub (s_dtq s) (s_ltq s) = Ok (s_tq s);
  if_acc : if s_locked s then exists spd1, back_prop (ratios c) (v_spd_last v) = Ok spd1 /\ s_acc s = map (fun _ => NULL_ACC) spd1
           else exists tl a, lastq (s_tq s) = Ok tl /\ q_divq tl J = Ok a /\ back_prop (ratios c) a = Ok (s_acc s);
  if_ghost : s_lock_prev s = locked /\ s_pwm_in s = v_pwm v /\ s_tq0_in s = v_tq0 v /\ s_dt s = prov
}.

Lemma instant_inv c load ctl J t f v locked prov s lk :
  instant c load ctl J t f v locked prov = Ok (s, lk) ->
  lk = s_locked s /\ instant_facts c load ctl J t f v locked prov s.
Proof.
  unfold instant, bind. intros H.
  destruct (back_prop (ratios c) (v_pos_last v)) as [pos|] eqn:Epos; [|discriminate].
  destruct (back_prop (ratios c) (v_spd_last v)) as [spd1|] eqn:Espd; [|discriminate].
  destruct (headq spd1) as [spd0|] eqn:Eh; [|discriminate].
  destruct (lock_decision c (v_pwm v) spd0 (v_tq0 v) locked) as [lk'|] eqn:Elk; [|discriminate].
  destruct (lastq pos) as [pl|] eqn:Epl; [|discriminate].
  destruct (lastq (if lk' then map (fun _ => NULL_SPD) spd1 else spd1)) as [sl|] eqn:Esl; [|discriminate].
  destruct (load t pl sl) as [lt|] eqn:Elt; [|discriminate].
  destruct (load_prop (c_elems c) lt) as [ltq|] eqn:Eltq; [|discriminate].
  destruct (headq ltq) as [ltq0|] eqn:El0; [|discriminate].
  destruct (control c ctl _ (v_pwm v)) as [pwm|] eqn:Ectl; [|discriminate].
  destruct (headq (if lk' then map (fun _ => NULL_SPD) spd1 else spd1)) as [spd0'|] eqn:Eh'; [|discriminate].
  destruct (motor_torque (c_motor c) spd0' pwm) as [d0|] eqn:Ed0; [|discriminate].
  destruct (drive_prop (c_elems c) d0) as [dtq|] eqn:Edtq; [|discriminate].
  destruct (map2r q_sub dtq ltq) as [tq|] eqn:Etq; [|discriminate].
  destruct (if lk' then Ok (map (fun _ => NULL_ACC) spd1) else _) as [acc|] eqn:Eacc; [|discriminate].
  destruct (motor_current (c_motor c) d0 pwm) as [cur|] eqn:Ecur; [|discriminate].
  injection H as <- <-. cbn [s_locked]. split; [reflexivity|].
  constructor; cbn [s_pos s_spd s_acc s_tq s_dtq s_ltq s_pwm s_cur s_locked s_lock_prev s_pwm_in s_tq0_in s_dt].
  - exact Epos.
  - exists spd1, spd0. auto.
  - exists pl, sl, lt. auto.
  - exists ltq0. auto.
  - exists spd0', d0. auto.
  - exact Etq.
  - destruct lk'.
    + exists spd1. split; [exact Espd|]. injection Eacc as <-. reflexivity.
    + destruct (lastq tq) as [tl|] eqn:Etl; [|discriminate]. destruct (q_divq tl J) as [a|] eqn:Ea; [|discriminate].
      exists tl, a. auto.
  - auto.
Qed.

(** ** the lock decision (C13) *)
Lemma lock_decision_spec (c : chain) pwm spd0 tq0 locked lk : lock_decision c pwm spd0 tq0 locked = Ok lk ->
  (c_selflock c = false -> locked = false -> lk = false) /\
  (c_selflock c = true -> eqb pwm zero = true -> lk = true) /\
  (lk = false -> c_selflock c = true ->
      eqb pwm zero = false /\
      (ltb zero pwm = true -> q_lt spd0 NULL_SPD = Ok false) /\
      (ltb pwm zero = true -> q_gt spd0 NULL_SPD = Ok false)) /\
  (locked = true -> lk = false ->
      exists t, tq0 = Some t /\ ((q_gt t NULL_TQ = Ok true /\ ltb zero pwm = true) \/ (q_lt t NULL_TQ = Ok true /\ ltb pwm zero = true))) /\
  (locked = false -> lk = true -> c_selflock c = true).
Proof.
  unfold lock_decision, orr, andr, bind. intros H.
  destruct (c_selflock c) eqn:Esl; destruct (eqb pwm zero) eqn:Ez; destruct (ltb zero pwm) eqn:Ep; destruct (ltb pwm zero) eqn:En;
  destruct (q_lt spd0 NULL_SPD) as [[|]|] eqn:E1; destruct (q_gt spd0 NULL_SPD) as [[|]|] eqn:E2;
  (destruct tq0 as [t|]; [destruct (q_gt t NULL_TQ) as [[|]|] eqn:E3; destruct (q_lt t NULL_TQ) as [[|]|] eqn:E4|]);
  try discriminate H;
  injection H as <-; repeat split; intros; subst; try discriminate; try reflexivity; auto;
  try (eexists; split; [reflexivity|]; auto).
Qed.

(** ** histories *)
Section Hist.
Variable c : chain.
Variable load : qty -> qty -> qty -> res qty.

(** the recorded instant [s] at time [t] was computed by [instant] from the live values [v] *)
Definition snap_from (t : qty) (v : live) (s : snap) : Prop :=
  exists ctl J f locked prov, equivalent_inertia c = Ok J /\ (c_selflock c = false -> locked = false) /\ instant_facts c load ctl J t f v locked prov s.

Definition same_but_pwm (a b : @live A) : Prop :=
  v_pos_last a = v_pos_last b /\ v_spd_last a = v_spd_last b /\ v_acc_last a = v_acc_last b /\ v_tq0 a = v_tq0 b /\ v_cur a = v_cur b.

(** [s] follows [s1] by one step [dt]: its live inputs are the integration of what [s1] left *)
Definition stepped (dt : qty) (s1 : snap) (t : qty) (s : snap) : Prop :=
  exists v1 v1' v, live_of s1 = Ok v1 /\ same_but_pwm v1 v1' /\ integrate v1' dt = Ok v /\ snap_from t v s.

Inductive hist_ok : list (qty * snap) -> Prop :=
  | ho_nil : hist_ok []
  | ho_first t s v : s_dt s = None -> snap_from t v s -> hist_ok [(t, s)]
  | ho_step t s t1 s1 h dt : s_dt s = Some dt -> stepped dt s1 t s -> hist_ok ((t1, s1) :: h) -> hist_ok ((t, s) :: (t1, s1) :: h).

Definition Inv (st : @sys A) : Prop :=
  hist_ok (y_hist st) /\
  match y_hist st with (_, s) :: _ => exists v1, live_of s = Ok v1 /\ same_but_pwm v1 (y_live st) | [] => True end /\
  (c_selflock c = false -> y_locked st = false).

Lemma same_but_pwm_refl v : same_but_pwm v v. Proof. repeat split. Qed.

Lemma record_instant_inv ctl J t v st prov st' s :
  record_instant c load ctl J t v st prov = Ok (st', s) ->
  y_hist st' = (t, s) :: y_hist st /\ live_of s = Ok (y_live st') /\ y_locked st' = s_locked s /\
  instant_facts c load ctl J t (first_ltq0_of (y_hist st)) v (y_locked st) prov s.
Proof.
  unfold record_instant, bind. intros H.
  destruct (instant c load ctl J t (first_ltq0_of (y_hist st)) v (y_locked st) prov) as [[s0 lk]|] eqn:Ei; [|discriminate].
  destruct (live_of s0) as [v'|] eqn:El; [|discriminate]. injection H as <- <-.
  destruct (instant_inv _ _ _ _ _ _ _ _ _ _ _ Ei) as [-> Hf]. cbn. auto.
Qed.

Lemma instant_unlocked ctl J t f v locked prov s :
  instant_facts c load ctl J t f v locked prov s -> c_selflock c = false -> locked = false -> s_locked s = false.
Proof.
  intros Hf Hsl Hl. destruct (if_spd1 _ _ _ _ _ _ _ _ _ _ Hf) as (spd1 & spd0 & _ & _ & Hd & _).
  destruct (lock_decision_spec _ _ _ _ _ _ Hd) as (H1 & _). auto.
Qed.

Lemma loop_inv ctl stop J dt ts st st' :
  equivalent_inertia c = Ok J -> Inv st -> y_hist st <> [] ->
  loop c load ctl stop J dt ts st = Ok st' -> Inv st' /\ y_hist st' <> [].
Proof.
  intros HJ. revert st. induction ts as [|t ts IH]; cbn [loop]; intros st HI Hne H.
  - injection H as <-. auto.
  - unfold bind in H. destruct (integrate (y_live st) dt) as [v|] eqn:Eint; [|discriminate].
    destruct (record_instant c load ctl J t v st (Some dt)) as [[st1 s]|] eqn:Er; [|discriminate].
    destruct (record_instant_inv _ _ _ _ _ _ _ _ Er) as (Hh & Hl & Hk & Hf).
    assert (HI1 : Inv st1 /\ y_hist st1 <> []).
    { destruct HI as (Hho & Hlive & Hsl). split; [|rewrite Hh; discriminate].
      unfold Inv. rewrite Hh. split; [|split].
      - destruct (y_hist st) as [|[t1 s1] h] eqn:Eh; [contradiction|].
        destruct Hlive as (v1 & Hv1 & Hsame).
        eapply ho_step; [exact (proj2 (proj2 (proj2 (if_ghost _ _ _ _ _ _ _ _ _ _ Hf))))| |exact Hho].
        exists v1, (y_live st), v. repeat split; try assumption; try apply Hsame.
        exists ctl, J, (first_ltq0_of ((t1, s1) :: h)), (y_locked st), (Some dt). split; [exact HJ|]. split; [exact Hsl|exact Hf].
      - exists (y_live st1). split; [exact Hl|apply same_but_pwm_refl].
      - intros Hc. rewrite Hk. eapply instant_unlocked; eauto. }
    destruct HI1 as [HI1 Hne1].
    destruct (match stop with Some sc => stop_check sc s | None => Ok false end) as [[|]|]; [|eapply IH; eauto|discriminate].
    injection H as <-. auto.
Qed.

Lemma run_inv ctl stop dt T st st' : Inv st -> run c load ctl stop dt T st = Ok st' -> Inv st' /\ y_hist st' <> [].
Proof.
  unfold run, bind. intros HI H.
  destruct (q_ge dt T) as [[|]|]; try discriminate.
  destruct (equivalent_inertia c) as [J|] eqn:EJ; [|discriminate].
  destruct (y_hist st) as [|[tl sl] h] eqn:Eh.
  - destruct (q_new KTime zero (qu dt)) as [t0|]; [|discriminate].
    destruct (record_instant c load ctl J t0 (y_live st) {| y_hist := []; y_live := y_live st; y_locked := false |} None) as [[st0 s]|] eqn:Er; [|discriminate].
    cbn [fst] in H. destruct (q_ratio T dt) as [x|]; [|discriminate].
    destruct (record_instant_inv _ _ _ _ _ _ _ _ Er) as (Hh & Hl & Hk & Hf). cbn [y_hist y_locked] in *.
    eapply loop_inv; [exact EJ| |rewrite Hh; discriminate|exact H].
    unfold Inv. rewrite Hh. split; [|split].
    + eapply ho_first; [exact (proj2 (proj2 (proj2 (if_ghost _ _ _ _ _ _ _ _ _ _ Hf))))|].
      exists ctl, J, None, false, None. split; [exact EJ|]. split; [reflexivity|exact Hf].
    + exists (y_live st0). split; [exact Hl|apply same_but_pwm_refl].
    + intros Hc. rewrite Hk. eapply instant_unlocked; eauto.
  - destruct (q_to tl (qu dt)) as [t0|]; [|discriminate]. destruct (q_ratio T dt) as [x|]; [|discriminate].
    eapply loop_inv; [exact EJ|exact HI|rewrite Eh; discriminate|exact H].
Qed.

Lemma step_op_inv o st st' : Inv st -> step_op c load st o = Ok st' -> Inv st'.
Proof.
  intros HI H. destruct o as [dt T ctl stop| | |p w|x]; cbn [step_op] in H.
  - eapply run_inv; eauto.
  - unfold reset in H. destruct (rev (y_hist st)) as [|[t s] r]; [discriminate|]. unfold bind in H.
    destruct (live_of s); [|discriminate]. injection H as <-. destruct HI as (_ & _ & Hsl).
    unfold Inv; cbn. split; [constructor|split; [exact I|exact Hsl]].
  - injection H as <-. destruct HI as (Hh & Hl & _). unfold Inv, new_solver; cbn. auto.
  - destruct (y_hist st) eqn:Eh; [|discriminate]. injection H as <-. destruct HI as (_ & _ & Hsl).
    unfold Inv; cbn. split; [constructor|split; [exact I|exact Hsl]].
  - unfold bind in H. destruct (set_pwm x) as [p|]; [|discriminate]. injection H as <-.
    destruct HI as (Hh & Hl & Hsl). unfold Inv; cbn. split; [exact Hh|split; [|exact Hsl]].
    destruct (y_hist st) as [|[t s] h]; [exact I|]. destruct Hl as (v1 & Hv & Hs). exists v1. split; [exact Hv|].
    unfold same_but_pwm, with_pwm in *; cbn. exact Hs.
Qed.

Theorem exec_inv ops st st' : Inv st -> exec c load ops st = Ok st' -> Inv st'.
Proof.
  revert st. induction ops as [|o ops IH]; cbn [exec]; intros st HI H.
  - injection H as <-. exact HI.
  - unfold bind in H. destruct (step_op c load st o) as [st1|] eqn:E; [|discriminate].
    eapply IH; [eapply step_op_inv; eauto|exact H].
Qed.
Lemma initial_inv p w : Inv (initial p w).
Proof. unfold Inv, initial; cbn. split; [constructor|auto]. Qed.

(** every recorded instant of every reachable state *)
Lemma hist_ok_in h t s : hist_ok h -> In (t, s) h -> exists v, snap_from t v s.
Proof.
  induction 1 as [|t0 s0 v Hd Hs|t0 s0 t1 s1 h dt Hd Hst Hh IH]; intros Hin.
  - destruct Hin.
  - destruct Hin as [E|[]]. injection E as <- <-. eauto.
  - destruct Hin as [E|Hin]; [|auto]. injection E as <- <-. destruct Hst as (v1 & v1' & v & _ & _ & _ & Hs). eauto.
Qed.

Lemma hist_ok_adjacent h pre t s t1 s1 post :
  hist_ok h -> h = (pre ++ (t, s) :: (t1, s1) :: post)%list -> exists dt, s_dt s = Some dt /\ stepped dt s1 t s.
Proof.
  intros Hh. revert pre. induction Hh as [|t0 s0 v Hd Hs|t0 s0 t2 s2 h dt Hd Hst Hh IH]; intros pre E.
  - destruct pre; discriminate.
  - destruct pre as [|x [|y pre]]; discriminate.
  - destruct pre as [|x pre].
    + cbn in E. injection E as <- <- <- <- <-. eauto.
    + cbn in E. injection E as _ E. eapply IH; eauto.
Qed.
Lemma hist_ok_first h pre t s : hist_ok h -> h = (pre ++ [(t, s)])%list -> s_dt s = None.
Proof.
  intros Hh. revert pre. induction Hh as [|t0 s0 v Hd Hs|t0 s0 t2 s2 h dt Hd Hst Hh IH]; intros pre E.
  - destruct pre; discriminate.
  - destruct pre as [|x [|y pre]]; try discriminate. cbn in E. injection E as <- <-. exact Hd.
  - destruct pre as [|x pre]; [discriminate|]. cbn in E. injection E as _ E. eapply IH; eauto.
Qed.

(** *** C01: kinematic coupling at every recorded instant *)
Definition kin_ok (s : snap) : Prop :=
  linked q_rmul (ratios c) (s_pos s) /\
  (s_locked s = false -> linked q_rmul (ratios c) (s_spd s) /\ linked q_rmul (ratios c) (s_acc s)) /\
  (s_locked s = true -> Forall (eq NULL_SPD) (s_spd s) /\ Forall (eq NULL_ACC) (s_acc s) /\
                        length (s_spd s) = length (s_pos s) /\ length (s_acc s) = length (s_pos s)).
Lemma Forall_map_const (X : Type) (f : X -> qty) k l : (forall y, f y = k) -> Forall (eq k) (map f l).
Proof. intros Hf. induction l; cbn; constructor; auto. Qed.
Lemma snap_from_kin t v s : snap_from t v s -> kin_ok s.
Proof.
  intros (ctl & J & f & locked & prov & _ & _ & Hf). unfold kin_ok.
  destruct (back_prop_spec _ _ _ (if_pos _ _ _ _ _ _ _ _ _ _ Hf)) as (Hlp & _ & Hnp).
  destruct (if_spd1 _ _ _ _ _ _ _ _ _ _ Hf) as (spd1 & spd0 & Hb & _ & _ & Hs).
  destruct (back_prop_spec _ _ _ Hb) as (Hls & _ & Hns).
  generalize (if_acc _ _ _ _ _ _ _ _ _ _ Hf). destruct (s_locked s) eqn:El; intros Ha.
  - split; [exact Hlp|]. split; [discriminate|]. intros _. destruct Ha as (spd1' & Hb' & Hacc). rewrite Hb in Hb'. injection Hb' as <-.
    rewrite Hs, Hacc. repeat split; try (apply Forall_map_const; reflexivity); rewrite map_length; congruence.
  - split; [exact Hlp|]. split; [|discriminate]. intros _. destruct Ha as (tl & a & _ & _ & Hb').
    rewrite Hs. split; [exact Hls|]. apply (back_prop_spec _ _ _ Hb').
Qed.
Theorem reachable_kin ops p w st t s : exec c load ops (initial p w) = Ok st -> In (t, s) (y_hist st) -> kin_ok s.
Proof.
  intros He Hin. destruct (exec_inv _ _ _ (initial_inv p w) He) as (Hh & _).
  destruct (hist_ok_in _ _ _ Hh Hin) as (v & Hs). eapply snap_from_kin; eauto.
Qed.

(** *** C02: torque propagation and balance at every recorded instant *)
Definition torque_ok (t : qty) (s : snap) : Prop :=
  (exists spd0 d0, headq (s_spd s) = Ok spd0 /\ motor_torque (c_motor c) spd0 (s_pwm s) = Ok d0 /\
                   headq (s_dtq s) = Ok d0 /\ drive_linked (c_elems c) (s_dtq s)) /\
  (exists pl sl lt, lastq (s_pos s) = Ok pl /\ lastq (s_spd s) = Ok sl /\ load t pl sl = Ok lt /\
                   lastq (s_ltq s) = Ok lt /\ load_linked (c_elems c) (s_ltq s)) /\
  pointwise q_sub (s_dtq s) (s_ltq s) (s_tq s).
Lemma snap_from_torque t v s : snap_from t v s -> torque_ok t s.
Proof.
  intros (ctl & J & f & locked & prov & _ & _ & Hf). unfold torque_ok. split; [|split].
  - destruct (if_drive _ _ _ _ _ _ _ _ _ _ Hf) as (spd0 & d0 & Hh & Hm & Hd & _).
    destruct (drive_prop_spec _ _ _ Hd) as (Hl & Hh2 & _). exists spd0, d0. auto.
  - destruct (if_load _ _ _ _ _ _ _ _ _ _ Hf) as (pl & sl & lt & Hp & Hs & Hl & Hlp).
    destruct (load_prop_spec _ _ _ Hlp) as (Hll & Hx & _). exists pl, sl, lt. auto.
  - apply map2r_spec. exact (if_net _ _ _ _ _ _ _ _ _ _ Hf).
Qed.
Theorem reachable_torque ops p w st t s : exec c load ops (initial p w) = Ok st -> In (t, s) (y_hist st) -> torque_ok t s.
Proof.
  intros He Hin. destruct (exec_inv _ _ _ (initial_inv p w) He) as (Hh & _).
  destruct (hist_ok_in _ _ _ Hh Hin) as (v & Hs). eapply snap_from_torque; eauto.
Qed.

(** *** C03: equation of motion and the time-step update *)
Definition motion_ok (s : snap) : Prop :=
  s_locked s = false -> exists J tl a, equivalent_inertia c = Ok J /\ lastq (s_tq s) = Ok tl /\ q_divq tl J = Ok a /\ lastq (s_acc s) = Ok a.
Lemma snap_from_motion t v s : snap_from t v s -> motion_ok s.
Proof.
  intros (ctl & J & f & locked & prov & HJ & _ & Hf) Hl. generalize (if_acc _ _ _ _ _ _ _ _ _ _ Hf). rewrite Hl.
  intros (tl & a & Ht & Ha & Hb). exists J, tl, a. repeat split; auto. apply (back_prop_spec _ _ _ Hb).
Qed.
Definition step_ok (dt : qty) (s1 s : snap) : Prop :=
  exists a1 w1 p1 dv w' dp p',
    lastq (s_acc s1) = Ok a1 /\ lastq (s_spd s1) = Ok w1 /\ lastq (s_pos s1) = Ok p1 /\
    q_mulq a1 dt = Ok dv /\ q_add w1 dv = Ok w' /\ q_mulq w' dt = Ok dp /\ q_add p1 dp = Ok p' /\
    lastq (s_pos s) = Ok p' /\ lastq (s_spd s) = Ok (if s_locked s then NULL_SPD else w').
Lemma stepped_step_ok dt s1 t s : stepped dt s1 t s -> step_ok dt s1 s.
Proof.
  intros (v1 & v1' & v & Hl & (Hp & Hw & Ha & _) & Hi & (ctl & J & f & locked & prov & _ & _ & Hf)).
  unfold live_of, bind in Hl.
  destruct (lastq (s_pos s1)) as [p1|] eqn:Ep1; [|discriminate]. destruct (lastq (s_spd s1)) as [w1|] eqn:Ew1; [|discriminate].
  destruct (lastq (s_acc s1)) as [a1|] eqn:Ea1; [|discriminate]. destruct (headq (s_tq s1)); [|discriminate]. injection Hl as <-.
  cbn in Hp, Hw, Ha. unfold integrate, bind in Hi. rewrite <- Ha in Hi.
  destruct (q_mulq a1 dt) as [dv|] eqn:Edv; [|discriminate]. rewrite <- Hw in Hi. destruct (q_add w1 dv) as [w'|] eqn:Ew'; [|discriminate].
  destruct (q_mulq w' dt) as [dp|] eqn:Edp; [|discriminate]. rewrite <- Hp in Hi. destruct (q_add p1 dp) as [p'|] eqn:Ep'; [|discriminate].
  injection Hi as <-. exists a1, w1, p1, dv, w', dp, p'. repeat split; auto.
  - apply (back_prop_spec _ _ _ (if_pos _ _ _ _ _ _ _ _ _ _ Hf)).
  - destruct (if_spd1 _ _ _ _ _ _ _ _ _ _ Hf) as (spd1 & spd0 & Hb & _ & _ & Hs). cbn in Hb.
    destruct (back_prop_spec _ _ _ Hb) as (_ & Hlast & _). rewrite Hs. destruct (s_locked s); [|exact Hlast].
    eapply lastq_map_const; [exact Hlast|reflexivity].
Qed.
Theorem reachable_motion ops p w st t s : exec c load ops (initial p w) = Ok st -> In (t, s) (y_hist st) -> motion_ok s.
Proof.
  intros He Hin. destruct (exec_inv _ _ _ (initial_inv p w) He) as (Hh & _).
  destruct (hist_ok_in _ _ _ Hh Hin) as (v & Hs). eapply snap_from_motion; eauto.
Qed.
Theorem reachable_step ops p w st pre t s t1 s1 post : exec c load ops (initial p w) = Ok st ->
  y_hist st = (pre ++ (t, s) :: (t1, s1) :: post)%list -> exists dt, s_dt s = Some dt /\ step_ok dt s1 s.
Proof.
  intros He E. destruct (exec_inv _ _ _ (initial_inv p w) He) as (Hh & _).
  destruct (hist_ok_adjacent _ _ _ _ _ _ _ Hh E) as (dt & Hd & Hst). exists dt. split; [exact Hd|]. eapply stepped_step_ok; eauto.
Qed.

(** *** C13: a self-locking powertrain is never driven by its load *)
Definition lock_ok (s : snap) : Prop :=
  (c_selflock c = false -> s_locked s = false) /\
  (c_selflock c = true -> eqb (s_pwm_in s) zero = true -> s_locked s = true) /\
  (s_locked s = true -> Forall (eq NULL_SPD) (s_spd s) /\ Forall (eq NULL_ACC) (s_acc s)) /\
  (s_locked s = false -> c_selflock c = true -> forall spd0, headq (s_spd s) = Ok spd0 ->
      eqb (s_pwm_in s) zero = false /\
      (ltb zero (s_pwm_in s) = true -> q_lt spd0 NULL_SPD = Ok false) /\
      (ltb (s_pwm_in s) zero = true -> q_gt spd0 NULL_SPD = Ok false)) /\
  (s_lock_prev s = true -> s_locked s = false ->
      exists tq, s_tq0_in s = Some tq /\
        ((q_gt tq NULL_TQ = Ok true /\ ltb zero (s_pwm_in s) = true) \/ (q_lt tq NULL_TQ = Ok true /\ ltb (s_pwm_in s) zero = true))).
Lemma snap_from_lock t v s : snap_from t v s -> lock_ok s.
Proof.
  intros Hsf. assert (Hk := snap_from_kin _ _ _ Hsf). destruct Hsf as (ctl & J & f & locked & prov & _ & Hnl & Hf).
  destruct (if_spd1 _ _ _ _ _ _ _ _ _ _ Hf) as (spd1 & spd0 & Hb & Hh & Hd & Hs).
  destruct (if_ghost _ _ _ _ _ _ _ _ _ _ Hf) as (Hg1 & Hg2 & Hg3 & _).
  destruct (lock_decision_spec _ _ _ _ _ _ Hd) as (H1 & H2 & H3 & H4 & H5). unfold lock_ok.
  rewrite Hg1, Hg2, Hg3. split; [|split; [|split; [|split]]].
  - intros Hc. apply H1; auto.
  - exact H2.
  - intros Hl. split; apply Hk; assumption.
  - intros Hl Hc spd0' Hh'. rewrite Hs, Hl in Hh'. rewrite Hh in Hh'. injection Hh' as <-. apply H3; auto.
  - exact H4.
Qed.
Theorem reachable_lock ops p w st t s : exec c load ops (initial p w) = Ok st -> In (t, s) (y_hist st) -> lock_ok s.
Proof.
  intros He Hin. destruct (exec_inv _ _ _ (initial_inv p w) He) as (Hh & _).
  destruct (hist_ok_in _ _ _ Hh Hin) as (v & Hs). eapply snap_from_lock; eauto.
Qed.
(** the net torque consulted when motion resumes is the one recorded at the previous instant *)
Lemma stepped_tq0 dt s1 t s : stepped dt s1 t s -> exists tq, headq (s_tq s1) = Ok tq /\ s_tq0_in s = Some tq.
Proof.
  intros (v1 & v1' & v & Hl & (_ & _ & _ & Ht & _) & Hi & (ctl & J & f & locked & prov & _ & _ & Hf)).
  unfold live_of, bind in Hl.
  destruct (lastq (s_pos s1)); [|discriminate]. destruct (lastq (s_spd s1)); [|discriminate].
  destruct (lastq (s_acc s1)); [|discriminate]. destruct (headq (s_tq s1)) as [tq|]; [|discriminate]. injection Hl as <-.
  exists tq. split; [reflexivity|]. destruct (if_ghost _ _ _ _ _ _ _ _ _ _ Hf) as (_ & _ & -> & _).
  unfold integrate, bind in Hi. destruct (v_acc_last v1'); [|discriminate].
  destruct (q_mulq _ dt); [|discriminate]. destruct (q_add (v_spd_last v1') _); [|discriminate].
  destruct (q_mulq _ dt); [|discriminate]. destruct (q_add (v_pos_last v1') _); [|discriminate]. injection Hi as <-. cbn. symmetry. exact Ht.
Qed.
End Hist.
End Proofs.
