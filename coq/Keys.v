(** * Keys: which time variables an element advertises and which ones a computed instant appends to (C17).
    A finite model: element kind x optional data x mating role x the mate's data.  No arithmetic. *)
From Coq Require Import String List Bool.
From GP Require Import ArithDef Relations.
Import ListNotations.
Open Scope string_scope. Open Scope list_scope.

Record kcfg := { k_kind : ekind;
                 k_module : bool; k_face : bool; k_emod : bool;       (* gear: module, face_width, elastic_modulus given *)
                 k_dref : bool;                                        (* worm gear: reference_diameter given *)
                 k_cur : bool;                                         (* motor: both currents given *)
                 k_role : option role;                                 (* mating role, if a mating was declared *)
                 k_mate_dref : bool; k_mate_module : bool; k_mate_emod : bool }.   (* data of the mate *)

Definition base_keys : list string :=
  ["angular position"; "angular speed"; "angular acceleration"; "torque"; "driving torque"; "load torque"].

(** the flags *)
Definition force_flag (c : kcfg) : bool :=
  match k_kind c with EWorm => k_dref c | ESpur | EHelical | EWheel => k_module c | _ => false end.
Definition has_emod (c : kcfg) : bool := match k_kind c with EWheel => false | _ => k_emod c end.   (* a worm wheel passes elastic_modulus=None *)
Definition bend_flag (c : kcfg) : bool :=
  match k_kind c with
  | ESpur | EHelical => k_module c && k_face c
  | EWheel => k_module c && k_face c && match k_role c with Some _ => k_mate_dref c | None => true end
  | _ => false end.
Definition contact_flag (c : kcfg) : bool :=
  match k_kind c with ESpur | EHelical | EWheel => k_module c && k_face c && has_emod c | _ => false end.

(** keys present right after construction (dictionary order) *)
Definition ctor_keys (c : kcfg) : list string :=
  base_keys ++
  match k_kind c with
  | EMotor => if k_cur c then ["electric current"] else []
  | EWorm => if k_dref c then ["tangential force"] else []
  | ESpur | EHelical | EWheel =>
      if k_module c then "tangential force" ::
        (if k_face c then "bending stress" :: (if has_emod c then ["contact stress"] else []) else [])
      else []
  | EFly => []
  end.
(** keys present once an instant has been recorded (the motor's 'pwm' list is created by the first update) *)
Definition advertised (c : kcfg) : list string :=
  ctor_keys c ++ match k_kind c with EMotor => ["pwm"] | _ => [] end.
(** keys one call of update_time_variables appends to *)
Definition appended (c : kcfg) : list string :=
  base_keys ++
  match k_kind c with
  | EMotor => (if k_cur c then ["electric current"] else []) ++ ["pwm"]
  | EWorm => if force_flag c then ["tangential force"] else []
  | ESpur | EHelical | EWheel =>
      if force_flag c then "tangential force" ::
        (if bend_flag c then "bending stress" :: (if contact_flag c then ["contact stress"] else []) else [])
      else []
  | EFly => []
  end.
(** does computing the instant raise?  (force on a gear with data but no mating; contact stress with a mate lacking module or modulus) *)
Definition instant_raises (c : kcfg) : bool :=
  force_flag c && match k_role c with None => true | Some _ => false end
  || (force_flag c && bend_flag c && contact_flag c && negb (k_mate_module c && k_mate_emod c)).

(** the one cell where advertised and appended keys differ (finding D13) *)
Definition d13_cell (c : kcfg) : bool :=
  match k_kind c, k_role c with EWheel, Some _ => k_module c && k_face c && negb (k_mate_dref c) | _, _ => false end.

Lemma keys_agree (c : kcfg) : d13_cell c = false -> appended c = advertised c.
Proof.
  destruct c as [k m f e d cu r md mm me]. unfold d13_cell, appended, advertised, ctor_keys, force_flag, bend_flag, contact_flag, has_emod; cbn.
  destruct k, m, f, e, d, cu, r as [[|]|], md; cbn; intros H; try discriminate; reflexivity.
Qed.
Lemma keys_d13 (c : kcfg) : d13_cell c = true ->
  advertised c = base_keys ++ ["tangential force"; "bending stress"] /\ appended c = base_keys ++ ["tangential force"].
Proof.
  destruct c as [k m f e d cu r md mm me]. unfold d13_cell, appended, advertised, ctor_keys, force_flag, bend_flag, contact_flag, has_emod; cbn.
  destruct k, r as [[|]|]; cbn; try discriminate; destruct m, f, md; cbn; intros H; try discriminate; split; reflexivity.
Qed.
