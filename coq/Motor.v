(** * Motor: DCMotor.compute_torque and compute_electric_current, operation for operation (no proofs here). *)
From Coq Require Import ZArith QArith String List Bool PrimFloat.
From GP Require Import ArithDef UnitsCore PyUnits QOps.
Import ListNotations.
Open Scope string_scope.

Section Motor.
Context {A : Arith}.
Notation qty := (qty A).

Record motor := { m_w0 : qty; m_Tmax : qty; m_i0 : option qty; m_imax : option qty }.

Definition has_currents (m : motor) : bool := match m_i0 m, m_imax m with Some _, Some _ => true | _, _ => false end.

(** DCMotor.compute_torque: the driving torque at motor speed [spd] and duty cycle [pwm] *)
Definition motor_torque (m : motor) (spd : qty) (pwm : num A) : res qty :=
  match m_i0 m, m_imax m with
  | Some i0, Some imax =>
      pmin <- q_ratio i0 imax ;;
      if leb (absn pwm) pmin then q_new KTorque zero (qu (m_Tmax m))
      else
        num_q <- (if ltb pmin pwm
                  then (a <- q_rmul pwm imax ;; q_sub a i0)
                  else (a <- q_rmul pwm imax ;; q_add a i0)) ;;
        den_q <- q_sub imax i0 ;;
        k <- q_ratio num_q den_q ;;
        mt <- q_muln (m_Tmax m) k ;;
        nls <- q_rmul pwm (m_w0 m) ;;
        r <- q_ratio spd nls ;;
        q_new KTorque (mul (sub one r) (qv mt)) (qu (m_Tmax m))
  | _, _ =>
      r <- q_ratio spd (m_w0 m) ;;
      q_new KTorque (mul (sub one r) (qv (m_Tmax m))) (qu (m_Tmax m))
  end.

(** DCMotor.compute_electric_current (as repaired by the D8 fix commit): from the driving torque just computed *)
Definition motor_current (m : motor) (dtq : qty) (pwm : num A) : res (option qty) :=
  match m_i0 m, m_imax m with
  | Some i0, Some imax =>
      pmin <- q_ratio i0 imax ;;
      if leb (absn pwm) pmin then
        if eqb pmin zero then c <- q_new KCurrent zero (qu imax) ;; Ok (Some c)
        else
          x <- pydiv pwm pmin ;;
          i0c <- q_to i0 (qu imax) ;;
          c <- q_rmul x i0c ;; Ok (Some c)
      else
        nl <- (if ltb pmin pwm then Ok i0 else q_neg i0) ;;
        span <- q_sub imax i0 ;;
        k <- q_ratio dtq (m_Tmax m) ;;
        a <- q_muln span k ;;
        b <- q_add a nl ;;
        c <- q_new KCurrent (qv b) (qu imax) ;; Ok (Some c)
  | _, _ => Ok None
  end.
End Motor.
