(** * Solver: gearpy.solver.Solver, the motor-control rules, sensors and stop condition, operation for operation.

    Generic in the arithmetic [A]; every quantity operation is a call into the regenerated description of gearpy/units
    (QOps).  No proofs here, so that the model still evaluates when a proof breaks. *)
From Coq Require Import ZArith QArith String List Bool PrimFloat.
From GP Require Import ArithDef UnitsCore PyUnits QOps Motor.
Import ListNotations.
Open Scope string_scope.

Section Solver.
Context {A : Arith}.
Notation qty := (qty A).
Notation motor := (@motor A).

(** ** static data of an assembled powertrain *)
Record elem := { e_ratio : num A; e_eff : num A; e_J : qty; e_spur : bool }.   (* element i >= 1: master_gear_ratio, master_gear_efficiency, inertia, isinstance(SpurGear) *)
Record chain := { c_motor : motor; c_J0 : qty; c_elems : list elem; c_selflock : bool }.

(** ** one recorded instant *)
Record snap := { s_pos : list qty; s_spd : list qty; s_acc : list qty;
                 s_tq : list qty; s_dtq : list qty; s_ltq : list qty;
                 s_pwm : num A; s_cur : option qty;
                 s_locked : bool;                                      (* ghost: the solver's private flag after the lock test *)
                 s_lock_prev : bool;                                   (* ghost: the flag before the lock test *)
                 s_pwm_in : num A;                                     (* ghost: the duty cycle in force when the instant was computed *)
                 s_tq0_in : option qty;                                (* ghost: the motor's net torque attribute at the lock test *)
                 s_dt : option qty }.                                  (* ghost: None = first instant of a fresh simulation, Some dt = reached by one step dt *)

(** the live attributes the next instant reads *)
Record live := { v_pos_last : qty; v_spd_last : qty; v_acc_last : option qty; v_tq0 : option qty;
                 v_cur : option qty; v_pwm : num A }.
Record sys := { y_hist : list (qty * snap);       (* newest first: (time, recorded values) *)
                y_live : live; y_locked : bool }.

(** ** user-supplied pieces *)
Inductive loadexpr := LoadAffine (c0 ct cp cs : num A) (u : string).   (* Torque(c0 + ct*t[s] + cp*pos[rad] + cs*spd[rad/s], u) *)
Definition eval_load (l : loadexpr) (t pos spd : qty) : res qty :=
  match l with
  | LoadAffine c0 ct cp cs u =>
      ts <- q_to t "sec" ;; ps <- q_to pos "rad" ;; ss <- q_to spd "rad/s" ;;
      q_new KTorque (add (add (add c0 (mul ct (qv ts))) (mul cp (qv ps))) (mul cs (qv ss))) u
  end.

Inductive rule :=
  | RConst (start dur : qty) (v : num A)
  | RReach (enc : nat) (target brake : qty)
  | RProp (enc : nat) (target : qty) (mult : num A) (pmin : option (num A))
  | RLim (enc tach : nat) (target ilim : qty).
Inductive sensor := SEncoder (i : nat) | STacho (i : nat) | SAmpere.
Inductive stopop := OpGT | OpGE | OpEQ | OpLT | OpLE.
Record stopcond := { sc_sensor : sensor; sc_threshold : qty; sc_op : stopop }.

(** what a rule can see when control is applied: the instant's time, positions and (post-clamp) speeds, the motor's load torque *)
Record view := { w_time : qty; w_pos : list qty; w_spd : list qty; w_ltq0 : qty; w_first_ltq0 : option qty }.

Definition nthq (l : list qty) (i : nat) : res qty := match nth_error l i with Some q => Ok q | None => Err IndexError end.

Definition spur_eff (c : chain) : num A :=
  fold_left (fun acc e => if e_spur e then mul acc (e_eff e) else acc) (c_elems c) one.

Definition timer_active (start dur t : qty) : res bool :=
  andr (q_ge t start) (d <- q_sub t start ;; q_le d dur).

Definition two : num A := of_Z 2.
Definition half : num A := div one two.

Definition apply_rule (c : chain) (w : view) (r : rule) : res (option (num A)) :=
  let m := c_motor c in
  match r with
  | RConst start dur v => b <- timer_active start dur (w_time w) ;; Ok (if b then Some v else None)
  | RReach enc target brake =>
      p <- nthq (w_pos w) enc ;;
      k <- q_ratio (w_ltq0 w) (m_Tmax m) ;;
      k2 <- pydiv k (spur_eff c) ;;
      ba <- q_new KAngularPosition (qv brake) (qu brake) ;;
      err <- q_rmul k2 ba ;;
      a <- q_sub target brake ;;
      bsa <- q_add a err ;;
      b <- q_ge p bsa ;;
      if b then d <- q_sub p bsa ;; x <- q_ratio d brake ;; Ok (Some (sub one x)) else Ok None
  | RProp enc target mult pmin =>
      match m_i0 m, m_imax m with
      | Some i0, Some imax =>
          p <- nthq (w_pos w) enc ;;
          let l := match w_first_ltq0 w with Some x => x | None => w_ltq0 w end in
          inv <- pydiv one (spur_eff c) ;;
          r1 <- q_ratio l (m_Tmax m) ;;
          sp <- q_sub imax i0 ;;
          r2 <- q_ratio sp imax ;;
          r3 <- q_ratio i0 imax ;;
          let computed := mul mult (add (mul (mul inv r1) r2) r3) in
          pm <- (if negb (eqb computed zero) then Ok computed else match pmin with Some x => Ok x | None => Err ValueError end) ;;
          b <- q_le p target ;;
          if b then q <- q_rmul (sub one pm) p ;; x <- q_ratio q target ;; Ok (Some (add x pm)) else Ok None
      | _, _ => Err TypeError
      end
  | RLim enc tach target ilim =>
      match m_i0 m, m_imax m with
      | Some i0, Some imax =>
          p <- nthq (w_pos w) enc ;;
          sp <- nthq (w_spd w) tach ;;
          s <- q_ratio sp (m_w0 m) ;;
          e <- q_ratio ilim imax ;;
          b <- q_le p target ;;
          if b then
            i2 <- q_rmul two i0 ;;
            dq <- q_sub ilim i2 ;;
            r <- q_ratio dq imax ;;
            let rad := add (add (fsquare s) (fsquare e)) (mul (mul two s) r) in
            Ok (Some (mul half (add (add s e) (sqrtn rad))))
          else Ok None
      | _, _ => Err TypeError
      end
  end.

Fixpoint apply_all (c : chain) (w : view) (rs : list rule) : res (list (option (num A))) :=
  match rs with
  | [] => Ok []
  | r :: rs' => v <- apply_rule c w r ;; vs <- apply_all c w rs' ;; Ok (v :: vs)
  end.
Definition saturate (v : num A) : num A :=
  let x := if ltb v (neg one) then neg one else v in      (* max(v, -1) *)
  if ltb one x then one else x.                            (* min(., 1) *)
Definition somes (l : list (option (num A))) : list (num A) :=
  flat_map (fun o => match o with Some x => [x] | None => [] end) l.
(** the pwm setter of DCMotor (as repaired by the D10 fix commit) *)
Definition set_pwm (p : num A) : res (num A) :=
  if leb (neg one) p && leb p one then Ok p else Err ValueError.
(** PWMControl.apply_rules *)
Definition arbitrate (vals : list (option (num A))) : res (num A) :=
  match somes vals with
  | [] => set_pwm one
  | [v] => set_pwm (saturate v)
  | _ => Err ValueError
  end.
Definition control (c : chain) (ctl : option (list rule)) (w : view) (pwm : num A) : res (num A) :=
  match ctl with
  | None => Ok pwm
  | Some rs => vals <- apply_all c w rs ;; arbitrate vals
  end.

(** ** propagation along the chain *)
(** upstream values from the last element's: l[i] = ratio[i+1] * l[i+1] *)
Fixpoint back_prop (rs : list (num A)) (x : qty) : res (list qty) :=
  match rs with
  | [] => Ok [x]
  | r :: rs' => l <- back_prop rs' x ;;
               match l with y :: _ => z <- q_rmul r y ;; Ok (z :: l) | [] => Err IndexError end
  end.
(** load torque: l[i-1] = l[i] / eff[i] / ratio[i] *)
Fixpoint load_prop (es : list elem) (x : qty) : res (list qty) :=
  match es with
  | [] => Ok [x]
  | e :: es' => l <- load_prop es' x ;;
               match l with y :: _ => a <- q_divn y (e_eff e) ;; b <- q_divn a (e_ratio e) ;; Ok (b :: l) | [] => Err IndexError end
  end.
(** driving torque: l[i] = l[i-1] * eff[i] * ratio[i] *)
Fixpoint drive_prop (es : list elem) (x : qty) : res (list qty) :=
  match es with
  | [] => Ok [x]
  | e :: es' => a <- q_muln x (e_eff e) ;; b <- q_muln a (e_ratio e) ;; l <- drive_prop es' b ;; Ok (x :: l)
  end.
Fixpoint map2r (f : qty -> qty -> res qty) (a b : list qty) : res (list qty) :=
  match a, b with
  | [], [] => Ok []
  | x :: a', y :: b' => z <- f x y ;; l <- map2r f a' b' ;; Ok (z :: l)
  | _, _ => Err IndexError
  end.
Definition lastq (l : list qty) : res qty := match rev l with x :: _ => Ok x | [] => Err IndexError end.
Definition headq (l : list qty) : res qty := match l with x :: _ => Ok x | [] => Err IndexError end.

(** Solver._compute_powertrain_inertia *)
Definition equivalent_inertia (c : chain) : res qty :=
  fold_left (fun acc e => j <- acc ;; j1 <- q_muln j (e_ratio e) ;; q_add j1 (e_J e)) (c_elems c) (Ok (c_J0 c)).

(** Solver._check_powertrain_is_locked: the new value of the flag *)
Definition lock_decision (c : chain) (pwm : num A) (spd0 : qty) (tq0 : option qty) (locked : bool) : res bool :=
  engage <- (if c_selflock c then
               orr (Ok (eqb pwm zero))
                 (orr (andr (Ok (ltb zero pwm)) (q_lt spd0 NULL_SPD))
                      (andr (Ok (ltb pwm zero)) (q_gt spd0 NULL_SPD)))
             else Ok false) ;;
  if engage then Ok true else
  match tq0 with
  | None => Ok locked
  | Some t =>
      release <- orr (andr (q_gt t NULL_TQ) (Ok (ltb zero pwm))) (andr (q_lt t NULL_TQ) (Ok (ltb pwm zero))) ;;
      Ok (if release then false else locked)
  end.

Definition ratios (c : chain) : list (num A) := map e_ratio (c_elems c).

(** ** Solver._compute_powertrain_variables: one instant *)
Definition instant (c : chain) (load : qty -> qty -> qty -> res qty) (ctl : option (list rule))
    (J : qty) (t : qty) (first_ltq0 : option qty) (v : live) (locked : bool) (prov : option qty) : res (snap * bool) :=
  pos <- back_prop (ratios c) (v_pos_last v) ;;
  spd1 <- back_prop (ratios c) (v_spd_last v) ;;
  spd0 <- headq spd1 ;;
  locked' <- lock_decision c (v_pwm v) spd0 (v_tq0 v) locked ;;
  let spd := if locked' then map (fun _ => NULL_SPD) spd1 else spd1 in
  pos_last <- lastq pos ;; spd_last <- lastq spd ;;
  lt <- load t pos_last spd_last ;;
  ltq <- load_prop (c_elems c) lt ;;
  ltq0 <- headq ltq ;;
  pwm <- control c ctl {| w_time := t; w_pos := pos; w_spd := spd; w_ltq0 := ltq0; w_first_ltq0 := first_ltq0 |} (v_pwm v) ;;
  spd0' <- headq spd ;;
  d0 <- motor_torque (c_motor c) spd0' pwm ;;
  dtq <- drive_prop (c_elems c) d0 ;;
  tq <- map2r q_sub dtq ltq ;;
  acc <- (if locked' then Ok (map (fun _ => NULL_ACC) spd1)
          else tl <- lastq tq ;; a <- q_divq tl J ;; back_prop (ratios c) a) ;;
  cur <- motor_current (c_motor c) d0 pwm ;;
  Ok ({| s_pos := pos; s_spd := spd; s_acc := acc; s_tq := tq; s_dtq := dtq; s_ltq := ltq;
         s_pwm := pwm; s_cur := cur; s_locked := locked'; s_lock_prev := locked; s_pwm_in := v_pwm v; s_tq0_in := v_tq0 v; s_dt := prov |}, locked').

Definition live_of (s : snap) : res live :=
  p <- lastq (s_pos s) ;; w <- lastq (s_spd s) ;; a <- lastq (s_acc s) ;; t0 <- headq (s_tq s) ;;
  Ok {| v_pos_last := p; v_spd_last := w; v_acc_last := Some a; v_tq0 := Some t0; v_cur := s_cur s; v_pwm := s_pwm s |}.

(** Solver._time_integration *)
Definition integrate (v : live) (dt : qty) : res live :=
  match v_acc_last v with
  | None => Err TypeError
  | Some a =>
      dv <- q_mulq a dt ;; w <- q_add (v_spd_last v) dv ;;
      dp <- q_mulq w dt ;; p <- q_add (v_pos_last v) dp ;;
      Ok {| v_pos_last := p; v_spd_last := w; v_acc_last := v_acc_last v; v_tq0 := v_tq0 v; v_cur := v_cur v; v_pwm := v_pwm v |}
  end.

Definition first_ltq0_of (h : list (qty * snap)) : option qty :=
  match rev h with (_, s) :: _ => match s_ltq s with x :: _ => Some x | [] => None end | [] => None end.

Definition sensor_value (s : snap) (x : sensor) : res qty :=
  match x with
  | SEncoder i => nthq (s_pos s) i
  | STacho i => nthq (s_spd s) i
  | SAmpere => match s_cur s with Some c => Ok c | None => Err AttributeError end
  end.
Definition stop_check (sc : stopcond) (s : snap) : res bool :=
  v <- sensor_value s (sc_sensor sc) ;;
  match sc_op sc with
  | OpGT => q_gt v (sc_threshold sc) | OpGE => q_ge v (sc_threshold sc) | OpEQ => q_eq v (sc_threshold sc)
  | OpLT => q_lt v (sc_threshold sc) | OpLE => q_le v (sc_threshold sc)
  end.

(** one computed instant at time [t]: compute, record, make the values live *)
Definition record_instant (c : chain) (load : qty -> qty -> qty -> res qty) (ctl : option (list rule)) (J : qty)
    (t : qty) (v : live) (st : sys) (prov : option qty) : res (sys * snap) :=
  r <- instant c load ctl J t (first_ltq0_of (y_hist st)) v (y_locked st) prov ;;
  let (s, lk) := r in
  v' <- live_of s ;;
  Ok ({| y_hist := (t, s) :: y_hist st; y_live := v'; y_locked := lk |}, s).

(** the stepping loop over the grid instants (with the early exit of a stop condition) *)
Fixpoint loop (c : chain) (load : qty -> qty -> qty -> res qty) (ctl : option (list rule)) (stop : option stopcond)
    (J dt : qty) (ts : list qty) (st : sys) : res sys :=
  match ts with
  | [] => Ok st
  | t :: ts' =>
      v <- integrate (y_live st) dt ;;
      r <- record_instant c load ctl J t v st (Some dt) ;;
      let (st1, s) := r in
      halt <- match stop with Some sc => stop_check sc s | None => Ok false end ;;
      if halt then Ok st1 else loop c load ctl stop J dt ts' st1
  end.

(** the time grid of a run (as repaired by the D1/D2 fix commits): t_k = float(t0 + k*dt), k = 1..n, n = round(T/dt) *)
Fixpoint grid_from (t0v dtv : num A) (u : string) (k : Z) (n : nat) : list qty :=
  match n with
  | O => []
  | S n' => {| qk := KTime; qv := add t0v (mul (of_Z k) dtv); qu := u |} :: grid_from t0v dtv u (k + 1)%Z n'
  end.

(** the grid a run steps over, as a function of dt, T and the last recorded instant (None: fresh simulation) *)
Definition run_grid (dt T : qty) (last : option qty) : res (qty * list qty) :=
  t0 <- match last with Some tl => q_to tl (qu dt) | None => q_new KTime zero (qu dt) end ;;
  x <- q_ratio T dt ;;
  Ok (t0, grid_from (qv t0) (qv dt) (qu dt) 1 (Z.to_nat (round_half_even x))).

(** Solver.run *)
Definition run (c : chain) (load : qty -> qty -> qty -> res qty) (ctl : option (list rule)) (stop : option stopcond)
    (dt T : qty) (st : sys) : res sys :=
  ge <- q_ge dt T ;;
  if ge then Err ValueError else
  J <- equivalent_inertia c ;;
  r <- (match y_hist st with
        | (tl, _) :: _ => t0 <- q_to tl (qu dt) ;; Ok (t0, st)
        | [] =>
            t0 <- q_new KTime zero (qu dt) ;;
            r0 <- record_instant c load ctl J t0 (y_live st)
                    {| y_hist := []; y_live := y_live st; y_locked := false |} None ;;
            Ok (t0, fst r0)
        end) ;;
  let (t0, st0) := r in
  x <- q_ratio T dt ;;
  let n := round_half_even x in
  loop c load ctl stop J dt (grid_from (qv t0) (qv dt) (qu dt) 1 (Z.to_nat n)) st0.

(** Powertrain.reset: live attributes go back to the first recorded sample, the history is emptied.
    The solver's private flag is untouched (it belongs to the Solver object). *)
Definition reset (st : sys) : res sys :=
  match rev (y_hist st) with
  | [] => Err IndexError
  | (_, s) :: _ => v <- live_of s ;; Ok {| y_hist := []; y_live := v; y_locked := y_locked st |}
  end.
(** a new Solver object on the same powertrain *)
Definition new_solver (st : sys) : sys := {| y_hist := y_hist st; y_live := y_live st; y_locked := false |}.

Definition initial (pos spd : qty) : sys :=
  {| y_hist := [];
     y_live := {| v_pos_last := pos; v_spd_last := spd; v_acc_last := None; v_tq0 := None; v_cur := None; v_pwm := one |};
     y_locked := false |}.

(** ** operation sequences on one powertrain (what a user script does between and around runs) *)
Inductive sop :=
  | SRun (dt T : qty) (ctl : option (list rule)) (stop : option stopcond)
  | SReset | SNewSolver
  | SSetInit (pos spd : qty)          (* set the last element's position and speed; modelled only on an empty history *)
  | SSetPwm (x : num A).

Definition with_pwm (v : live) (p : num A) : live :=
  {| v_pos_last := v_pos_last v; v_spd_last := v_spd_last v; v_acc_last := v_acc_last v; v_tq0 := v_tq0 v; v_cur := v_cur v; v_pwm := p |}.
Definition step_op (c : chain) (load : qty -> qty -> qty -> res qty) (st : sys) (o : sop) : res sys :=
  match o with
  | SRun dt T ctl stop => run c load ctl stop dt T st
  | SReset => reset st
  | SNewSolver => Ok (new_solver st)
  | SSetInit p w =>
      match y_hist st with
      | [] => let v := y_live st in
              Ok {| y_hist := []; y_locked := y_locked st;
                    y_live := {| v_pos_last := p; v_spd_last := w; v_acc_last := v_acc_last v; v_tq0 := v_tq0 v; v_cur := v_cur v; v_pwm := v_pwm v |} |}
      | _ => Err OutOfFuel                  (* changing the state in the middle of a recorded simulation is outside the model *)
      end
  | SSetPwm x =>
      p <- set_pwm x ;;
      Ok {| y_hist := y_hist st; y_locked := y_locked st; y_live := with_pwm (y_live st) p |}
  end.
Fixpoint exec (c : chain) (load : qty -> qty -> qty -> res qty) (ops : list sop) (st : sys) : res sys :=
  match ops with [] => Ok st | o :: ops' => st1 <- step_op c load st o ;; exec c load ops' st1 end.
End Solver.
