(** * ComponentsR: an accepted component has physical parameters (C19, second clause), and the motor constructor guarantees the
    hypotheses under which the motor characteristic (C08) and the convergence theorem (C04) are stated. *)
From Coq Require Import ZArith QArith Reals Lra Lia String List Bool.
From GP Require Import ArithDef UnitsCore PyUnits RealArith Spec UnitsR UnitsCmp UnitsDim QOps QOpsR Motor Relations Gears Components.
From GP.gen Require Import UnitsGen TablesGen.
Import ListNotations.
Open Scope R_scope.

Ltac step H := unfold bind in H; match type of H with
  | match ?x with Ok _ => _ | Err _ => _ end = Ok _ => let E := fresh "E" in destruct x eqn:E; [|discriminate H] end.

(** ** for every arithmetic: what the checks establish *)
Section Any.
Context {A : Arith}.
Lemma guard_ok b e : @guard b e = Ok tt -> b = false.
Proof. destruct b; [discriminate|reflexivity]. Qed.
Lemma need_q_kind (x : @carg A) k q : need_q x k = Ok q -> x = CQ q /\ is_subkind GEN (qk q) k = true.
Proof. unfold need_q, is_q. destruct x as [q0| | | | |]; try discriminate. destruct (is_subkind GEN (qk q0) k) eqn:E; [|discriminate]. intros H; injection H as <-. auto. Qed.

Theorem motor_ctor_checks name J w0 tmax i0 imax n j (m : @motor A) :
  motor_ctor name J w0 tmax i0 imax = Ok (n, j, m) ->
  n <> ""%string /\ is_subkind GEN (qk j) KInertiaMoment = true /\
  is_subkind GEN (qk (m_w0 m)) KAngularSpeed = true /\ is_subkind GEN (qk (m_Tmax m)) KTorque = true /\
  leb (qv (m_w0 m)) zero = false /\ leb (qv (m_Tmax m)) zero = false /\
  (forall a, m_i0 m = Some a -> is_subkind GEN (qk a) KCurrent = true /\ ltb (qv a) zero = false) /\
  (forall b, m_imax m = Some b -> is_subkind GEN (qk b) KCurrent = true /\ leb (qv b) zero = false) /\
  (forall a b, m_i0 m = Some a -> m_imax m = Some b -> q_ge a b = Ok false).
Proof.
  unfold motor_ctor, rotating_ctor. intros H.
  unfold bind in H.
  destruct (check_name name) as [nm|] eqn:En; [|discriminate]. destruct (need_q J KInertiaMoment) as [jq|] eqn:Ej; [|discriminate].
  destruct (need_q w0 KAngularSpeed) as [w|] eqn:Ew; [|discriminate]. destruct (need_q tmax KTorque) as [t|] eqn:Et; [|discriminate].
  destruct (guard (leb (qv w) zero) ValueError) as [[]|] eqn:G1; [|discriminate]. destruct (guard (leb (qv t) zero) ValueError) as [[]|] eqn:G2; [|discriminate].
  destruct (opt_q i0 KCurrent) as [a|] eqn:Ea; [|discriminate].
  destruct (match a with Some q => guard (ltb (qv q) zero) ValueError | None => Ok tt end) as [[]|] eqn:G3; [|discriminate].
  destruct (opt_q imax KCurrent) as [b|] eqn:Eb; [|discriminate].
  destruct (match b with Some q => guard (leb (qv q) zero) ValueError | None => Ok tt end) as [[]|] eqn:G4; [|discriminate].
  destruct (match a, b with Some x, Some y => match q_ge x y with Ok ge => guard ge ValueError | Err e => Err e end | _, _ => Ok tt end) as [[]|] eqn:G5; [|discriminate].
  cbn [fst snd] in H. injection H as <- <- <-. cbn [m_w0 m_Tmax m_i0 m_imax].
  split. { unfold check_name in En. destruct name; try discriminate. destruct (String.eqb s "") eqn:Es; [discriminate|]. injection En as <-. intros ->. discriminate. }
  split; [exact (proj2 (need_q_kind _ _ _ Ej))|]. split; [exact (proj2 (need_q_kind _ _ _ Ew))|]. split; [exact (proj2 (need_q_kind _ _ _ Et))|].
  split; [exact (guard_ok _ _ G1)|]. split; [exact (guard_ok _ _ G2)|].
  split. { intros a0 ->. unfold opt_q, bind in Ea. destruct i0; try discriminate; destruct (need_q _ KCurrent) eqn:E0 in Ea; try discriminate; injection Ea as <-;
           (split; [exact (proj2 (need_q_kind _ _ _ E0))|exact (guard_ok _ _ G3)]). }
  split. { intros b0 ->. unfold opt_q, bind in Eb. destruct imax; try discriminate; destruct (need_q _ KCurrent) eqn:E0 in Eb; try discriminate; injection Eb as <-;
           (split; [exact (proj2 (need_q_kind _ _ _ E0))|exact (guard_ok _ _ G4)]). }
  intros a0 b0 -> ->. destruct (q_ge a0 b0) as [ge|]; [|discriminate]. rewrite (guard_ok _ _ G5). reflexivity.
Qed.

Theorem pwm_setter_range x v : @pwm_setter A x = Ok v -> leb (neg one) v = true /\ leb v one = true.
Proof.
  unfold pwm_setter, bind. destruct (match x with CInt z => Ok (of_Z z) | CFloat y => Ok y | CBool b => Ok (if b then one else zero) | _ => Err TypeError end) as [v0|]; [|discriminate].
  destruct (leb (neg one) v0) eqn:E1; destruct (leb v0 one) eqn:E2; cbn; try discriminate. intros H; injection H as <-. auto.
Qed.
End Any.

(** ** over the reals: an accepted DC motor has  0 < w0,  0 < T_max,  0 <= i0 < i_max  in SI, whatever the units *)
Lemma subkind_exact k k0 : (k0 = KAngularSpeed \/ k0 = KTorque \/ k0 = KCurrent \/ k0 = KInertiaMoment \/ k0 = KStress) ->
  is_subkind GEN k k0 = true -> k = k0.
Proof. intros [-> | [-> | [-> | [-> | ->]]]]; destruct k; vm_compute; intros H; try discriminate H; reflexivity. Qed.
Lemma si_sign (q : rq) s : si q = Ok s -> exists f, 0 < f /\ s = qv q * f.
Proof. unfold si, bind. destruct (@factor RA G (qk q) (qu q)) as [f|] eqn:E; [|discriminate]. intros H; injection H as <-. exists f. split; [eapply factor_pos; eauto|reflexivity]. Qed.
Lemma Rleb_false_lt (x y : R) : @leb RA x y = false -> y < x.
Proof. change (@leb RA) with Rleb. apply Rleb_false. Qed.
Lemma Rltb_false_le (x y : R) : @ltb RA x y = false -> y <= x.
Proof. change (@ltb RA) with Rltb. apply Rltb_false. Qed.

Lemma ge_false_lt (a b : rq) sa sb : q_ge a b = Ok false -> si a = Ok sa -> si b = Ok sb -> sa < sb.
Proof.
  intros H Ha Hb. unfold q_ge, q_cmp in H.
  assert (Ha' := Ha). assert (Hb' := Hb). unfold si, bind in Ha', Hb'.
  destruct (@factor RA G (qk a) (qu a)) as [fa|] eqn:Efa; [|discriminate]. destruct (@factor RA G (qk b) (qu b)) as [fb|] eqn:Efb; [|discriminate].
  destruct (cmp_SI MGe a b false sa sb fa fb eq_refl H Ha Hb Efa Efb) as (fl & Hfl & Hr).
  assert (Hfp : 0 < fl) by (destruct Hfl as [-> | ->]; eapply factor_pos; eauto).
  generalize tolR_pos; intro Ht. assert (0 < tolR * fl) by (apply Rmult_lt_0_compat; assumption).
  destruct (String.eqb (qu a) (qu b)).
  - unfold cmpR in Hr. symmetry in Hr. apply Rleb_false in Hr. lra.
  - unfold banded in Hr. symmetry in Hr. apply Rleb_false in Hr. lra.
Qed.

Theorem motor_parameters_physical name J w0 tmax i0 imax n j (m : @motor RA) a b W0 TM I0 IM :
  motor_ctor name J w0 tmax i0 imax = Ok (n, j, m) -> m_i0 m = Some a -> m_imax m = Some b ->
  si (m_w0 m) = Ok W0 -> si (m_Tmax m) = Ok TM -> si a = Ok I0 -> si b = Ok IM ->
  qk (m_w0 m) = KAngularSpeed /\ qk (m_Tmax m) = KTorque /\ qk a = KCurrent /\ qk b = KCurrent /\ qk j = KInertiaMoment /\
  0 < W0 /\ 0 < TM /\ 0 <= I0 < IM.
Proof.
  intros H Ha Hb sW sT sI sM.
  destruct (motor_ctor_checks _ _ _ _ _ _ _ _ _ H) as (_ & kj & kw & kt & vw & vt & Hi & Hm & Hge).
  destruct (Hi _ Ha) as (ka & va). destruct (Hm _ Hb) as (kb & vb). specialize (Hge _ _ Ha Hb).
  repeat split; try (apply subkind_exact; [tauto|assumption]).
  - destruct (si_sign _ _ sW) as (f & Hf & ->). apply Rleb_false_lt in vw. change (@zero RA) with 0 in vw. apply Rmult_lt_0_compat; assumption.
  - destruct (si_sign _ _ sT) as (f & Hf & ->). apply Rleb_false_lt in vt. change (@zero RA) with 0 in vt. apply Rmult_lt_0_compat; assumption.
  - destruct (si_sign _ _ sI) as (f & Hf & ->). apply Rltb_false_le in va. change (@zero RA) with 0 in va. apply Rmult_le_pos; lra.
  - eapply ge_false_lt; eauto.
Qed.

(** ** gears *)
Section AnyGear.
Context {A : Arith}.
Theorem gearbase_ctor_checks kind name n J module face emod nm j (g : @gear A) :
  gearbase_ctor kind name n J module face emod = Ok (nm, j, g) ->
  g_kind g = kind /\ @ltb A (of_Z (g_n g)) min_teeth = false /\                          (* not fewer teeth than the first row of the Lewis table *)
  (forall q, g_module g = Some q -> is_subkind GEN (qk q) KLength = true) /\
  (forall q, g_face g = Some q -> is_subkind GEN (qk q) KLength = true) /\
  (forall q, g_emod g = Some q -> is_subkind GEN (qk q) KStress = true /\ leb (qv q) zero = false).
Proof.
  unfold gearbase_ctor, bind. intros H.
  destruct (rotating_ctor name J) as [r|]; [|discriminate]. destruct (need_int n) as [z|]; [|discriminate].
  destruct (guard (@ltb A (of_Z z) min_teeth) ValueError) as [[]|] eqn:G1; [|discriminate].
  destruct (opt_q module KLength) as [m|] eqn:Em; [|discriminate]. destruct (opt_q face KLength) as [f|] eqn:Ef; [|discriminate].
  destruct (opt_q emod KStress) as [e|] eqn:Ee; [|discriminate].
  destruct (match e with Some q => guard (leb (qv q) zero) ValueError | None => Ok tt end) as [[]|] eqn:G2; [|discriminate].
  injection H as <- <- <-. cbn [g_kind g_n g_module g_face g_emod].
  assert (Hopt : forall x k o q, @opt_q A x k = Ok o -> o = Some q -> is_subkind GEN (qk q) k = true).
  { intros x k o q Ho ->. unfold opt_q, bind in Ho. destruct x; try discriminate; destruct (need_q _ k) eqn:E0 in Ho; try discriminate; injection Ho as <-; exact (proj2 (need_q_kind _ _ _ E0)). }
  split; [reflexivity|]. split; [exact (guard_ok _ _ G1)|].
  split; [intros q Hq; exact (Hopt _ _ _ _ Em Hq)|]. split; [intros q Hq; exact (Hopt _ _ _ _ Ef Hq)|].
  intros q ->. split; [exact (Hopt _ _ _ _ Ee eq_refl)|exact (guard_ok _ _ G2)].
Qed.

Theorem helical_ctor_checks kind name n J helix module face emod nm j (g : @gear A) :
  helical_ctor kind name n J helix module face emod = Ok (nm, j, g) ->
  @ltb A (of_Z (g_n g)) min_teeth = false /\
  (forall q, g_emod g = Some q -> leb (qv q) zero = false) /\
  exists h, g_helix g = Some h /\ is_subkind GEN (qk h) KAngle = true /\ q_ge h A90 = Ok false.
Proof.
  unfold helical_ctor, bind. intros H.
  destruct (gearbase_ctor kind name n J module face emod) as [[[nm0 j0] g0]|] eqn:Eb; [|discriminate].
  destruct (gearbase_ctor_checks _ _ _ _ _ _ _ _ _ _ Eb) as (_ & Hn & _ & _ & He).
  destruct (need_q helix KAngle) as [h|] eqn:Eh; [|discriminate].
  destruct (q_ge h A90) as [ge|] eqn:Eg; [|discriminate]. destruct (guard ge ValueError) as [[]|] eqn:G; [|discriminate].
  cbn [fst snd] in H. injection H as <- <- <-. cbn [with_helix g_n g_emod g_helix].
  split; [exact Hn|]. split; [intros q Hq; exact (proj2 (He _ Hq))|].
  exists h. split; [reflexivity|]. split; [exact (proj2 (need_q_kind _ _ _ Eh))|]. rewrite (guard_ok _ _ G) in Eg. exact Eg.
Qed.

(** worm gears and worm wheels: the pressure angle compares equal to a tabulated one and the helix angle is not above that row's limit *)
Theorem check_pa_helix_ok (pa h : qty A) : check_pa_helix pa h = Ok tt ->
  exists mx y m, pa_row worm_table pa = Ok (Some (mx, y)) /\ q_new KAngle mx "deg" = Ok m /\ q_gt h m = Ok false.
Proof.
  unfold check_pa_helix, bind. destruct (pa_row worm_table pa) as [[[mx y]|]|]; try discriminate.
  destruct (q_new KAngle mx "deg") as [m|] eqn:En; [|discriminate]. destruct (q_gt h m) as [gt|] eqn:E; [|discriminate].
  intros G. exists mx, y, m. rewrite (guard_ok _ _ G) in E. repeat split; auto.
Qed.
Theorem worm_ctor_checks name n J helix pa dref nm j (g : @gear A) :
  worm_ctor name n J helix pa dref = Ok (nm, j, g) ->
  (1 <= g_n g)%Z /\ exists h p, g_helix g = Some h /\ g_pa g = Some p /\ check_pa_helix p h = Ok tt.
Proof.
  unfold worm_ctor, bind. intros H.
  destruct (rotating_ctor name J) as [r|]; [|discriminate]. destruct (need_int n) as [z|]; [|discriminate].
  destruct (guard (Z.ltb z 1) ValueError) as [[]|] eqn:G1; [|discriminate].
  destruct (need_q helix KAngle) as [h|]; [|discriminate]. destruct (need_q pa KAngle) as [p|]; [|discriminate].
  destruct (check_pa_helix p h) as [[]|] eqn:Ec; [|discriminate]. destruct (opt_q dref KLength) as [d|]; [|discriminate].
  injection H as <- <- <-. cbn [g_n g_helix g_pa]. split; [apply guard_ok in G1; apply Z.ltb_ge in G1; lia|]. exists h, p. auto.
Qed.
Theorem wheel_ctor_checks name n J helix pa module face nm j (g : @gear A) :
  wheel_ctor name n J helix pa module face = Ok (nm, j, g) ->
  @ltb A (of_Z (g_n g)) min_teeth = false /\
  exists h p, g_helix g = Some h /\ g_pa g = Some p /\ q_ge h A90 = Ok false /\ check_pa_helix p h = Ok tt.
Proof.
  unfold wheel_ctor, bind. intros H.
  destruct (helical_ctor EWheel name n J helix module face CNone) as [[[nm0 j0] g0]|] eqn:Eh; [|discriminate].
  destruct (helical_ctor_checks _ _ _ _ _ _ _ _ _ _ _ Eh) as (Hn & _ & h & Hh & _ & Hge).
  destruct (need_q pa KAngle) as [p|]; [|discriminate]. cbn [snd] in H. rewrite Hh in H. cbn [the] in H.
  destruct (check_pa_helix p h) as [[]|] eqn:Ec; [|discriminate].
  cbn [fst snd] in H. injection H as <- <- <-. cbn [with_pa g_n g_helix g_pa]. split; [exact Hn|]. exists h, p. auto.
Qed.
End AnyGear.

(** over the reals: an accepted helix angle is below 90 degrees, an accepted elastic modulus is positive, in SI *)
Lemma a90_si : si (@A90 RA) = Ok (PI / 2).
Proof.
  unfold si, bind, A90. cbn [qk qu qv]. change G with GEN.
  assert (E : @factor RA GEN KAngle "deg" = Ok (PI / 180)).
  { cbn. f_equal. unfold Q2R; cbn. change (@pi RA) with PI. change (@mul RA) with Rmult. change (@div RA) with Rdiv. field. }
  rewrite E. f_equal. change (@of_Z RA 90) with (IZR 90). change (@mul RA) with Rmult. field.
Qed.
Theorem helical_parameters_physical kind name n J helix module face emod nm j (g : @gear RA) h H :
  helical_ctor kind name n J helix module face emod = Ok (nm, j, g) -> g_helix g = Some h -> si h = Ok H ->
  H < PI / 2 /\ (forall e E, g_emod g = Some e -> si e = Ok E -> 0 < E).
Proof.
  intros Hc Hh sH. destruct (helical_ctor_checks _ _ _ _ _ _ _ _ _ _ _ Hc) as (_ & He & h' & Hh' & _ & Hge).
  rewrite Hh in Hh'. injection Hh' as <-. split; [exact (ge_false_lt _ _ _ _ Hge sH a90_si)|].
  intros e E Hem sE. destruct (si_sign _ _ sE) as (f & Hf & ->). specialize (He _ Hem). apply Rleb_false_lt in He. change (@zero RA) with 0 in He.
  apply Rmult_lt_0_compat; assumption.
Qed.
