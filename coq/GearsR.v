(** * GearsR: the gear formulas over the reals against the documentation (C09). *)
From Coq Require Import ZArith QArith Reals Lra Lia Qreals String List Bool.
From GP Require Import ArithDef UnitsCore PyUnits RealArith Spec UnitsR UnitsDim QOps QOpsR Relations RelR Gears.
From GP.gen Require Import UnitsGen TablesGen.
Import ListNotations.
Open Scope R_scope.

(** ** linear interpolation over a strictly increasing table: value at the knots, chord in between, clamped outside *)
Fixpoint increasing (t : list (R * R)) : Prop :=
  match t with
  | [] => True
  | (x0, _) :: rest => match rest with (x1, _) :: _ => x0 < x1 | [] => True end /\ increasing rest
  end.
Lemma increasing_head_lt xa ya l x y : increasing ((xa, ya) :: l) -> In (x, y) l -> xa < x.
Proof.
  revert xa ya. induction l as [|[xb yb] l IH]; intros xa ya [H1 H2] Hin; [destruct Hin|].
  destruct Hin as [E|Hin]; [injection E as <- <-; exact H1|]. specialize (IH xb yb H2 Hin). lra.
Qed.
Ltac toR := change (@add RA) with Rplus in *; change (@mul RA) with Rmult in *; change (@div RA) with Rdiv in *; change (@sub RA) with Rminus in *;
  change (@leb RA) with Rleb in *; change (@ltb RA) with Rltb in *; change (num RA) with R in *.
Notation interpR := (@interp_segments RA).
Notation segR := (@seg RA).

Lemma seg_left x0 y0 x1 y1 : x0 < x1 -> segR x0 y0 x1 y1 x0 = y0.
Proof. intros H. unfold seg. toR. field. lra. Qed.
Lemma seg_right x0 y0 x1 y1 : x0 < x1 -> segR x0 y0 x1 y1 x1 = y1.
Proof. intros H. unfold seg. toR. field. lra. Qed.
Lemma seg_chord x0 y0 x1 y1 x : x0 < x1 -> segR x0 y0 x1 y1 x = y0 + (y1 - y0) * ((x - x0) / (x1 - x0)).
Proof. intros H. unfold seg. toR. field. lra. Qed.

(** for x in [x0, x1), a segment of the table: the value is on the chord (and at x = x0 it is y0 itself) *)
Lemma interp_skip xa ya xb yb rest x : xb <= x -> interpR ((xa, ya) :: (xb, yb) :: rest) x = interpR ((xb, yb) :: rest) x.
Proof. intros H. cbn [interp_segments]. toR. unfold Rltb at 1. destruct (Rlt_dec x xb); [lra|reflexivity]. Qed.
Theorem interp_on_chord (t : list (R * R)) x : increasing t ->
  forall x0 y0 x1 y1 pre post, t = (pre ++ (x0, y0) :: (x1, y1) :: post)%list ->
  x0 <= x -> x < x1 ->
  interpR t x = y0 + (y1 - y0) * ((x - x0) / (x1 - x0)).
Proof.
  intros Hinc x0 y0 x1 y1 pre. revert t Hinc. induction pre as [|[xa ya] pre IH]; intros t Hinc post -> H0 Hx.
  - cbn [app interp_segments]. toR. unfold Rltb. destruct (Rlt_dec x x1); [|lra].
    change (@eqb RA) with Reqb. unfold Reqb. destruct (Req_EM_T x x0) as [->|Hn]; [toR; field; cbn in Hinc; lra|].
    apply seg_chord. cbn in Hinc. lra.
  - cbn [app] in *.
    destruct (pre ++ (x0, y0) :: (x1, y1) :: post)%list as [|[xb yb] rest] eqn:E; [destruct pre; discriminate|].
    assert (Hle : xb <= x0).
    { destruct pre as [|[xc yc] pre']; cbn in E.
      - injection E as <- <- _. lra.
      - injection E as <- <- Er.
        assert (Hin : In (x0, y0) rest) by (rewrite <- Er; apply in_or_app; right; left; reflexivity).
        destruct Hinc as [_ Hinc]. left. eapply increasing_head_lt; [exact Hinc|exact Hin]. }
    rewrite interp_skip by lra. toR. rewrite <- E. apply IH with (post := post); auto. rewrite E. apply Hinc.
Qed.
(** exactly at a knot the tabulated value is returned (every knot, the first and the last included) *)
Theorem interp_at_knot (t : list (R * R)) : increasing t ->
  forall xk yk pre post, t = (pre ++ (xk, yk) :: post)%list -> interpR t xk = yk.
Proof.
  intros Hinc xk yk pre. revert t Hinc. induction pre as [|[xa ya] pre IH]; intros t Hinc post ->.
  - cbn [app]. destruct post as [|[x1 y1] post]; [reflexivity|]. cbn [interp_segments]. toR. unfold Rltb.
    destruct (Rlt_dec xk x1); [|cbn in Hinc; lra]. change (@eqb RA) with Reqb. unfold Reqb. destruct (Req_EM_T xk xk); [reflexivity|contradiction].
  - cbn [app] in *.
    destruct (pre ++ (xk, yk) :: post)%list as [|[xb yb] rest] eqn:E; [destruct pre; discriminate|].
    assert (Hle : xb <= xk).
    { destruct pre as [|[xc yc] pre']; cbn in E.
      - injection E as <- <- _. lra.
      - injection E as <- <- Er.
        assert (Hin : In (xk, yk) rest) by (rewrite <- Er; apply in_or_app; right; left; reflexivity).
        destruct Hinc as [_ Hinc]. left. eapply increasing_head_lt; [exact Hinc|exact Hin]. }
    rewrite interp_skip by lra. toR. rewrite <- E. apply IH with (post := post); auto. rewrite E. apply Hinc.
Qed.
(** clamping outside the table *)
Theorem lewis_interp_clamped (t : list (R * R)) xf yf xl yl mid x : t = ((xf, yf) :: mid ++ [(xl, yl)])%list ->
  (x < xf -> @lewis_interp RA t x = yf) /\ (xl < x -> xf <= x -> @lewis_interp RA t x = yl).
Proof.
  intros ->. unfold lewis_interp. cbn [rev]. rewrite rev_app_distr. cbn [rev app].
  change (@ltb RA) with Rltb. unfold Rltb. split; intros H.
  - destruct (Rlt_dec x xf); [reflexivity|lra].
  - intros H2. destruct (Rlt_dec x xf); [lra|]. destruct (Rlt_dec xl x); [reflexivity|lra].
Qed.

(** the regenerated Lewis table is strictly increasing in the teeth number (checked on the exact decimals of the CSV) *)
Fixpoint q_increasing (t : list ((Q * PrimFloat.float) * (Q * PrimFloat.float))) : bool :=
  match t with
  | ((x0, _), _) :: ((((x1, _), _) :: _) as rest) => match Qcompare x0 x1 with Lt => q_increasing rest | _ => false end
  | _ => true
  end.
Lemma gen_table_increasing : q_increasing gen_lewis_table = true.
Proof. vm_compute. reflexivity. Qed.
Lemma q_increasing_sound t : q_increasing t = true ->
  increasing (map (fun r => (@lit RA (fst (fst r)) (snd (fst r)), @lit RA (fst (snd r)) (snd (snd r)))) t).
Proof.
  induction t as [|[[x0 f0] y0] t IH]; [cbn; auto|]. destruct t as [|[[x1 f1] y1] t]; [cbn; auto|].
  cbn [q_increasing]. destruct (Qcompare x0 x1) eqn:E; try discriminate. intros H.
  change (increasing ((@lit RA x0 f0, @lit RA (fst y0) (snd y0)) :: map (fun r => (@lit RA (fst (fst r)) (snd (fst r)), @lit RA (fst (snd r)) (snd (snd r)))) ((x1, f1, y1) :: t))).
  cbn [increasing map fst snd]. split; [apply Qlt_Rlt; exact E|]. apply IH. exact H.
Qed.
Theorem lewis_table_increasing : increasing (@lewis_table RA).
Proof. apply q_increasing_sound. exact gen_table_increasing. Qed.

(** ** tangential force: |reference torque| / (d / 2), load torque for the master, driving torque for the slave *)
Lemma q_abs_si (a z : rq) sa : q_abs a = Ok z -> si a = Ok sa -> qk z = qk a /\ si z = Ok (Rabs sa).
Proof.
  unfold q_abs. intros H Ha. apply as_qty_inv in H. rewrite (mk_eta a) in H, Ha.
  destruct (abs_sound _ _ _ _ H) as (q' & E & Hk & Hu & Hsi). injection E as <-. rewrite (Hsi _ Ha). auto.
Qed.
Theorem tangential_force_doc (g : @gear RA) r (ltq dtq F : rq) sl sd m sm :
  g_kind g <> EWorm -> g_module g = Some m -> qk m = KLength -> si m = Ok sm ->
  qk ltq = KTorque -> qk dtq = KTorque -> si ltq = Ok sl -> si dtq = Ok sd ->
  tangential_force g r ltq dtq = Ok F ->
  exists role, r = Some role /\ qk F = KForce /\
    si F = Ok (Rabs (match role with RMaster => sl | RSlave => sd end) / (IZR (g_n g) * sm / 2)).
Proof.
  intros Hk Hm Hkm Hsm Hkl Hkd Hsl Hsd H. unfold tangential_force, bind in H.
  destruct r as [role|]; [|discriminate]. exists role. split; [reflexivity|].
  set (tq := match role with RMaster => ltq | RSlave => dtq end) in *.
  assert (Htq : (match role with RMaster => Ok ltq | RSlave => Ok dtq end) = Ok tq) by (destruct role; reflexivity).
  rewrite Htq in H.
  assert (Hstq : si tq = Ok (match role with RMaster => sl | RSlave => sd end)) by (destruct role; assumption).
  assert (Hktq : qk tq = KTorque) by (destruct role; assumption).
  destruct (q_abs tq) as [a|] eqn:Ea; [|discriminate]. destruct (q_abs_si _ _ _ Ea Hstq) as (Hka & Hsa).
  assert (Hd : ref_diameter g = (m0 <- the (g_module g) ;; q_rmul (of_Z (g_n g)) m0)) by (unfold ref_diameter; destruct (g_kind g); try reflexivity; contradiction).
  rewrite Hd, Hm in H. cbn [the bind] in H. unfold bind in H.
  destruct (q_rmul (of_Z (g_n g)) m) as [d|] eqn:Ed; [|discriminate]. destruct (q_rmul_si _ _ _ _ Ed Hsm) as (Hkd' & _ & Hsd').
  destruct (q_divn d (of_Z 2)) as [h|] eqn:Eh; [|discriminate]. destruct (q_divn_si _ _ _ _ Eh Hsd') as (_ & Hkh & _ & Hsh).
  destruct (q_divq a h) as [f|] eqn:Ef; [|discriminate]. destruct (q_divq_si _ _ _ _ _ Ef Hsa Hsh) as (_ & Hkf & Hsf).
  assert (HF : F = f) by (destruct (g_kind g); try (injection H as <-; reflexivity); contradiction). subst F.
  split.
  - rewrite Hka, Hktq, Hkh, Hkd', Hkm in Hkf. cbn in Hkf. injection Hkf as <-. reflexivity.
  - rewrite Hsf. reflexivity.
Qed.

(** ** contact stress: the code's three-step expression is the documented Hertz expression *)
Theorem contact_identity (E1 E2 d1 d2 b ft ca sa : R) : 0 < E1 -> 0 < E2 -> 0 < d1 -> 0 < d2 -> 0 < b -> 0 < ca -> 0 < sa ->
  (2 * E1 * (E2 / (E1 + E2))) * (ft / ca / (b * (sa / 2 * d1 * (d2 / (d1 + d2))))) =
  4 * ft / (b * ca * sa) * (1 / d1 + 1 / d2) * (E1 * E2 / (E1 + E2)).
Proof. intros. field. repeat split; lra. Qed.
(** ... and bending: Ft / (m * b) / Y = Ft / (m * b * Y) *)
Theorem bending_identity (ft m b Y : R) : 0 < m -> 0 < b -> 0 < Y -> ft / (m * b) / Y = ft / (m * b * Y).
Proof. intros. field. repeat split; lra. Qed.
(** the helical virtual teeth number z / (cos(beta_b)^2 * cos(beta)) *)
Theorem virtual_teeth_identity (z cb ch : R) : cb <> 0 -> ch <> 0 -> z / (cb * cb) / ch = z / (cb * cb * ch).
Proof. intros. field. split; assumption. Qed.

(** ** the stresses through the quantity layer: whatever units the module, face width, diameters, moduli and force are written
    in, the result is a Stress whose SI magnitude (Pa) is the documented expression of the SI magnitudes *)
Theorem qsin_si (q : rq) x s : base_kind (qk q) = KAngularPosition -> @qsin RA q = Ok x -> si q = Ok s -> x = sin s.
Proof. intros Hk H Hs. unfold qsin, bind in H. destruct (trig_arg q) as [y|] eqn:E; [|discriminate]. injection H as <-. rewrite (trig_arg_si _ _ _ Hk E Hs). reflexivity. Qed.

(** bending stress of a spur or helical gear:  F_t / (m b) / Y  *)
Theorem bending_stress_doc (g : @gear RA) r mate (ft S m fw : rq) Y F sm sb :
  g_kind g <> EWheel -> lewis_factor g = Ok Y ->
  g_module g = Some m -> g_face g = Some fw -> qk m = KLength -> qk fw = KLength -> qk ft = KForce ->
  si m = Ok sm -> si fw = Ok sb -> si ft = Ok F ->
  bending_stress g r mate ft = Ok S ->
  sm * sb <> 0 /\ Y <> 0 /\ qk S = KStress /\ si S = Ok (F / (sm * sb) / Y).
Proof.
  intros Hk HY Hm Hf km kf kft ssm ssb sF H. unfold bending_stress, bind in H. rewrite HY in H.
  assert (H' : (ar <- q_mulq m fw ;; st <- q_divq ft ar ;; q_divn st Y) = Ok S).
  { destruct (g_kind g); try contradiction; rewrite Hm, Hf in H; exact H. }
  clear H. unfold bind in H'.
  destruct (q_mulq m fw) as [ar|] eqn:Ea; [|discriminate]. destruct (q_mulq_si _ _ _ _ _ Ea ssm ssb) as (ka & sa).
  destruct (q_divq ft ar) as [st|] eqn:Es; [|discriminate]. destruct (q_divq_si _ _ _ _ _ Es sF sa) as (Hn & ks & ss).
  destruct (q_divn_si _ _ _ _ H' ss) as (HYn & kS & _ & sS).
  rewrite km, kf in ka. cbn in ka. injection ka as ka. rewrite kft, <- ka in ks. cbn in ks. injection ks as ks.
  repeat split; auto. congruence.
Qed.

Lemma pa_factor : @factor RA GEN KStress "Pa" = Ok 1.
Proof. cbn. f_equal. unfold Q2R; cbn; lra. Qed.
Lemma pa20_si : si (@PA20 RA) = Ok (20 * (PI / 180)).
Proof.
  unfold si, bind, PA20. cbn [qk qu qv]. change G with GEN.
  assert (E : @factor RA GEN KAngle "deg" = Ok (PI / 180)).
  { cbn. f_equal. unfold Q2R; cbn. change (@pi RA) with PI. toR. field. }
  rewrite E. reflexivity.
Qed.

(** contact stress of a spur gear against a spur or helical mate (alpha = 20 deg):
      0.262922 * sqrt( E_eq * p ),  E_eq = 2 E1 E2/(E1+E2),  p = (F_t / cos alpha) / ( b * (sin alpha / 2) * d1 d2/(d1+d2) )
    which [contact_identity] shows to be the documented Hertz expression *)
Theorem contact_stress_spur_doc (g mt : @gear RA) r (ft S m1 m2 fw e1 e2 : rq) F sm1 sm2 sb E1 E2 :
  g_kind g = ESpur -> (g_kind mt = ESpur \/ g_kind mt = EHelical) -> r <> None ->
  g_module g = Some m1 -> g_module mt = Some m2 -> g_face g = Some fw -> g_emod g = Some e1 -> g_emod mt = Some e2 ->
  qk m1 = KLength -> qk m2 = KLength -> qk fw = KLength -> qk e1 = KStress -> qk e2 = KStress -> qk ft = KForce ->
  si m1 = Ok sm1 -> si m2 = Ok sm2 -> si fw = Ok sb -> si e1 = Ok E1 -> si e2 = Ok E2 -> si ft = Ok F ->
  contact_stress g r (Some mt) ft = Ok S ->
  let d1 := IZR (g_n g) * sm1 in let d2 := IZR (g_n mt) * sm2 in let al := 20 * (PI / 180) in
  qk S = KStress /\
  si S = Ok (131461 / 500000 * sqrt ((2 * E1 * (E2 / (E1 + E2))) * (F / cos al / (sb * (sin al / 2 * d1 * (d2 / (d1 + d2))))))).
Proof.
  intros Hk Hkm Hr Hm1 Hm2 Hf He1 He2 k1 k2 kf ke1 ke2 kft s1 s2 ssb sE1 sE2 sF H.
  unfold contact_stress, bind in H. destruct r as [role|]; [|contradiction]. rewrite Hm2, He2, He1, Hf in H. cbn [the] in H.
  assert (Hd2 : ref_diameter mt = q_rmul (of_Z (g_n mt)) m2).
  { unfold ref_diameter. destruct Hkm as [-> | ->]; rewrite Hm2; reflexivity. }
  assert (Hd1 : ref_diameter g = q_rmul (of_Z (g_n g)) m1) by (unfold ref_diameter; rewrite Hk, Hm1; reflexivity).
  rewrite Hd1, Hd2, Hk in H.
  destruct (q_rmul (of_Z (g_n mt)) m2) as [dm|] eqn:Edm; [|discriminate]. destruct (q_rmul_si _ _ _ _ Edm s2) as (kdm & _ & sdm).
  destruct (q_rmul (of_Z (g_n g)) m1) as [d|] eqn:Ed; [|discriminate]. destruct (q_rmul_si _ _ _ _ Ed s1) as (kd & _ & sd).
  destruct (q_add e1 e2) as [es|] eqn:Ees; [|discriminate]. destruct (q_add_si _ _ _ _ _ Ees sE1 sE2) as (_ & _ & ses).
  destruct (q_ratio e2 es) as [k|] eqn:Ek; [|discriminate]. destruct (q_ratio_si _ _ _ _ _ Ek sE2 ses) as (_ & ->).
  destruct (q_rmul (of_Z 2) e1) as [e2x|] eqn:Ee2; [|discriminate]. destruct (q_rmul_si _ _ _ _ Ee2 sE1) as (ke2x & _ & se2x).
  destruct (q_muln e2x _) as [eeq|] eqn:Eeq; [|discriminate]. destruct (q_muln_si _ _ _ _ Eeq se2x) as (keeq & _ & seeq).
  destruct (qsin PA20) as [sn|] eqn:Esn; [|discriminate]. rewrite (qsin_si (@PA20 RA) _ _ eq_refl Esn pa20_si) in *.
  destruct (qcos PA20) as [cs|] eqn:Ecs; [|discriminate]. rewrite (qcos_si (@PA20 RA) _ _ eq_refl Ecs pa20_si) in *.
  destruct (q_add d dm) as [ds|] eqn:Eds; [|discriminate]. destruct (q_add_si _ _ _ _ _ Eds sd sdm) as (_ & _ & sds).
  destruct (q_ratio dm ds) as [k2'|] eqn:Ek2; [|discriminate]. destruct (q_ratio_si _ _ _ _ _ Ek2 sdm sds) as (_ & ->).
  destruct (q_rmul _ d) as [i1|] eqn:Ei1; [|discriminate]. destruct (q_rmul_si _ _ _ _ Ei1 sd) as (ki1 & _ & si1).
  destruct (q_muln i1 _) as [ics|] eqn:Eics; [|discriminate]. destruct (q_muln_si _ _ _ _ Eics si1) as (kics & _ & sics).
  destruct (q_divn ft _) as [f1|] eqn:Ef1; [|discriminate]. destruct (q_divn_si _ _ _ _ Ef1 sF) as (_ & kf1 & _ & sf1).
  destruct (q_mulq fw ics) as [ar|] eqn:Ear; [|discriminate]. destruct (q_mulq_si _ _ _ _ _ Ear ssb sics) as (kar & sar).
  destruct (q_divq f1 ar) as [cp|] eqn:Ecp; [|discriminate]. destruct (q_divq_si _ _ _ _ _ Ecp sf1 sar) as (_ & kcp & scp).
  (* kinds: area is a Surface, contact pressure a Stress *)
  rewrite kf, kics, ki1, kd, k1 in kar. cbn in kar. injection kar as kar.
  rewrite kf1, kft, <- kar in kcp. cbn in kcp. injection kcp as kcp.
  destruct (q_to eeq "Pa") as [ep|] eqn:Eep; [|discriminate]. destruct (q_to_si _ _ _ _ Eep seeq) as (kep & uep & sep).
  destruct (q_to cp "Pa") as [cpp|] eqn:Ecpp; [|discriminate]. destruct (q_to_si _ _ _ _ Ecpp scp) as (kcpp & ucpp & scpp).
  assert (Vep : qv ep = 2 * E1 * (E2 / (E1 + E2))).
  { unfold si, bind in sep. rewrite kep, keeq, ke2x, ke1, uep in sep. change G with GEN in sep. rewrite pa_factor in sep. injection sep as sep. toR. lra. }
  assert (Vcp : qv cpp = F / cos (20 * (PI / 180)) / (sb * (sin (20 * (PI / 180)) / 2 * (IZR (g_n g) * sm1) * (IZR (g_n mt) * sm2 / (IZR (g_n g) * sm1 + IZR (g_n mt) * sm2))))).
  { unfold si, bind in scpp. rewrite kcpp, <- kcp, ucpp in scpp. change G with GEN in scpp. rewrite pa_factor in scpp. injection scpp as scpp.
    change (@div RA) with Rdiv in *. change (@of_Z RA 2) with (IZR 2) in *. change (@of_Z RA (g_n g)) with (IZR (g_n g)) in *. change (@of_Z RA (g_n mt)) with (IZR (g_n mt)) in *. toR. lra. }
  apply q_new_eq in H. subst S. cbn zeta. split; [reflexivity|].
  rewrite (si_mk _ _ _ _ pa_factor). f_equal. rewrite Vep, Vcp. unfold lit. cbn [fst]. change (@mul RA) with Rmult. change (@sqrtn RA) with sqrt.
  unfold Q2R; cbn. toR. lra.
Qed.

Lemma pydiv_R (x y z : R) : @pydiv RA x y = Ok z -> y <> 0 /\ z = x / y.
Proof.
  unfold pydiv. change (@eqb RA) with Reqb. unfold Reqb. change (@zero RA) with 0.
  destruct (Req_EM_T y 0) as [E|E]; [discriminate|]. intros H; injection H as <-. split; [exact E|reflexivity].
Qed.
Lemma rad_factor : @factor RA GEN KAngle "rad" = Ok 1.
Proof. cbn. f_equal. unfold Q2R; cbn; lra. Qed.

(** the transverse pressure angle the HelicalGear constructor stores: atan(tan 20deg / cos beta), an Angle in rad *)
Lemma transverse_pa_si (g : @gear RA) (hx tpa : rq) sh : g_helix g = Some hx -> base_kind (qk hx) = KAngularPosition -> si hx = Ok sh ->
  transverse_pa g = Ok tpa ->
  cos sh <> 0 /\ qk tpa = KAngle /\ si tpa = Ok (atan (tan (20 * (PI / 180)) / cos sh)).
Proof.
  intros Hh Hk Hs H. unfold transverse_pa, bind in H. rewrite Hh in H. cbn [the] in H.
  destruct (qtan PA20) as [t|] eqn:Et; [|discriminate]. rewrite (qtan_si (@PA20 RA) _ _ eq_refl Et pa20_si) in *.
  destruct (qcos hx) as [c|] eqn:Ec; [|discriminate]. rewrite (qcos_si hx _ _ Hk Ec Hs) in *.
  destruct (pydiv _ _) as [x|] eqn:Ex; [|discriminate]. destruct (pydiv_R _ _ _ Ex) as (Hc & ->).
  apply q_new_eq in H. subst tpa. split; [exact Hc|]. split; [reflexivity|].
  rewrite (si_mk _ _ _ _ rad_factor). f_equal. change (@fatan RA) with atan. lra.
Qed.

(** contact stress of a helical gear against a helical or spur mate: the transverse pressure angle alpha_t = atan(tan 20deg / cos beta)
    replaces 20 deg and the face width is b / cos beta *)
Theorem contact_stress_helical_doc (g mt : @gear RA) r (ft S m1 m2 fw e1 e2 hx : rq) F sm1 sm2 sb E1 E2 sh :
  g_kind g = EHelical -> (g_kind mt = ESpur \/ g_kind mt = EHelical) -> r <> None ->
  g_module g = Some m1 -> g_module mt = Some m2 -> g_face g = Some fw -> g_emod g = Some e1 -> g_emod mt = Some e2 -> g_helix g = Some hx ->
  qk m1 = KLength -> qk m2 = KLength -> qk fw = KLength -> qk e1 = KStress -> qk e2 = KStress -> qk ft = KForce ->
  base_kind (qk hx) = KAngularPosition ->
  si m1 = Ok sm1 -> si m2 = Ok sm2 -> si fw = Ok sb -> si e1 = Ok E1 -> si e2 = Ok E2 -> si ft = Ok F -> si hx = Ok sh ->
  contact_stress g r (Some mt) ft = Ok S ->
  let d1 := IZR (g_n g) * sm1 in let d2 := IZR (g_n mt) * sm2 in let al := atan (tan (20 * (PI / 180)) / cos sh) in
  cos sh <> 0 /\ qk S = KStress /\
  si S = Ok (131461 / 500000 * sqrt ((2 * E1 * (E2 / (E1 + E2))) * (F / cos al / (sb / cos sh * (sin al / 2 * d1 * (d2 / (d1 + d2))))))).
Proof.
  intros Hk Hkm Hr Hm1 Hm2 Hf He1 He2 Hh k1 k2 kf ke1 ke2 kft kh s1 s2 ssb sE1 sE2 sF sH H.
  unfold contact_stress, bind in H. destruct r as [role|]; [|contradiction]. rewrite Hm2, He2, He1, Hf in H. cbn [the] in H.
  assert (Hd2 : ref_diameter mt = q_rmul (of_Z (g_n mt)) m2).
  { unfold ref_diameter. destruct Hkm as [-> | ->]; rewrite Hm2; reflexivity. }
  assert (Hd1 : ref_diameter g = q_rmul (of_Z (g_n g)) m1) by (unfold ref_diameter; rewrite Hk, Hm1; reflexivity).
  rewrite Hd1, Hd2, Hk, Hh in H. cbn [the] in H.
  destruct (q_rmul (of_Z (g_n mt)) m2) as [dm|] eqn:Edm; [|discriminate]. destruct (q_rmul_si _ _ _ _ Edm s2) as (kdm & _ & sdm).
  destruct (q_rmul (of_Z (g_n g)) m1) as [d|] eqn:Ed; [|discriminate]. destruct (q_rmul_si _ _ _ _ Ed s1) as (kd & _ & sd).
  destruct (q_add e1 e2) as [es|] eqn:Ees; [|discriminate]. destruct (q_add_si _ _ _ _ _ Ees sE1 sE2) as (_ & _ & ses).
  destruct (q_ratio e2 es) as [k|] eqn:Ek; [|discriminate]. destruct (q_ratio_si _ _ _ _ _ Ek sE2 ses) as (_ & ->).
  destruct (q_rmul (of_Z 2) e1) as [e2x|] eqn:Ee2; [|discriminate]. destruct (q_rmul_si _ _ _ _ Ee2 sE1) as (ke2x & _ & se2x).
  destruct (q_muln e2x _) as [eeq|] eqn:Eeq; [|discriminate]. destruct (q_muln_si _ _ _ _ Eeq se2x) as (keeq & _ & seeq).
  destruct (transverse_pa g) as [tpa|] eqn:Etpa; [|discriminate].
  destruct (transverse_pa_si g hx tpa sh Hh kh sH Etpa) as (Hcs & ktpa & stpa).
  assert (ktpa' : base_kind (qk tpa) = KAngularPosition) by (rewrite ktpa; reflexivity).
  destruct (qsin tpa) as [sn|] eqn:Esn; [|discriminate]. rewrite (qsin_si tpa _ _ ktpa' Esn stpa) in *.
  destruct (qcos tpa) as [cs|] eqn:Ecs; [|discriminate]. rewrite (qcos_si tpa _ _ ktpa' Ecs stpa) in *.
  destruct (q_add d dm) as [ds|] eqn:Eds; [|discriminate]. destruct (q_add_si _ _ _ _ _ Eds sd sdm) as (_ & _ & sds).
  destruct (q_ratio dm ds) as [k2'|] eqn:Ek2; [|discriminate]. destruct (q_ratio_si _ _ _ _ _ Ek2 sdm sds) as (_ & ->).
  destruct (q_rmul _ d) as [i1|] eqn:Ei1; [|discriminate]. destruct (q_rmul_si _ _ _ _ Ei1 sd) as (ki1 & _ & si1).
  destruct (q_muln i1 _) as [ics|] eqn:Eics; [|discriminate]. destruct (q_muln_si _ _ _ _ Eics si1) as (kics & _ & sics).
  destruct (q_divn ft _) as [f1|] eqn:Ef1; [|discriminate]. destruct (q_divn_si _ _ _ _ Ef1 sF) as (_ & kf1 & _ & sf1).
  destruct (qcos hx) as [ch|] eqn:Ech; [|discriminate]. rewrite (qcos_si hx _ _ kh Ech sH) in *.
  destruct (q_divn fw _) as [w|] eqn:Ew; [|discriminate]. destruct (q_divn_si _ _ _ _ Ew ssb) as (_ & kw & _ & sw).
  destruct (q_mulq w ics) as [ar|] eqn:Ear; [|discriminate]. destruct (q_mulq_si _ _ _ _ _ Ear sw sics) as (kar & sar).
  destruct (q_divq f1 ar) as [cp|] eqn:Ecp; [|discriminate]. destruct (q_divq_si _ _ _ _ _ Ecp sf1 sar) as (_ & kcp & scp).
  rewrite kw, kf, kics, ki1, kd, k1 in kar. cbn in kar. injection kar as kar.
  rewrite kf1, kft, <- kar in kcp. cbn in kcp. injection kcp as kcp.
  destruct (q_to eeq "Pa") as [ep|] eqn:Eep; [|discriminate]. destruct (q_to_si _ _ _ _ Eep seeq) as (kep & uep & sep).
  destruct (q_to cp "Pa") as [cpp|] eqn:Ecpp; [|discriminate]. destruct (q_to_si _ _ _ _ Ecpp scp) as (kcpp & ucpp & scpp).
  assert (Vep : qv ep = 2 * E1 * (E2 / (E1 + E2))).
  { unfold si, bind in sep. rewrite kep, keeq, ke2x, ke1, uep in sep. change G with GEN in sep. rewrite pa_factor in sep. injection sep as sep. toR. lra. }
  set (al := atan (tan (20 * (PI / 180)) / cos sh)) in *.
  assert (Vcp : qv cpp = F / cos al / (sb / cos sh * (sin al / 2 * (IZR (g_n g) * sm1) * (IZR (g_n mt) * sm2 / (IZR (g_n g) * sm1 + IZR (g_n mt) * sm2))))).
  { unfold si, bind in scpp. rewrite kcpp, <- kcp, ucpp in scpp. change G with GEN in scpp. rewrite pa_factor in scpp. injection scpp as scpp.
    change (@div RA) with Rdiv in *. change (@of_Z RA 2) with (IZR 2) in *. change (@of_Z RA (g_n g)) with (IZR (g_n g)) in *. change (@of_Z RA (g_n mt)) with (IZR (g_n mt)) in *. toR. lra. }
  apply q_new_eq in H. subst S. cbn zeta. split; [exact Hcs|]. split; [reflexivity|].
  rewrite (si_mk _ _ _ _ pa_factor). f_equal. rewrite Vep, Vcp. unfold lit. cbn [fst]. change (@mul RA) with Rmult. change (@sqrtn RA) with sqrt.
  unfold Q2R; cbn. toR. lra.
Qed.

(** bending stress of a worm wheel: F_t / (p_n * b_eff) / Y with the normal pitch p_n = pi d_w sin(beta_w) / z and the effective face
    width b_eff = min(b, 0.67 d_w) -- the minimum decided by the quantity comparison [q_lt] (C05: the SI ordering outside the
    tolerance band) *)
Theorem bending_stress_wheel_doc (g mt : @gear RA) role (ft S dw hw fw : rq) Y F sdw shw sb :
  g_kind g = EWheel -> lewis_factor g = Ok Y ->
  g_dref mt = Some dw -> g_helix mt = Some hw -> g_face g = Some fw ->
  qk dw = KLength -> qk fw = KLength -> qk ft = KForce -> base_kind (qk hw) = KAngularPosition ->
  si dw = Ok sdw -> si hw = Ok shw -> si fw = Ok sb -> si ft = Ok F ->
  bending_stress g (Some role) (Some mt) ft = Ok S ->
  exists lim lt, q_rmul (@k067 RA) dw = Ok lim /\ si lim = Ok (67 / 100 * sdw) /\ q_lt lim fw = Ok lt /\
    qk S = KStress /\
    si S = Ok (F / (PI * sdw * sin shw / IZR (g_n g) * (if lt then 67 / 100 * sdw else sb)) / Y).
Proof.
  intros Hk HY Hd Hh Hf kd kf kft kh sd sh ssb sF H. unfold bending_stress, bind in H. rewrite HY, Hk, Hd, Hh, Hf in H. cbn [the] in H.
  destruct (q_rmul pi dw) as [a|] eqn:Ea; [|discriminate]. destruct (q_rmul_si _ _ _ _ Ea sd) as (ka & _ & sa).
  destruct (qsin hw) as [s|] eqn:Es; [|discriminate]. rewrite (qsin_si hw _ _ kh Es sh) in *.
  destruct (q_muln a _) as [b|] eqn:Eb; [|discriminate]. destruct (q_muln_si _ _ _ _ Eb sa) as (kb & _ & sb').
  destruct (q_divn b _) as [np|] eqn:Enp; [|discriminate]. destruct (q_divn_si _ _ _ _ Enp sb') as (_ & knp & _ & snp).
  destruct (q_rmul k067 dw) as [lim|] eqn:El; [|discriminate]. destruct (q_rmul_si _ _ _ _ El sd) as (kl & _ & sl).
  destruct (q_lt lim fw) as [lt|] eqn:Elt; [|discriminate].
  exists lim, lt. split; [first [reflexivity | exact El]|].
  assert (sl' : si lim = Ok (67 / 100 * sdw)).
  { rewrite sl. f_equal; unfold k067; change (@lit RA (67 # 100) _) with (Q2R (67 # 100)); unfold Q2R; cbn; toR; lra. }
  split; [exact sl'|]. split; [exact Elt|].
  set (eff := if lt then lim else fw) in *.
  assert (seff : si eff = Ok (if lt then 67 / 100 * sdw else sb)) by (unfold eff; destruct lt; assumption).
  assert (keff : qk eff = KLength) by (unfold eff; destruct lt; [rewrite kl; exact kd|exact kf]).
  destruct (q_mulq np eff) as [ar|] eqn:Ear; [|discriminate]. destruct (q_mulq_si _ _ _ _ _ Ear snp seff) as (kar & sar).
  destruct (q_divq ft ar) as [st|] eqn:Est; [|discriminate]. destruct (q_divq_si _ _ _ _ _ Est sF sar) as (_ & kst & sst).
  destruct (q_divn_si _ _ _ _ H sst) as (_ & kS & _ & sS).
  rewrite knp, kb, ka, kd, keff in kar. cbn in kar. injection kar as kar.
  rewrite kft, <- kar in kst. cbn in kst. injection kst as kst.
  split; [congruence|].
  rewrite sS. f_equal; try (change (@pi RA) with PI; change (@of_Z RA (g_n g)) with (IZR (g_n g)); toR; reflexivity).
Qed.
