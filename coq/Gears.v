(** * Gears: tangential force, bending stress, contact stress and the Lewis factor of SpurGear, HelicalGear, WormWheel, WormGear,
    operation for operation, generic in the arithmetic.  The two tables are the REGENERATED ones (gen/TablesGen.v).  No proofs. *)
From Coq Require Import ZArith QArith String List Bool PrimFloat.
From GP Require Import ArithDef UnitsCore PyUnits QOps Relations.
From GP.gen Require Import UnitsGen TablesGen.
Import ListNotations.
Open Scope string_scope.

Section Gears.
Context {A : Arith}.
Notation qty := (qty A).

Definition lewis_table : list (num A * num A) := map (fun r => (lit (fst (fst r)) (snd (fst r)), lit (fst (snd r)) (snd (snd r)))) gen_lewis_table.
Definition worm_table : list (num A * num A * num A) :=
  map (fun r => (lit (fst (fst (fst r))) (snd (fst (fst r))), lit (fst (snd (fst r))) (snd (snd (fst r))), lit (fst (snd r)) (snd (snd r)))) gen_worm_table.

(** scipy.interpolate.interp1d, linear, on 1-D float data: numpy.interp.  For x within [first knot, last knot]: the segment is the
    one with x_j <= x < x_{j+1}; exactly at a knot the tabulated value itself is returned; the last knot returns the last value. *)
Definition seg (x0 y0 x1 y1 x : num A) : num A := add (mul (div (sub y1 y0) (sub x1 x0)) (sub x x0)) y0.
Fixpoint interp_segments (tbl : list (num A * num A)) (x : num A) : num A :=
  match tbl with
  | (x0, y0) :: (((x1, y1) :: _) as rest) =>
      if ltb x x1 then (if eqb x x0 then y0 else seg x0 y0 x1 y1 x) else interp_segments rest x
  | [(x0, y0)] => y0
  | [] => zero
  end.
Definition lewis_interp (tbl : list (num A * num A)) (x : num A) : num A :=
  match tbl, rev tbl with
  | (xf, yf) :: _, (xl, yl) :: _ => if ltb x xf then yf else if ltb xl x then yl else interp_segments tbl x
  | _, _ => zero
  end.

(** what the formulas read of a gear and of its mate *)
Record gear := { g_kind : ekind; g_n : Z; g_module : option qty; g_face : option qty; g_emod : option qty;
                 g_helix : option qty; g_pa : option qty; g_dref : option qty }.

Definition ref_diameter (g : gear) : res qty :=
  match g_kind g with
  | EWorm => the (g_dref g)
  | _ => m <- the (g_module g) ;; q_rmul (of_Z (g_n g)) m
  end.
Definition q_abs (a : qty) : res qty := as_qty (py_abs GEN a).

(** compute_tangential_force: |reference torque| / (d / 2)   (x tan(helix) for the worm gear) *)
Definition tangential_force (g : gear) (r : option role) (ltq dtq : qty) : res qty :=
  tq <- match r with Some RMaster => Ok ltq | Some RSlave => Ok dtq | None => Err ValueError end ;;
  a <- q_abs tq ;; d <- ref_diameter g ;; h <- q_divn d (of_Z 2) ;; f <- q_divq a h ;;
  match g_kind g with
  | EWorm => hx <- the (g_helix g) ;; t <- qtan hx ;; q_muln f t
  | _ => Ok f
  end.

Definition PA20 : qty := {| qk := KAngle; qv := of_Z 20; qu := "deg" |}.
(** the transverse pressure angle of a helical gear, as the Angle object the constructor stores *)
Definition transverse_pa (g : gear) : res qty :=
  hx <- the (g_helix g) ;; t <- qtan PA20 ;; c <- qcos hx ;; x <- pydiv t c ;; q_new KAngle (fatan x) "rad".
(** the Lewis factor *)
Definition lewis_factor (g : gear) : res (num A) :=
  match g_kind g with
  | ESpur => Ok (lewis_interp lewis_table (of_Z (g_n g)))
  | EHelical =>
      hx <- the (g_helix g) ;;
      tpa <- transverse_pa g ;;
      ct <- qcos tpa ;; th <- qtan hx ;;
      bha <- q_new KAngle (fatan (mul ct th)) "rad" ;;
      cb <- qcos bha ;; ch <- qcos hx ;;
      v1 <- pydiv (of_Z (g_n g)) (fsquare cb) ;; v <- pydiv v1 ch ;;
      Ok (lewis_interp lewis_table v)
  | EWheel =>
      pa <- the (g_pa g) ;;
      (fix find (t : list (num A * num A * num A)) : res (num A) :=
         match t with
         | [] => Err ValueError
         | (a, _, y) :: t' => e <- q_cmp MEq {| qk := KAngle; qv := a; qu := "deg" |} pa ;;   (* list.index: the tabulated angle is the left operand *) if e then Ok y else find t'
         end) worm_table
  | _ => Err AttributeError
  end.

Definition k067 : num A := lit (67 # 100) 0x1.570a3d70a3d71p-1%float.     (* the literal 0.67 *)
(** compute_bending_stress *)
Definition bending_stress (g : gear) (r : option role) (mate : option gear) (ft : qty) : res qty :=
  y <- lewis_factor g ;;
  match g_kind g with
  | EWheel =>
      mt <- match r, mate with Some _, Some m => Ok m | _, _ => Err ValueError end ;;
      dw <- the (g_dref mt) ;; hw <- the (g_helix mt) ;;
      a <- q_rmul pi dw ;; s <- qsin hw ;; b <- q_muln a s ;; np <- q_divn b (of_Z (g_n g)) ;;
      fw <- the (g_face g) ;;
      lim <- q_rmul k067 dw ;;
      lt <- q_lt lim fw ;;
      let eff := if lt then lim else fw in            (* min(face_width, 0.67 * d_worm) *)
      ar <- q_mulq np eff ;; st <- q_divq ft ar ;; q_divn st y
  | _ =>
      m <- the (g_module g) ;; fw <- the (g_face g) ;;
      ar <- q_mulq m fw ;; st <- q_divq ft ar ;; q_divn st y
  end.

(** compute_contact_stress (spur and helical gears) *)
Definition contact_stress (g : gear) (r : option role) (mate : option gear) (ft : qty) : res qty :=
  mt <- match r, mate with Some _, Some m => Ok m | _, _ => Err ValueError end ;;
  dm <- match g_module mt with Some _ => ref_diameter mt | None => Err ValueError end ;;
  em <- match g_emod mt with Some e => Ok e | None => Err ValueError end ;;
  e <- the (g_emod g) ;; d <- ref_diameter g ;; fw <- the (g_face g) ;;
  es <- q_add e em ;; k <- q_ratio em es ;; e2 <- q_rmul (of_Z 2) e ;; eeq <- q_muln e2 k ;;
  pa <- (match g_kind g with EHelical => transverse_pa g | _ => Ok PA20 end) ;;
  s <- qsin pa ;; c <- qcos pa ;;
  ds <- q_add d dm ;; k2 <- q_ratio dm ds ;;
  i1 <- q_rmul (div s (of_Z 2)) d ;; ics <- q_muln i1 k2 ;;
  f1 <- q_divn ft c ;;
  w <- (match g_kind g with
        | EHelical => hx <- the (g_helix g) ;; ch <- qcos hx ;; q_divn fw ch
        | _ => Ok fw end) ;;
  ar <- q_mulq w ics ;;
  cp <- q_divq f1 ar ;;
  ep <- q_to eeq "Pa" ;; cpp <- q_to cp "Pa" ;;
  q_new KStress (mul (lit (131461 # 500000) 0x1.0d3b6cbd987c6p-2%float) (sqrtn (mul (qv ep) (qv cpp)))) "Pa".
End Gears.
