(** * SolverCorr: executable comparison of the Solver model (binary64 instance) with what gearpy recorded.
    The harness writes scenarios with the implementation's histories; [failing] returns (index, code of the first differing field). *)
From Coq Require Import ZArith String List Bool PrimFloat.
From GP Require Import ArithDef FloatUtil UnitsCore PyUnits QOps Motor Solver.
Import ListNotations.
Open Scope string_scope.

Section Corr.
Variable O : oracle.
Notation FX := (FA O).
Notation fqty := (qty FX).

Definition fu := (float * string)%type.
Record row := { r_time : fu; r_pos : list fu; r_spd : list fu; r_acc : list fu; r_tq : list fu; r_dtq : list fu; r_ltq : list fu; r_pwm : float; r_cur : option fu }.
(** what gearpy did: returned, with the history on record at the end and the solver's flag; or raised, with the instants it had
    completely recorded since the last reset *)
(** per element and per recorded variable: the largest magnitude gearpy recorded in the scenario (the natural scale of rounding noise) *)
Record scales := { z_pos : list float; z_spd : list float; z_acc : list float; z_tq : list float; z_dtq : list float; z_ltq : list float; z_cur : float }.
Inductive expect := EHist (rows : list row) (locked : option bool) | EErr (e : exn) (part : list row).      (* locked: the solver's private flag when it can be read *)

Record scase := { k_chain : @chain FX; k_load : @loadexpr FX; k_pos0 : fqty; k_spd0 : fqty; k_ops : list (@sop FX);
                  k_more : list (@chain FX * @loadexpr FX * list (@sop FX));   (* further segments after the user re-declared the external torque
                                                                          or a mating (its efficiency): the chain and load then in force *)
                  k_pre : list (list row);                               (* the history gearpy had on record at each reset it executed *)
                  k_scales : scales;
                  k_expect : expect }.
Fixpoint exec_segs (segs : list (@chain FX * @loadexpr FX * list (@sop FX))) (st : @sys FX) : res (@sys FX) :=
  match segs with
  | [] => Ok st
  | (c, l, ops) :: segs' => st1 <- exec c (eval_load l) ops st ;; exec_segs segs' st1
  end.

(** two comparison modes: bit for bit ([tol = false]), or within 1e-9 relative ([tol = true]: used only to CLASSIFY a disagreement
    as rounding-level, never to accept one silently) *)
Definition f_close (x y : float) : bool :=
  fbits_eq x y || PrimFloat.leb (PrimFloat.abs (PrimFloat.sub x y))
                                (PrimFloat.add (PrimFloat.mul 0x1.12e0be826d695p-30 (PrimFloat.add (PrimFloat.abs x) (PrimFloat.abs y))) 0x1p-1000).
Section Mode.
Variable tol : bool.
Definition f_eq (x y : float) : bool := if tol then f_close x y else fbits_eq x y.
(** within 1e-9 of the values themselves or of the variable's scale [z] in the scenario (a difference of nearly equal numbers is
    exact to rounding of its operands, not of itself) *)
Definition f_eqz (z x y : float) : bool :=
  if tol then f_close x y || PrimFloat.leb (PrimFloat.abs (PrimFloat.sub x y)) (PrimFloat.mul 0x1.12e0be826d695p-30 z) else fbits_eq x y.
Definition fu_eqb (q : fqty) (x : fu) : bool := f_eq (qv q) (fst x) && String.eqb (qu q) (snd x).
Definition fu_eqz (z : float) (q : fqty) (x : fu) : bool := f_eqz z (qv q) (fst x) && String.eqb (qu q) (snd x).
Fixpoint fus_eqb (zs : list float) (l : list fqty) (x : list fu) : bool :=
  match l, x with
  | [], [] => true
  | q :: l', y :: x' => fu_eqz (hd 0%float zs) q y && fus_eqb (tl zs) l' x'
  | _, _ => false end.
Definition last_fu_eqb (zs : list float) (l : list fqty) (x : list fu) : bool :=
  match rev l, rev x with q :: _, y :: _ => fu_eqz (last zs 0%float) q y | [], [] => true | _, _ => false end.
(** code of the first differing field of one instant: 0 = none; 2/3/4 = position/speed/acceleration of an upstream element
    while the last element's agrees; 22/23/24 = the last element's differs *)
Definition row_code (z : scales) (t : fqty) (s : @snap FX) (r : row) : N :=
  if negb (fu_eqb t (r_time r)) then 1 else
  if negb (last_fu_eqb (z_pos z) (s_pos s) (r_pos r)) then 22 else
  if negb (fus_eqb (z_pos z) (s_pos s) (r_pos r)) then 2 else
  if negb (last_fu_eqb (z_spd z) (s_spd s) (r_spd r)) then 23 else
  if negb (fus_eqb (z_spd z) (s_spd s) (r_spd r)) then 3 else
  if negb (fus_eqb (z_ltq z) (s_ltq s) (r_ltq r)) then 7 else
  if negb (f_eq (s_pwm s) (r_pwm r)) then 8 else
  if negb (fus_eqb (z_dtq z) (s_dtq s) (r_dtq r)) then 6 else
  if negb (fus_eqb (z_tq z) (s_tq s) (r_tq r)) then 5 else
  if negb (last_fu_eqb (z_acc z) (s_acc s) (r_acc r)) then 24 else
  if negb (fus_eqb (z_acc z) (s_acc s) (r_acc r)) then 4 else
  if negb (match s_cur s, r_cur r with None, None => true | Some q, Some x => fu_eqz (z_cur z) q x | _, _ => false end) then 9 else 0.
Fixpoint rows_code (z : scales) (h : list (fqty * @snap FX)) (rs : list row) (i : N) : N * N :=     (* (code, instant index) *)
  match h, rs with
  | [], [] => (0, 0)%N
  | (t, s) :: h', r :: rs' => let c := row_code z t s r in if N.eqb c 0 then rows_code z h' rs' (N.succ i) else (c, i)
  | _, _ => (11, i)%N
  end.
(** ** the same operations keeping the state reached when an instant raises.  Used only to ATTRIBUTE a disagreement in which the
    model raises and gearpy returns: the instants the model recorded before raising are compared with gearpy's, and a field
    that already differs there is reported instead of the exception.  [run_p_ok] ties it to [run]. *)
Fixpoint loop_p (c : @chain FX) load ctl (stop : option (@stopcond FX)) (J dt : fqty) (ts : list fqty) (st : @sys FX) : @sys FX * option exn :=
  match ts with
  | [] => (st, None)
  | t :: ts' =>
      match (v <- integrate (y_live st) dt ;; record_instant c load ctl J t v st (Some dt)) with
      | Err e => (st, Some e)
      | Ok (st1, s) =>
          match (match stop with Some sc => stop_check sc s | None => Ok false end) with
          | Err e => (st1, Some e)
          | Ok true => (st1, None)
          | Ok false => loop_p c load ctl stop J dt ts' st1
          end
      end
  end.
Definition run_pre (c : @chain FX) load ctl (dt T : fqty) (st : @sys FX) : res (fqty * fqty * @sys FX * Z) :=
  ge <- q_ge dt T ;;
  if ge then Err ValueError else
  J <- equivalent_inertia c ;;
  r <- (match y_hist st with
        | (tl, _) :: _ => t0 <- q_to tl (qu dt) ;; Ok (t0, st)
        | [] =>
            t0 <- q_new KTime zero (qu dt) ;;
            r0 <- record_instant c load ctl J t0 (y_live st)
                    {| y_hist := []; y_live := y_live st; y_locked := false |} None ;;
            Ok (t0, fst r0)
        end) ;;
  let (t0, st0) := r in
  x <- q_ratio T dt ;;
  Ok (J, t0, st0, round_half_even x).
Definition run_p (c : @chain FX) load ctl stop (dt T : fqty) (st : @sys FX) : @sys FX * option exn :=
  match run_pre c load ctl dt T st with
  | Err e => (st, Some e)
  | Ok (J, t0, st0, n) => loop_p c load ctl stop J dt (grid_from (qv t0) (qv dt) (qu dt) 1 (Z.to_nat n)) st0
  end.
Definition hist := list (fqty * @snap FX).
(** run the operations keeping (state reached, exception if any, the histories on record at each executed reset, oldest first) *)
Fixpoint exec_t (c : @chain FX) load (ops : list (@sop FX)) (st : @sys FX) (acc : list hist) : @sys FX * option exn * list hist :=
  match ops with
  | [] => (st, None, acc)
  | o :: ops' =>
      match o with
      | SRun dt T ctl stop =>
          let (st1, e) := run_p c load ctl stop dt T st in
          match e with Some x => (st1, Some x, acc) | None => exec_t c load ops' st1 acc end
      | SReset => match reset st with
                  | Ok st1 => exec_t c load ops' st1 (acc ++ [rev (y_hist st)])
                  | Err e => (st, Some e, acc)
                  end
      | _ => match step_op c load st o with Ok st1 => exec_t c load ops' st1 acc | Err e => (st, Some e, acc) end
      end
  end.
Fixpoint exec_segs_t (segs : list (@chain FX * @loadexpr FX * list (@sop FX))) (st : @sys FX) (acc : list hist)
    : @sys FX * option exn * list hist :=
  match segs with
  | [] => (st, None, acc)
  | (c, l, ops) :: segs' =>
      match exec_t c (eval_load l) ops st acc with
      | (st1, None, acc1) => exec_segs_t segs' st1 acc1
      | r => r
      end
  end.
(** the grid instant at which the model raised, when it raised while computing an instant of a run (attribution only: if gearpy
    recorded ANOTHER time at that index, the disagreement is about the time axis, not about what raised) *)
Fixpoint loop_ft (c : @chain FX) load ctl (stop : option (@stopcond FX)) (J dt : fqty) (ts : list fqty) (st : @sys FX) : option fqty :=
  match ts with
  | [] => None
  | t :: ts' =>
      match (v <- integrate (y_live st) dt ;; record_instant c load ctl J t v st (Some dt)) with
      | Err _ => Some t
      | Ok (st1, s) =>
          match (match stop with Some sc => stop_check sc s | None => Ok false end) with
          | Ok false => loop_ft c load ctl stop J dt ts' st1
          | _ => None
          end
      end
  end.
Definition run_ft (c : @chain FX) load ctl stop (dt T : fqty) (st : @sys FX) : option fqty :=
  match run_pre c load ctl dt T st with
  | Err _ => None
  | Ok (J, t0, st0, n) => loop_ft c load ctl stop J dt (grid_from (qv t0) (qv dt) (qu dt) 1 (Z.to_nat n)) st0
  end.
Fixpoint exec_ft (c : @chain FX) load (ops : list (@sop FX)) (st : @sys FX) : option fqty * option (@sys FX) :=   (* (time, state if all ran) *)
  match ops with
  | [] => (None, Some st)
  | o :: ops' =>
      match o with
      | SRun dt T ctl stop =>
          match run_p c load ctl stop dt T st with
          | (st1, None) => exec_ft c load ops' st1
          | (_, Some _) => (run_ft c load ctl stop dt T st, None)
          end
      | _ => match step_op c load st o with Ok st1 => exec_ft c load ops' st1 | Err _ => (None, None) end
      end
  end.
Fixpoint exec_segs_ft (segs : list (@chain FX * @loadexpr FX * list (@sop FX))) (st : @sys FX) : option fqty :=
  match segs with
  | [] => None
  | (c, l, ops) :: segs' =>
      match exec_ft c (eval_load l) ops st with
      | (_, Some st1) => exec_segs_ft segs' st1
      | (t, None) => t
      end
  end.
(** first differing field over the instants both sides have *)
Fixpoint rows_code_common (z : scales) (h : hist) (rs : list row) (i : N) : N * N :=
  match h, rs with
  | (t, s) :: h', r :: rs' => let c := row_code z t s r in if N.eqb c 0 then rows_code_common z h' rs' (N.succ i) else (c, i)
  | _, _ => (0, 0)%N
  end.
(** the histories at the resets both sides executed: first difference (complete comparison, lengths included) *)
Fixpoint first_diff (z : scales) (hs : list hist) (pre : list (list row)) : option (N * N) :=
  match hs, pre with
  | h :: hs', p :: pre' => let ci := rows_code z h p 0 in if N.eqb (fst ci) 0 then first_diff z hs' pre' else Some ci
  | _, _ => None
  end.
Definition exn_code (e : exn) : N :=
  match e with TypeError => 1 | ValueError => 2 | KeyError => 3 | ZeroDivisionError => 4 | NameError => 5 | IndexError => 6
             | AttributeError => 7 | OracleMiss => 8 | OutOfFuel => 9 end.
Definition case_code (k : scase) : N * N :=
  match exec_segs_t ((k_chain k, k_load k, k_ops k) :: k_more k) (initial (k_pos0 k) (k_spd0 k)) [] with
  | (stp, e, hs) =>
      match first_diff (k_scales k) hs (k_pre k) with
      | Some ci => ci
      | None =>
          let cur := rev (y_hist stp) in
          let nh := length hs in let np := length (k_pre k) in
          (* the rows of gearpy that the model's current segment corresponds to *)
          let other := match k_expect k with EHist rows _ => rows | EErr _ part => part end in
          let mine := if Nat.eqb nh np then other else nth nh (k_pre k) [] in
          match e, k_expect k with
          | None, EHist rows locked =>
              if negb (Nat.eqb nh np) then (11, 0)%N else
              let ci := rows_code (k_scales k) cur rows 0 in
              if negb (N.eqb (fst ci) 0) then ci else
              match locked with Some b => if Bool.eqb (y_locked stp) b then (0, 0)%N else (10, 0)%N | None => (0, 0)%N end
          | None, EErr _ part =>                      (* gearpy raised, the model did not: compare what gearpy had recorded in that segment *)
              let ci := if Nat.eqb nh np then rows_code_common (k_scales k) cur part 0 else rows_code_common (k_scales k) (nth np hs []) part 0 in
              if negb (N.eqb (fst ci) 0) then ci else (13, 0)%N
          | Some x, EErr e' _ =>
              let ci := if Nat.leb nh np then rows_code_common (k_scales k) cur mine 0 else (0, 0)%N in
              if negb (N.eqb (fst ci) 0) then ci else
              if Nat.eqb nh np && exn_eqb x e' then (0, 0)%N else (12, 0)%N
          | Some x, EHist _ _ =>                      (* the model raised, gearpy returned *)
              let ci := if Nat.leb nh np then rows_code_common (k_scales k) cur mine 0 else (0, 0)%N in
              if negb (N.eqb (fst ci) 0) then ci else
              (* gearpy recorded the instant at which the model raised: at the same time? *)
              match (if Nat.leb nh np then nth_error mine (length cur) else None),
                    exec_segs_ft ((k_chain k, k_load k, k_ops k) :: k_more k) (initial (k_pos0 k) (k_spd0 k)) with
              | Some r, Some t => if fu_eqb t (r_time r) then (14, exn_code x)%N else (1%N, N.of_nat (length cur))
              | _, _ => (14, exn_code x)%N
              end
          end
      end
  end.
End Mode.

(** the code reported for a scenario: the bit-for-bit comparison decides whether there is a disagreement; when there is one in a recorded
    FIELD (codes 1..9, 22..24) and the whole scenario agrees within 1e-9 relative, 100 is added to the code (rounding-level disagreement);
    200 when it agrees within rounding up to the point where a discrete decision (exception, flag, number of instants) comes out differently *)
Definition is_field (c : N) : bool := (N.leb 1 c && N.leb c 9) || (N.leb 22 c && N.leb c 24).
Definition case_code2 (k : scase) : N * N :=
  let c := case_code false k in
  if is_field (fst c) then
    let ct := fst (case_code true k) in
    if N.eqb ct 0 then (N.add 100 (fst c), snd c)
    else if negb (is_field ct) then (N.add 200 (fst c), snd c)      (* within rounding up to a discrete divergence (an exception, a flag, a length) *)
    else c
  else c.
Fixpoint failing_from (i : N) (l : list scase) : list (N * (N * N)) :=
  match l with
  | [] => []
  | k :: l' => let c := case_code2 k in
              if N.eqb (fst c) 0 then failing_from (N.succ i) l' else (i, c) :: failing_from (N.succ i) l'
  end.
Definition failing (l : list scase) : list (N * (N * N)) := failing_from 0 l.

(** the time grid alone (long runs): step count and sampled instants *)
Record gcase := { g_dt : fqty; g_T : fqty; g_last : option fqty; g_n : nat; g_samples : list (nat * float) }.
Definition gcase_code (g : gcase) : N :=
  match run_grid (g_dt g) (g_T g) (g_last g) with
  | Err _ => 14
  | Ok (t0, ts) =>
      if negb (Nat.eqb (length ts) (g_n g)) then 11
      else if forallb (fun p => match nth_error ts (fst p) with Some q => fbits_eq (qv q) (snd p) | None => false end) (g_samples g) then 0 else 1
  end.
Fixpoint gfailing_from (i : N) (l : list gcase) : list (N * (N * N)) :=
  match l with
  | [] => []
  | g :: l' => let c := gcase_code g in if N.eqb c 0 then gfailing_from (N.succ i) l' else (i, (c, 0%N)) :: gfailing_from (N.succ i) l'
  end.
Definition gfailing (l : list gcase) : list (N * (N * N)) := gfailing_from 0 l.

(** the motor law alone: compute_torque then compute_electric_current at a given speed and duty cycle *)
Inductive mexp := MOk (T : fu) (cur : option fu) | MErr (e : exn).
(* [mc_tq_unit]: between the two calls the user re-expresses the motor's driving torque in that unit (a copying [to]) *)
Record mcase := { mc_motor : @motor FX; mc_spd : fqty; mc_pwm : float; mc_tq_unit : option string; mc_exp : mexp }.
Definition mcase_code (k : mcase) : N :=
  let r := (d <- motor_torque (mc_motor k) (mc_spd k) (mc_pwm k) ;;
            d' <- match mc_tq_unit k with Some u => q_to d u | None => Ok d end ;;
            c <- motor_current (mc_motor k) d' (mc_pwm k) ;; Ok (d, c)) in
  match r, mc_exp k with
  | Ok (d, c), MOk T cur =>
      let cmp (tol : bool) : N :=
        let zt := PrimFloat.abs (qv (m_Tmax (mc_motor k))) in
        let zi := match m_imax (mc_motor k) with Some i => PrimFloat.abs (qv i) | None => 0%float end in
        if negb (fu_eqz tol zt d T) then 6%N
        else if match c, cur with None, None => true | Some q, Some x => fu_eqz tol zi q x | _, _ => false end then 0%N else 9%N in
      let c0 := cmp false in
      if N.eqb c0 0 then 0 else if N.eqb (cmp true) 0 then N.add 100 c0 else c0
  | Err e, MErr e' => if exn_eqb e e' then 0 else 12
  | Ok _, MErr _ => 13
  | Err _, MOk _ _ => 14
  end.
Fixpoint mfailing_from (i : N) (l : list mcase) : list (N * (N * N)) :=
  match l with
  | [] => []
  | g :: l' => let c := mcase_code g in if N.eqb c 0 then mfailing_from (N.succ i) l' else (i, (c, 0%N)) :: mfailing_from (N.succ i) l'
  end.
Definition mfailing (l : list mcase) : list (N * (N * N)) := mfailing_from 0 l.
End Corr.
