(** * SolverCorr: executable comparison of the Solver model (binary64 instance) with what gearpy recorded.
    The harness writes scenarios with the implementation's histories; [failing] returns (index, code of the first differing field). *)
From Coq Require Import ZArith String List Bool PrimFloat.
From GP Require Import ArithDef FloatUtil UnitsCore PyUnits QOps Motor Solver.
Import ListNotations.
Open Scope string_scope.

Section Corr.
Variable O : oracle.
Notation FX := (FA O).
Notation fqty := (qty FX).

Definition fu := (float * string)%type.
Record row := { r_time : fu; r_pos : list fu; r_spd : list fu; r_acc : list fu; r_tq : list fu; r_dtq : list fu; r_ltq : list fu; r_pwm : float; r_cur : option fu }.
Inductive expect := EHist (rows : list row) (locked : bool) | EErr (e : exn).

Record scase := { k_chain : @chain FX; k_load : @loadexpr FX; k_pos0 : fqty; k_spd0 : fqty; k_ops : list (@sop FX);
                  k_more : list (@loadexpr FX * list (@sop FX));      (* further segments after the user re-declared the external torque *)
                  k_expect : expect }.
Fixpoint exec_segs (c : @chain FX) (segs : list (@loadexpr FX * list (@sop FX))) (st : @sys FX) : res (@sys FX) :=
  match segs with
  | [] => Ok st
  | (l, ops) :: segs' => st1 <- exec c (eval_load l) ops st ;; exec_segs c segs' st1
  end.

Definition fu_eqb (q : fqty) (x : fu) : bool := fbits_eq (qv q) (fst x) && String.eqb (qu q) (snd x).
Fixpoint fus_eqb (l : list fqty) (x : list fu) : bool :=
  match l, x with [], [] => true | q :: l', y :: x' => fu_eqb q y && fus_eqb l' x' | _, _ => false end.
Definition last_fu_eqb (l : list fqty) (x : list fu) : bool :=
  match rev l, rev x with q :: _, y :: _ => fu_eqb q y | [], [] => true | _, _ => false end.
(** code of the first differing field of one instant: 0 = none; 2/3/4 = position/speed/acceleration of an upstream element
    while the last element's agrees; 22/23/24 = the last element's differs *)
Definition row_code (t : fqty) (s : @snap FX) (r : row) : N :=
  if negb (fu_eqb t (r_time r)) then 1 else
  if negb (last_fu_eqb (s_pos s) (r_pos r)) then 22 else
  if negb (fus_eqb (s_pos s) (r_pos r)) then 2 else
  if negb (last_fu_eqb (s_spd s) (r_spd r)) then 23 else
  if negb (fus_eqb (s_spd s) (r_spd r)) then 3 else
  if negb (fus_eqb (s_ltq s) (r_ltq r)) then 7 else
  if negb (fbits_eq (s_pwm s) (r_pwm r)) then 8 else
  if negb (fus_eqb (s_dtq s) (r_dtq r)) then 6 else
  if negb (fus_eqb (s_tq s) (r_tq r)) then 5 else
  if negb (last_fu_eqb (s_acc s) (r_acc r)) then 24 else
  if negb (fus_eqb (s_acc s) (r_acc r)) then 4 else
  if negb (match s_cur s, r_cur r with None, None => true | Some q, Some x => fu_eqb q x | _, _ => false end) then 9 else 0.
Fixpoint rows_code (h : list (fqty * @snap FX)) (rs : list row) (i : N) : N * N :=     (* (code, instant index) *)
  match h, rs with
  | [], [] => (0, 0)%N
  | (t, s) :: h', r :: rs' => let c := row_code t s r in if N.eqb c 0 then rows_code h' rs' (N.succ i) else (c, i)
  | _, _ => (11, i)%N
  end.
Definition exn_code (e : exn) : N :=
  match e with TypeError => 1 | ValueError => 2 | KeyError => 3 | ZeroDivisionError => 4 | NameError => 5 | IndexError => 6
             | AttributeError => 7 | OracleMiss => 8 | OutOfFuel => 9 end.
Definition case_code (k : scase) : N * N :=
  let r := exec_segs (k_chain k) ((k_load k, k_ops k) :: k_more k) (initial (k_pos0 k) (k_spd0 k)) in
  match r, k_expect k with
  | Ok st, EHist rows locked =>
      let (c, i) := rows_code (rev (y_hist st)) rows 0 in
      if negb (N.eqb c 0) then (c, i) else if Bool.eqb (y_locked st) locked then (0, 0)%N else (10, 0)%N
  | Err e, EErr e' => if exn_eqb e e' then (0, 0)%N else (12, 0)%N
  | Ok _, EErr _ => (13, 0)%N
  | Err e, EHist _ _ => (14, exn_code e)%N
  end.
Fixpoint failing_from (i : N) (l : list scase) : list (N * (N * N)) :=
  match l with
  | [] => []
  | k :: l' => let c := case_code k in
              if N.eqb (fst c) 0 then failing_from (N.succ i) l' else (i, c) :: failing_from (N.succ i) l'
  end.
Definition failing (l : list scase) : list (N * (N * N)) := failing_from 0 l.

(** the time grid alone (long runs): step count and sampled instants *)
Record gcase := { g_dt : fqty; g_T : fqty; g_last : option fqty; g_n : nat; g_samples : list (nat * float) }.
Definition gcase_code (g : gcase) : N :=
  match run_grid (g_dt g) (g_T g) (g_last g) with
  | Err _ => 14
  | Ok (t0, ts) =>
      if negb (Nat.eqb (length ts) (g_n g)) then 11
      else if forallb (fun p => match nth_error ts (fst p) with Some q => fbits_eq (qv q) (snd p) | None => false end) (g_samples g) then 0 else 1
  end.
Fixpoint gfailing_from (i : N) (l : list gcase) : list (N * (N * N)) :=
  match l with
  | [] => []
  | g :: l' => let c := gcase_code g in if N.eqb c 0 then gfailing_from (N.succ i) l' else (i, (c, 0%N)) :: gfailing_from (N.succ i) l'
  end.
Definition gfailing (l : list gcase) : list (N * (N * N)) := gfailing_from 0 l.

(** the motor law alone: compute_torque then compute_electric_current at a given speed and duty cycle *)
Inductive mexp := MOk (T : fu) (cur : option fu) | MErr (e : exn).
Record mcase := { mc_motor : @motor FX; mc_spd : fqty; mc_pwm : float; mc_exp : mexp }.
Definition mcase_code (k : mcase) : N :=
  let r := (d <- motor_torque (mc_motor k) (mc_spd k) (mc_pwm k) ;; c <- motor_current (mc_motor k) d (mc_pwm k) ;; Ok (d, c)) in
  match r, mc_exp k with
  | Ok (d, c), MOk T cur =>
      if negb (fu_eqb d T) then 6
      else if match c, cur with None, None => true | Some q, Some x => fu_eqb q x | _, _ => false end then 0 else 9
  | Err e, MErr e' => if exn_eqb e e' then 0 else 12
  | Ok _, MErr _ => 13
  | Err _, MOk _ _ => 14
  end.
Fixpoint mfailing_from (i : N) (l : list mcase) : list (N * (N * N)) :=
  match l with
  | [] => []
  | g :: l' => let c := mcase_code g in if N.eqb c 0 then mfailing_from (N.succ i) l' else (i, (c, 0%N)) :: mfailing_from (N.succ i) l'
  end.
Definition mfailing (l : list mcase) : list (N * (N * N)) := mfailing_from 0 l.
End Corr.
