(** * RelProofs: what a declaration does to the link state (C10) and what assembly returns (C20), generic in the arithmetic. *)
From Coq Require Import ZArith QArith String List Bool Lia.
From GP Require Import ArithDef UnitsCore PyUnits QOps Relations.
Import ListNotations.

Section RelProofs.
Context {A : Arith}.
Notation rstate := (@rstate A).

(** ** list updates *)
Lemma set_nth_length (s : rstate) i x : length (set_nth s i x) = length s.
Proof. revert i. induction s as [|y s IH]; intros [|i]; cbn; auto. Qed.
Lemma set_nth_same (s : rstate) i x : i < length s -> nth_error (set_nth s i x) i = Some x.
Proof. revert i. induction s as [|y s IH]; intros [|i] H; cbn in *; try lia; auto. apply IH. lia. Qed.
Lemma set_nth_other (s : rstate) i k x : k <> i -> nth_error (set_nth s i x) k = nth_error s k.
Proof. revert i k. induction s as [|y s IH]; intros [|i] [|k] H; cbn; auto; try congruence. Qed.
Lemma upd_length (s : rstate) i f : length (upd s i f) = length s.
Proof. unfold upd. destruct (nth_error s i) as [[d l]|]; [apply set_nth_length|reflexivity]. Qed.
Lemma upd_other (s : rstate) i k f : k <> i -> nth_error (upd s i f) k = nth_error s k.
Proof. intros H. unfold upd. destruct (nth_error s i) as [[d l]|]; [apply set_nth_other; exact H|reflexivity]. Qed.
Lemma upd_same (s : rstate) i f d l : nth_error s i = Some (d, l) -> nth_error (upd s i f) i = Some (d, f l).
Proof. intros H. unfold upd. rewrite H. apply set_nth_same. apply nth_error_Some. congruence. Qed.
Lemma upd_decl (s : rstate) i k f : option_map fst (nth_error (upd s i f) k) = option_map fst (nth_error s k).
Proof.
  destruct (Nat.eq_dec k i) as [->|Hn]; [|rewrite upd_other by exact Hn; reflexivity].
  destruct (nth_error s i) as [[d l]|] eqn:E; [rewrite (upd_same _ _ _ _ _ E); reflexivity|].
  unfold upd. rewrite E, E. reflexivity.
Qed.

(** ** frame: a declaration changes nothing but the link records of the two elements; a rejected one changes nothing at all *)
Theorem declare_frame (s s' : rstate) c : declare s c = Ok s' ->
  length s' = length s /\
  (forall k, option_map fst (nth_error s' k) = option_map fst (nth_error s k)) /\
  (forall k, k <> (match c with CGear i _ _ | CWorm i _ _ | CJoint i _ => i end) ->
             k <> (match c with CGear _ j _ | CWorm _ j _ | CJoint _ j => j end) -> nth_error s' k = nth_error s k).
Proof.
  destruct c as [i j e|i j f|i j]; cbn [declare]; unfold gear_mating, worm_mating, fixed_joint, bind; intros H.
  - destruct (get s i) as [[dm lm]|]; [|discriminate]. destruct (get s j) as [[ds ls]|]; [|discriminate].
    repeat match type of H with
    | (if ?b then _ else _) = _ => destruct b; [discriminate|]
    | (match ?x with Ok _ => _ | Err _ => _ end) = _ => destruct x as [[|]|]; try discriminate
    end.
    injection H as <-. repeat split.
    + rewrite !upd_length. reflexivity.
    + intros k. rewrite !upd_decl. reflexivity.
    + intros k Hi Hj. rewrite !upd_other by assumption. reflexivity.
  - destruct (get s i) as [[dm lm]|]; [|discriminate]. destruct (get s j) as [[ds ls]|]; [|discriminate].
    repeat match type of H with
    | (if ?b then _ else _) = _ => destruct b; [discriminate|]
    | (match ?x with Ok _ => _ | Err _ => _ end) = _ => destruct x as [?v|]; [|discriminate]
    | (let (_, _) := ?p in _) = _ => destruct p
    end.
    injection H as <-. repeat split.
    + rewrite !upd_length. reflexivity.
    + intros k. rewrite !upd_decl. reflexivity.
    + intros k Hi Hj. destruct (ekind_eqb (d_kind dm) EWorm); rewrite !upd_other by assumption; reflexivity.
  - destruct (get s i) as [[dm lm]|]; [|discriminate]. destruct (get s j) as [[ds ls]|]; [|discriminate].
    cbn [fst] in H. destruct (ekind_eqb (d_kind ds) EMotor); [discriminate|]. destruct (Nat.eqb i j); [discriminate|].
    injection H as <-. repeat split.
    + rewrite !upd_length. reflexivity.
    + intros k. rewrite !upd_decl. reflexivity.
    + intros k Hi Hj. rewrite !upd_other by assumption. reflexivity.
Qed.
(** any sequence of calls, failing ones included: the elements' constructor data never change, nor does their number *)
Theorem declare_all_decls cs (s : rstate) :
  length (declare_all cs s) = length s /\ forall k, option_map fst (nth_error (declare_all cs s) k) = option_map fst (nth_error s k).
Proof.
  revert s. induction cs as [|c cs IH]; intros s; cbn [declare_all fold_left]; [auto|].
  fold (declare_all cs (declare1 s c)). destruct (IH (declare1 s c)) as (Hl & Hd). unfold declare1 in *.
  destruct (declare s c) as [s1|] eqn:E; [|auto]. destruct (declare_frame _ _ _ E) as (Hl1 & Hd1 & _).
  split; [congruence|]. intros k. rewrite Hd, Hd1. reflexivity.
Qed.

(** ** what an accepted call sets *)
Definition link_of (s : rstate) (k : nat) : option (@elink A) := option_map snd (nth_error s k).

Theorem gear_mating_sets (s s' : rstate) i j eff : gear_mating s i j eff = Ok s' ->
  exists dm lm ds ls, nth_error s i = Some (dm, lm) /\ nth_error s j = Some (ds, ls) /\ i <> j /\
    is_gearbase (d_kind dm) = true /\ is_gearbase (d_kind ds) = true /\
    ltb one eff = false /\ ltb eff zero = false /\
    let ratio := div (of_Z (d_n ds)) (of_Z (d_n dm)) in
    leb ratio zero = false /\
    link_of s' i = Some {| l_drives := Some j; l_driven_by := l_driven_by lm; l_role := Some RMaster; l_ratio := l_ratio lm; l_eff := l_eff lm; l_selflock := l_selflock lm |} /\
    link_of s' j = Some {| l_drives := l_drives ls; l_driven_by := Some i; l_role := Some RSlave; l_ratio := Some ratio; l_eff := eff; l_selflock := l_selflock ls |}.
Proof.
  unfold gear_mating, bind, get. intros H.
  destruct (nth_error s i) as [[dm lm]|] eqn:Ei; [|discriminate]. destruct (nth_error s j) as [[ds ls]|] eqn:Ej; [|discriminate].
  destruct (is_gearbase (d_kind dm)) eqn:G1; [|discriminate]. destruct (is_gearbase (d_kind ds)) eqn:G2; [|discriminate]. cbn [negb] in H.
  destruct (Nat.eqb i j) eqn:En; [discriminate|]. apply Nat.eqb_neq in En.
  destruct (ltb one eff) eqn:E1; [discriminate|]. destruct (ltb eff zero) eqn:E2; [discriminate|]. cbn [orb] in H.
  destruct (opt_ne (d_module dm) (d_module ds)) as [[|]|]; try discriminate.
  match type of H with (match ?x with Ok _ => _ | Err _ => _ end) = _ => destruct x as [[|]|]; try discriminate end.
  destruct (leb (div (of_Z (d_n ds)) (of_Z (d_n dm))) zero) eqn:El; [discriminate|]. injection H as <-.
  exists dm, lm, ds, ls. repeat split; auto; unfold link_of.
  - rewrite upd_other by congruence. rewrite (upd_same _ _ _ _ _ Ei). reflexivity.
  - assert (Ej' : nth_error (upd s i (fun l => {| l_drives := Some j; l_driven_by := l_driven_by l; l_role := Some RMaster; l_ratio := l_ratio l; l_eff := l_eff l; l_selflock := l_selflock l |})) j = Some (ds, ls))
      by (rewrite upd_other by congruence; exact Ej).
    rewrite (upd_same _ _ _ _ _ Ej'). reflexivity.
Qed.
Theorem fixed_joint_sets (s s' : rstate) i j : fixed_joint s i j = Ok s' ->
  exists dm lm ds ls, nth_error s i = Some (dm, lm) /\ nth_error s j = Some (ds, ls) /\ i <> j /\ ekind_eqb (d_kind ds) EMotor = false /\
    link_of s' i = Some {| l_drives := Some j; l_driven_by := l_driven_by lm; l_role := l_role lm; l_ratio := l_ratio lm; l_eff := l_eff lm; l_selflock := l_selflock lm |} /\
    link_of s' j = Some {| l_drives := l_drives ls; l_driven_by := Some i; l_role := l_role ls; l_ratio := Some one; l_eff := l_eff ls; l_selflock := l_selflock ls |}.
Proof.
  unfold fixed_joint, bind, get. intros H.
  destruct (nth_error s i) as [[dm lm]|] eqn:Ei; [|discriminate]. destruct (nth_error s j) as [[ds ls]|] eqn:Ej; [|discriminate].
  cbn [fst] in H. destruct (ekind_eqb (d_kind ds) EMotor) eqn:Em; [discriminate|].
  destruct (Nat.eqb i j) eqn:En; [discriminate|]. apply Nat.eqb_neq in En. injection H as <-.
  exists dm, lm, ds, ls. repeat split; auto; unfold link_of.
  - rewrite upd_other by congruence. rewrite (upd_same _ _ _ _ _ Ei). reflexivity.
  - assert (Ej' : nth_error (upd s i (fun l => {| l_drives := Some j; l_driven_by := l_driven_by l; l_role := l_role l; l_ratio := l_ratio l; l_eff := l_eff l; l_selflock := l_selflock l |})) j = Some (ds, ls))
      by (rewrite upd_other by congruence; exact Ej).
    rewrite (upd_same _ _ _ _ _ Ej'). reflexivity.
Qed.
(** worm mating: accepted only with efficiency in [0,1] and positive ratio; the efficiency is the friction formula, the worm is
    flagged self-locking exactly when f > cos(alpha) * tan(beta) (as the arithmetic's comparison sees it) *)
Theorem worm_mating_sets (s s' : rstate) i j f : worm_mating s i j f = Ok s' ->
  exists dm lm ds ls pam hm c t x, nth_error s i = Some (dm, lm) /\ nth_error s j = Some (ds, ls) /\
    is_wormish (d_kind dm) = true /\ is_wormish (d_kind ds) = true /\ ekind_eqb (d_kind dm) (d_kind ds) = false /\
    ltb one f = false /\ ltb f zero = false /\
    d_pa dm = Some pam /\ d_helix dm = Some hm /\ qcos pam = Ok c /\ qtan hm = Ok t /\ pydiv f t = Ok x /\
    let worm_drives := ekind_eqb (d_kind dm) EWorm in
    let ratio := div (of_Z (d_n ds)) (of_Z (d_n dm)) in
    exists eff, (if worm_drives then pydiv (sub c (mul f t)) (add c x) else pydiv (sub c x) (add c (mul f t))) = Ok eff /\
    ltb one eff = false /\ ltb eff zero = false /\ leb ratio zero = false /\
    (exists lj, link_of s' j = Some lj /\ l_driven_by lj = Some i /\ l_ratio lj = Some ratio /\ l_eff lj = eff) /\
    (exists li, link_of s' i = Some li /\ l_drives li = Some j) /\
    exists dw lw paw hw cw tw, nth_error s (if worm_drives then i else j) = Some (dw, lw) /\ d_pa dw = Some paw /\ d_helix dw = Some hw /\
      qcos paw = Ok cw /\ qtan hw = Ok tw /\
      exists lw', link_of s' (if worm_drives then i else j) = Some lw' /\ l_selflock lw' = Some (ltb (mul cw tw) f).
Proof.
  unfold worm_mating, bind, get. intros H.
  destruct (nth_error s i) as [[dm lm]|] eqn:Ei; [|discriminate]. destruct (nth_error s j) as [[ds ls]|] eqn:Ej; [|discriminate].
  destruct (is_wormish (d_kind dm)) eqn:G1; [|discriminate]. destruct (is_wormish (d_kind ds)) eqn:G2; [|discriminate]. cbn [negb] in H.
  destruct (ekind_eqb (d_kind dm) (d_kind ds)) eqn:Ek; [discriminate|].
  destruct (ltb one f) eqn:E1; [discriminate|]. destruct (ltb f zero) eqn:E2; [discriminate|]. cbn [orb] in H.
  unfold the in H. destruct (d_pa dm) as [pam|] eqn:Epa; [|discriminate]. destruct (d_pa ds) as [pas|]; [|discriminate].
  destruct (q_cmp MNe pam pas) as [[|]|]; try discriminate.
  destruct (d_helix dm) as [hm|] eqn:Eh; [|discriminate].
  destruct (qcos pam) as [c|] eqn:Ec; [|discriminate]. destruct (qtan hm) as [t|] eqn:Et; [|discriminate].
  assert (Hij : i <> j). { intro E. subst j. rewrite Ei in Ej. injection Ej as <- <-. destruct (d_kind dm); discriminate. }
  set (wd := ekind_eqb (d_kind dm) EWorm) in *.
  destruct (pydiv f t) as [x|] eqn:Ex; [|destruct wd; discriminate].
  destruct (if wd then pydiv (sub c (mul f t)) (add c x) else pydiv (sub c x) (add c (mul f t))) as [eff|] eqn:Ee; [|destruct wd; rewrite Ee in H; discriminate].
  assert (H' : (let (ratio, eff0) := pair (div (of_Z (d_n ds)) (of_Z (d_n dm))) eff in
               match match nth_error s (if wd then i else j) with Some x0 => Ok x0 | None => Err IndexError end with
               | Ok w => match match d_pa (fst w) with Some q => Ok q | None => Err AttributeError end with
                         | Ok paw => match match d_helix (fst w) with Some q => Ok q | None => Err AttributeError end with
                                     | Ok hw => match qcos paw with Ok cw => match qtan hw with Ok tw =>
                                          if ltb one eff0 || ltb eff0 zero then Err ValueError else if leb ratio zero then Err ValueError else
                                          Ok (upd (upd (upd s i (fun l => {| l_drives := Some j; l_driven_by := l_driven_by l; l_role := Some RMaster; l_ratio := l_ratio l; l_eff := l_eff l; l_selflock := l_selflock l |})) j
                                                (fun l => {| l_drives := l_drives l; l_driven_by := Some i; l_role := Some RSlave; l_ratio := Some ratio; l_eff := eff0; l_selflock := l_selflock l |}))
                                               (if wd then i else j) (fun l => {| l_drives := l_drives l; l_driven_by := l_driven_by l; l_role := l_role l; l_ratio := l_ratio l; l_eff := l_eff l; l_selflock := Some (ltb (mul cw tw) f) |}))
                                          | Err e => Err e end | Err e => Err e end
                                     | Err e => Err e end
                         | Err e => Err e end
               | Err e => Err e end) = Ok s').
  { destruct wd; rewrite Ee in H; exact H. }
  clear H. cbv beta iota in H'.
  destruct (nth_error s (if wd then i else j)) as [[dw lw]|] eqn:Ew; [|discriminate]. cbn [fst] in H'.
  destruct (d_pa dw) as [paw|] eqn:Epw; [|discriminate]. destruct (d_helix dw) as [hw|] eqn:Ehw; [|discriminate].
  destruct (qcos paw) as [cw|] eqn:Ecw; [|discriminate]. destruct (qtan hw) as [tw|] eqn:Etw; [|discriminate].
  destruct (ltb one eff) eqn:E3; [discriminate|]. destruct (ltb eff zero) eqn:E4; [discriminate|]. cbn [orb] in H'.
  destruct (leb (div (of_Z (d_n ds)) (of_Z (d_n dm))) zero) eqn:El; [discriminate|]. injection H' as <-.
  exists dm, lm, ds, ls, pam, hm, c, t, x. repeat (split; [first [reflexivity|assumption]|]). fold wd. cbn zeta.
  exists eff. split; [exact Ee|]. repeat (split; [assumption|]).
  set (f1 := fun l : @elink A => {| l_drives := Some j; l_driven_by := l_driven_by l; l_role := Some RMaster; l_ratio := l_ratio l; l_eff := l_eff l; l_selflock := l_selflock l |}).
  set (f2 := fun l : @elink A => {| l_drives := l_drives l; l_driven_by := Some i; l_role := Some RSlave; l_ratio := Some (div (of_Z (d_n ds)) (of_Z (d_n dm))); l_eff := eff; l_selflock := l_selflock l |}).
  set (f3 := fun l : @elink A => {| l_drives := l_drives l; l_driven_by := l_driven_by l; l_role := l_role l; l_ratio := l_ratio l; l_eff := l_eff l; l_selflock := Some (ltb (mul cw tw) f) |}).
  assert (E1i : nth_error (upd s i f1) i = Some (dm, f1 lm)) by (apply upd_same; exact Ei).
  assert (E1j : nth_error (upd s i f1) j = Some (ds, ls)) by (rewrite upd_other by congruence; exact Ej).
  assert (E2j : nth_error (upd (upd s i f1) j f2) j = Some (ds, f2 ls)) by (apply upd_same; exact E1j).
  assert (E2i : nth_error (upd (upd s i f1) j f2) i = Some (dm, f1 lm)) by (rewrite upd_other by congruence; exact E1i).
  unfold link_of. split; [|split].
  - destruct wd.
    + rewrite upd_other by congruence. rewrite E2j. cbn. eexists. split; [reflexivity|]. cbn. auto.
    + rewrite (upd_same _ _ _ _ _ E2j). cbn. eexists. split; [reflexivity|]. cbn. auto.
  - destruct wd.
    + rewrite (upd_same _ _ _ _ _ E2i). cbn. eexists. split; [reflexivity|]. reflexivity.
    + rewrite upd_other by congruence. rewrite E2i. cbn. eexists. split; [reflexivity|]. reflexivity.
  - exists dw, lw, paw, hw, cw, tw. repeat (split; [assumption|]).
    destruct wd.
    + rewrite (upd_same _ _ _ _ _ E2i). cbn. eexists. split; reflexivity.
    + rewrite (upd_same _ _ _ _ _ E2j). cbn. eexists. split; reflexivity.
Qed.

(** ** assembly (C20) *)
Inductive drives_path (s : rstate) : nat -> list nat -> Prop :=
  | dp_end i x : get s i = Ok x -> l_drives (snd x) = None -> drives_path s i [i]
  | dp_step i x j r : get s i = Ok x -> l_drives (snd x) = Some j -> drives_path s j r -> drives_path s i (i :: r).

Lemma walk_spec fuel (s : rstate) i ids : walk fuel s i = Ok ids -> drives_path s i ids.
Proof.
  revert i ids. induction fuel as [|f IH]; intros i ids H; cbn [walk] in H; [discriminate|].
  unfold bind in H. destruct (get s i) as [x|] eqn:E; [|discriminate].
  destruct (l_drives (snd x)) as [j|] eqn:Ed.
  - destruct (walk f s j) as [r|] eqn:Ew; [|discriminate]. injection H as <-. eapply dp_step; eauto.
  - injection H as <-. eapply dp_end; eauto.
Qed.
Lemma walk_complete (s : rstate) i ids : drives_path s i ids -> forall fuel, length ids <= fuel -> walk fuel s i = Ok ids.
Proof.
  induction 1 as [i x Hg Hd|i x j r Hg Hd Hp IH]; intros fuel Hl; destruct fuel as [|f]; cbn in Hl; try lia; cbn [walk]; unfold bind; rewrite Hg, Hd.
  - reflexivity.
  - rewrite (IH f) by lia. reflexivity.
Qed.
Lemma drives_path_bound (s : rstate) i ids : drives_path s i ids -> Forall (fun k => k < length s) ids.
Proof.
  induction 1 as [i x Hg Hd|i x j r Hg Hd Hp IH]; constructor; auto;
  unfold get in Hg; destruct (nth_error s i) eqn:E; try discriminate; apply nth_error_Some; congruence.
Qed.
Lemma has_dup_false l : has_dup l = false <-> NoDup l.
Proof.
  induction l as [|x t IH]; cbn; split; intros H; try constructor; auto.
  - apply orb_false_iff in H as [H1 H2]. intro Hin. assert (existsb (String.eqb x) t = true); [|congruence].
    apply existsb_exists. exists x. split; [exact Hin|apply String.eqb_refl].
  - apply IH. apply orb_false_iff in H. apply H.
  - inversion H as [|? ? Hn Hd]; subst. apply orb_false_iff. split; [|apply IH; exact Hd].
    destruct (existsb (String.eqb x) t) eqn:E; [|reflexivity]. apply existsb_exists in E as (y & Hy & Hxy). apply String.eqb_eq in Hxy. subst. contradiction.
Qed.

(** what a successful construction returns: exactly the drive chain from the motor, in order; unique names; the self-locking flag *)
Theorem assemble_ok (s : rstate) m ids lk : assemble s m = Ok (ids, lk) ->
  drives_path s m ids /\ 2 <= length ids /\ NoDup (map (name_of s) ids) /\ lk = existsb (worm_locks s) ids.
Proof.
  unfold assemble, bind. destruct (get s m) as [x|] eqn:Eg; [|discriminate].
  destruct (ekind_eqb (d_kind (fst x)) EMotor); [|discriminate]. cbn [negb].
  destruct (l_drives (snd x)) as [j|] eqn:Ed; [|discriminate].
  destruct (walk (S (length s)) s m) as [ids'|] eqn:Ew; [|discriminate].
  destruct (has_dup (map (name_of s) ids')) eqn:Eh; [discriminate|]. intros H; injection H as <- <-.
  assert (Hp := walk_spec _ _ _ _ Ew). repeat split; auto.
  - inversion Hp as [i x' Hg' Hd'|i x' j' r Hg' Hd' Hr]; subst.
    + rewrite Eg in Hg'. injection Hg' as <-. congruence.
    + inversion Hr; cbn; lia.
  - apply has_dup_false. exact Eh.
Qed.
(** the two documented failures *)
Theorem assemble_motor_drives_nothing (s : rstate) m x : get s m = Ok x -> ekind_eqb (d_kind (fst x)) EMotor = true ->
  l_drives (snd x) = None -> assemble s m = Err ValueError.
Proof. intros Hg Hk Hd. unfold assemble, bind. rewrite Hg, Hk, Hd. reflexivity. Qed.
Theorem assemble_duplicate_name (s : rstate) m x ids : get s m = Ok x -> ekind_eqb (d_kind (fst x)) EMotor = true ->
  l_drives (snd x) <> None -> drives_path s m ids -> length ids <= S (length s) -> ~ NoDup (map (name_of s) ids) -> assemble s m = Err NameError.
Proof.
  intros Hg Hk Hd Hp Hl Hn. unfold assemble, bind. rewrite Hg, Hk. cbn [negb]. destruct (l_drives (snd x)); [|contradiction].
  rewrite (walk_complete _ _ _ Hp) by exact Hl. destruct (has_dup (map (name_of s) ids)) eqn:E; [reflexivity|]. apply has_dup_false in E. contradiction.
Qed.
(** every finite acyclic drive chain from a motor with unique names is accepted and returned as it is *)
Theorem assemble_complete (s : rstate) m x ids : get s m = Ok x -> ekind_eqb (d_kind (fst x)) EMotor = true ->
  l_drives (snd x) <> None -> drives_path s m ids -> NoDup ids -> NoDup (map (name_of s) ids) ->
  assemble s m = Ok (ids, existsb (worm_locks s) ids).
Proof.
  intros Hg Hk Hd Hp Hnd Hn. unfold assemble, bind. rewrite Hg, Hk. cbn [negb]. destruct (l_drives (snd x)); [|contradiction].
  assert (Hl : length ids <= length s).
  { assert (Hb := drives_path_bound _ _ _ Hp). rewrite <- (seq_length (length s) 0). apply NoDup_incl_length; [exact Hnd|].
    intros k Hk'. apply in_seq. rewrite Forall_forall in Hb. specialize (Hb k Hk'). lia. }
  rewrite (walk_complete _ _ _ Hp) by lia. apply has_dup_false in Hn. rewrite Hn. reflexivity.
Qed.
(** the tuple and the flag are values returned once: no later declaration (a function of the link state only) can change them;
    and the flag is tied to the friction test through worm_mating_sets *)
End RelProofs.
