(** * SolverRerun: reset, re-apply the initial conditions, rerun (C12), generic in the arithmetic.
    The rerun's history equals the original one in every observable field, its live values and its lock flag are the same,
    provided the duty cycle that reset restores is the one the original run started from (the case excluded is finding D4). *)
From Coq Require Import ZArith QArith String List Bool Lia.
From GP Require Import ArithDef UnitsCore PyUnits QOps Motor Solver SolverProofs SolverRun SolverSched.
Import ListNotations.

Section Rerun.
Context {A : Arith}.
Notation qty := (qty A).
Variable c : @chain A.
Variable load : qty -> qty -> qty -> res qty.

(** two states that agree on everything a user can read (the ghost fields of recorded instants may differ) *)
Definition same_rec (a b : qty * @snap A) : Prop := fst a = fst b /\ obs (snd a) = obs (snd b).
Definition same_obs (st st' : @sys A) : Prop :=
  y_live st = y_live st' /\ y_locked st = y_locked st' /\ Forall2 same_rec (y_hist st) (y_hist st').

Lemma Forall2_rev_ {X Y} (P : X -> Y -> Prop) l l' : Forall2 P l l' -> Forall2 P (rev l) (rev l').
Proof. induction 1 as [|x y l l' Hxy _ IH]; cbn; [constructor|]. apply Forall2_app; [exact IH|]. constructor; [exact Hxy|constructor]. Qed.

Lemma first_ltq0_same h h' : Forall2 same_rec h h' -> first_ltq0_of h = first_ltq0_of h'.
Proof.
  intros H. apply Forall2_rev_ in H. unfold first_ltq0_of.
  destruct H as [|[t s] [t' s'] l l' [_ Ho] _]; [reflexivity|]. cbn [snd] in Ho. unfold obs in Ho.
  injection Ho as _ _ _ _ _ Hl _ _ _. now rewrite Hl.
Qed.

Lemma record_instant_same ctl J t v st st' prov st1 s :
  same_obs st st' -> record_instant c load ctl J t v st prov = Ok (st1, s) ->
  exists st1', record_instant c load ctl J t v st' prov = Ok (st1', s) /\ same_obs st1 st1'.
Proof.
  intros (Hv & Hl & Hh) H. unfold record_instant, bind in *. rewrite <- (first_ltq0_same _ _ Hh), <- Hl.
  destruct (instant c load ctl J t (first_ltq0_of (y_hist st)) v (y_locked st) prov) as [[s0 lk]|]; [|discriminate].
  destruct (live_of s0) as [v'|]; [|discriminate]. injection H as <- <-.
  eexists. split; [reflexivity|]. repeat split; cbn; auto. constructor; [split; reflexivity|exact Hh].
Qed.

Lemma loop_same ctl stop J dt ts : forall st st' r,
  same_obs st st' -> loop c load ctl stop J dt ts st = Ok r ->
  exists r', loop c load ctl stop J dt ts st' = Ok r' /\ same_obs r r'.
Proof.
  induction ts as [|t ts IH]; intros st st' r HR H; cbn [loop] in *.
  - injection H as <-. eauto.
  - unfold bind in *. destruct HR as (Hv & HR'). rewrite <- Hv.
    destruct (integrate (y_live st) dt) as [v|]; [|discriminate].
    destruct (record_instant c load ctl J t v st (Some dt)) as [[st1 s]|] eqn:Er; [|discriminate].
    destruct (record_instant_same _ _ _ _ _ st' _ _ _ (conj Hv HR') Er) as (st1' & Er' & HR1). rewrite Er'.
    destruct (match stop with Some sc => stop_check sc s | None => Ok false end) as [[|]|]; [| |discriminate].
    + injection H as <-. eauto.
    + eapply IH; eauto.
Qed.

(** the lock test of a fresh start with a left-over motor torque [t] that can be compared with zero *)
Definition comparable (t : qty) : Prop := exists b1 b2, q_gt t NULL_TQ = Ok b1 /\ q_lt t NULL_TQ = Ok b2.
Lemma lock_decision_fresh_conv pwm spd0 t lk : comparable t ->
  lock_decision c pwm spd0 None false = Ok lk -> lock_decision c pwm spd0 (Some t) false = Ok lk.
Proof.
  intros (b1 & b2 & H1 & H2). unfold lock_decision, orr, andr, bind. rewrite H1, H2.
  destruct (c_selflock c); destruct (eqb pwm zero); destruct (ltb zero pwm); destruct (ltb pwm zero);
  destruct (q_lt spd0 NULL_SPD) as [[|]|]; destruct (q_gt spd0 NULL_SPD) as [[|]|]; destruct b1; destruct b2;
  intros H; try discriminate H; try exact H; injection H as <-; reflexivity.
Qed.

(** the first instant of the rerun, from the original one *)
Lemma first_instant_rerun_conv ctl J t f v v' s0 lk prov tq0 :
  v_pos_last v' = v_pos_last v -> v_spd_last v' = v_spd_last v -> v_pwm v' = v_pwm v -> v_tq0 v = None ->
  v_tq0 v' = Some tq0 -> comparable tq0 ->
  instant c load ctl J t f v false prov = Ok (s0, lk) ->
  exists s, instant c load ctl J t f v' false prov = Ok (s, lk) /\ obs s = obs s0.
Proof.
  intros Hp Hw Hd Ht Ht' Hc H. unfold instant, bind in *. rewrite Hp, Hw, Hd, Ht'. rewrite Ht in H.
  destruct (back_prop (ratios c) (v_pos_last v)) as [pos|]; [|discriminate].
  destruct (back_prop (ratios c) (v_spd_last v)) as [spd1|]; [|discriminate].
  destruct (headq spd1) as [spd0|]; [|discriminate].
  destruct (lock_decision c (v_pwm v) spd0 None false) as [lk'|] eqn:El; [|discriminate].
  rewrite (lock_decision_fresh_conv _ _ _ _ Hc El).
  destruct (lastq pos); [|discriminate]. destruct (lastq (if lk' then _ else spd1)); [|discriminate].
  destruct (load t _ _); [|discriminate]. destruct (load_prop (c_elems c) _) as [ltq|]; [|discriminate].
  destruct (headq ltq); [|discriminate]. destruct (control c ctl _ (v_pwm v)) as [pwm|]; [|discriminate].
  destruct (headq (if lk' then _ else spd1)); [|discriminate]. destruct (motor_torque (c_motor c) _ pwm) as [d0|]; [|discriminate].
  destruct (drive_prop (c_elems c) d0) as [dtq|]; [|discriminate]. destruct (map2r q_sub dtq ltq) as [tq|]; [|discriminate].
  destruct (if lk' then Ok _ else _) as [acc|]; [|discriminate]. destruct (motor_current (c_motor c) d0 pwm) as [cur|]; [|discriminate].
  injection H as <- <-. eexists. split; reflexivity.
Qed.

Lemma live_of_obs (s s' : @snap A) : obs s = obs s' -> live_of s = live_of s'.
Proof. unfold obs. intros H. injection H as H1 H2 H3 H4 _ _ H7 H8 _. unfold live_of. now rewrite H1, H2, H3, H4, H7, H8. Qed.

(** a powertrain that has not been simulated yet: initial position and speed of the output, duty cycle [pwm0] *)
Definition fresh (p w : qty) (pwm0 : num A) : @sys A :=
  {| y_hist := []; y_live := with_pwm (y_live (initial p w)) pwm0; y_locked := false |}.

(** C12, reset / rerun.  [newsolver]: the rerun uses a new Solver object. *)
Theorem rerun_reproduces ctl stop dt T p w pwm0 (newsolver : bool) st1 t0 s0 rest tq0 :
  run c load ctl stop dt T (fresh p w pwm0) = Ok st1 ->
  rev (y_hist st1) = (t0, s0) :: rest ->
  s_pwm s0 = pwm0 ->                                   (* what reset restores is what the run started from: excludes D4 *)
  headq (s_tq s0) = Ok tq0 -> comparable tq0 ->
  exists st2,
    exec c load (SReset :: (if newsolver then [SNewSolver] else []) ++ [SSetInit p w; SRun dt T ctl stop])%list st1 = Ok st2 /\
    same_obs st1 st2.
Proof.
  intros Hrun Hrev Hpwm Htq Hcmp.
  unfold run, bind in Hrun. cbn [fresh y_hist y_live] in Hrun.
  destruct (q_ge dt T) as [[|]|] eqn:Ege; try discriminate Hrun.
  destruct (equivalent_inertia c) as [J|] eqn:EJ; [|discriminate Hrun].
  destruct (q_new KTime zero (qu dt)) as [t00|] eqn:Et0; [|discriminate Hrun].
  match type of Hrun with context [record_instant c load ctl J t00 ?v ?st None] => set (stf := st) in *; set (v0 := v) in * end.
  destruct (record_instant c load ctl J t00 v0 stf None) as [[stA sA]|] eqn:Er; [|discriminate Hrun]. cbn [fst] in Hrun.
  destruct (q_ratio T dt) as [x|] eqn:Ex; [|discriminate Hrun].
  destruct (loop_spec _ _ _ _ _ _ _ _ _ Hrun) as (new & Hh & _).
  destruct (record_instant_inv _ _ _ _ _ _ _ _ _ _ Er) as (HhA & HlA & HkA & _).
  (* the first record of the original history *)
  rewrite Hh, HhA in Hrev. cbn [y_hist stf] in Hrev. rewrite rev_app_distr in Hrev. cbn [rev app] in Hrev.
  injection Hrev as <- <- _.
  (* reset *)
  assert (Hreset : reset st1 = Ok {| y_hist := []; y_live := y_live stA; y_locked := y_locked st1 |}).
  { unfold reset. rewrite Hh, HhA. cbn [y_hist stf]. rewrite rev_app_distr. cbn [rev app]. rewrite HlA. reflexivity. }
  set (vi := {| v_pos_last := p; v_spd_last := w; v_acc_last := v_acc_last (y_live stA); v_tq0 := v_tq0 (y_live stA);
                v_cur := v_cur (y_live stA); v_pwm := v_pwm (y_live stA) |}).
  (* the live values after reset: the recorded duty cycle and the recorded motor torque *)
  assert (Hlive : v_pwm (y_live stA) = pwm0 /\ v_tq0 (y_live stA) = Some tq0).
  { unfold live_of, bind in HlA. destruct (lastq (s_pos sA)); [|discriminate]. destruct (lastq (s_spd sA)); [|discriminate].
    destruct (lastq (s_acc sA)); [|discriminate]. rewrite Htq in HlA. injection HlA as <-. cbn. auto. }
  destruct Hlive as (Hp0 & Ht0).
  (* the first instant of the rerun *)
  unfold record_instant, bind in Er. cbn [y_hist y_locked stf] in Er. change (first_ltq0_of []) with (@None qty) in Er.
  destruct (instant c load ctl J t00 None v0 false None) as [[s0' lk]|] eqn:Ei; [|discriminate Er].
  destruct (live_of s0') as [vA|] eqn:ElA; [|discriminate Er]. injection Er as <- <-.
  destruct (first_instant_rerun_conv ctl J t00 None v0 vi s0' lk None tq0) as (s2 & Ei2 & Ho); auto.
  (* the whole rerun *)
  set (stA' := {| y_hist := [(t00, s2)]; y_live := vA; y_locked := lk |}).
  assert (HR : same_obs {| y_hist := (t00, s0') :: y_hist stf; y_live := vA; y_locked := lk |} stA').
  { repeat split; cbn; auto. constructor; [split; [reflexivity|cbn; now symmetry]|constructor]. }
  destruct (loop_same _ _ _ _ _ _ _ _ HR Hrun) as (st2 & Hloop2 & HR2).
  exists st2. split; [|exact HR2].
  assert (Hrun2 : forall lk0, run c load ctl stop dt T {| y_hist := []; y_live := vi; y_locked := lk0 |} = Ok st2).
  { intros lk0. unfold run, bind. rewrite Ege, EJ. cbn [y_hist y_live]. rewrite Et0.
    unfold record_instant, bind. cbn [y_hist y_locked]. change (first_ltq0_of []) with (@None qty). rewrite Ei2.
    rewrite (live_of_obs _ _ Ho), ElA. cbn [fst]. rewrite Ex. exact Hloop2. }
  cbn [exec step_op bind]. rewrite Hreset. cbn [bind].
  destruct newsolver; cbn [app exec step_op bind new_solver y_hist y_live y_locked]; fold vi; rewrite Hrun2; reflexivity.
Qed.
End Rerun.
