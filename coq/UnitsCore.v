(** * UnitsCore: the datatypes the translator (harness/translate.py) emits for gearpy/units. *)
From Coq Require Import ZArith QArith String List Bool PrimFloat.
From GP Require Import ArithDef.
Import ListNotations.
Open Scope string_scope.

(** The 13 quantity classes of units.py.  The translator emits the class list it found
    (gen_classes) and PyUnits checks it against [all_kinds] / [kind_name] / [parent_spec]. *)
Inductive kind := KAngularPosition | KAngle | KAngularSpeed | KAngularAcceleration | KInertiaMoment | KTorque
                | KTime | KTimeInterval | KLength | KSurface | KForce | KStress | KCurrent.
Definition all_kinds : list kind :=
  [KAngularPosition; KAngle; KAngularSpeed; KAngularAcceleration; KInertiaMoment; KTorque;
   KTime; KTimeInterval; KLength; KSurface; KForce; KStress; KCurrent].
Definition kind_name (k : kind) : string :=
  match k with
  | KAngularPosition => "AngularPosition" | KAngle => "Angle" | KAngularSpeed => "AngularSpeed"
  | KAngularAcceleration => "AngularAcceleration" | KInertiaMoment => "InertiaMoment" | KTorque => "Torque"
  | KTime => "Time" | KTimeInterval => "TimeInterval" | KLength => "Length" | KSurface => "Surface"
  | KForce => "Force" | KStress => "Stress" | KCurrent => "Current" end.
Definition kind_eqb (a b : kind) : bool :=
  match a, b with
  | KAngularPosition, KAngularPosition | KAngle, KAngle | KAngularSpeed, KAngularSpeed
  | KAngularAcceleration, KAngularAcceleration | KInertiaMoment, KInertiaMoment | KTorque, KTorque
  | KTime, KTime | KTimeInterval, KTimeInterval | KLength, KLength | KSurface, KSurface
  | KForce, KForce | KStress, KStress | KCurrent, KCurrent => true
  | _, _ => false end.
Lemma kind_eqb_eq a b : kind_eqb a b = true <-> a = b.
Proof. destruct a, b; cbn; split; intro H; try reflexivity; try discriminate. Qed.

(** Unit factor expressions as written in the __UNITS dictionaries. *)
Inductive fexpr := FPi | FNum (q : Q) (f : float) | FMul (a b : fexpr) | FDiv (a b : fexpr).

(** Operand classes of isinstance tests. *)
Inductive oclass := ONum | OQ (k : kind) | OAnyUnit.

Inductive vexpr :=
  | VSelf | VOtherNum | VOtherValue
  | VSelfTo (u : string) | VOtherTo (u : string) | VOtherToSelfUnit
  | VTol | VLitZ (z : Z)
  | VMul (a b : vexpr) | VDiv (a b : vexpr) | VAdd (a b : vexpr) | VSub (a b : vexpr)
  | VNeg (a : vexpr) | VAbs (a : vexpr).
Inductive uexpr := USelf | UFix (u : string).
Inductive cmpop := OpLt | OpLe | OpGt | OpGe | OpEq | OpNe.
Inductive cexpr := CCmp (op : cmpop) (a b : vexpr) | CIfSameUnit (a b : cexpr).
Inductive result :=
  | RQty (k : kind) (v : vexpr) (u : uexpr)
  | RSelfClass (v : vexpr) (u : uexpr)
  | RNum (v : vexpr)
  | RBool (c : cexpr)
  | RTrySelfClass (v : vexpr) (u : uexpr) (vchk : vexpr).   (* try: return cls(v,u) except ValueError: if vchk <= 0: raise ValueError *)
Inductive accept := AAny | AClasses (l : list oclass) | AFamily.
Inductive guard := GOtherLe0 | GOtherLt0 | GZeroDiv.
Record method := { m_super : bool; m_accept : accept; m_guards : list guard;
                   m_branches : list (option (list oclass) * result) }.
Inductive mname := MAdd | MSub | MMul | MRMul | MTrueDiv | MEq | MNe | MGt | MGe | MLt | MLe | MAbs | MNeg.
Inductive constraint := CNone | CPositive | CNonNegative.
(** The conversion expression of [to]. *)
Inductive texpr := TValue | TFactorSelf | TFactorTarget | TMul (a b : texpr) | TDiv (a b : texpr).

(** What the translator delivers. *)
Record unitsgen := {
  g_classes : list (string * option string);
  g_tol : Q * float;
  g_units_own : kind -> option (list (string * fexpr));
  g_constraint : kind -> constraint;
  g_own_method : kind -> mname -> option method;
  g_base_method : mname -> option method;
  g_to_expr : kind -> option texpr;       (* Some e: the class defines [to] in the base shape with expression e; None: the sub-kind shape (delegates to the parent) *)
}.
