From Coq Require Import ZArith QArith Reals Lra Lia Qreals String List Bool.
From GP Require Import ArithDef UnitsCore PyUnits RealArith Spec UnitsR.
From GP.gen Require Import UnitsGen.
Import ListNotations.
Open Scope R_scope.

Definition is_cmp (m : mname) : bool := match m with MEq | MNe | MGt | MGe | MLt | MLe => true | _ => false end.
Lemma resolve_cmp k m : is_cmp m = true -> exists md, resolve G k 0 3 m = Some (2%nat, md) /\ g_base_method G m = Some md.
Proof. destruct k, m; cbn; intros H; try discriminate; eexists; split; reflexivity. Qed.

Definition tolR : R := @tol RA G.
Lemma tolR_pos : 0 < tolR.
Proof. unfold tolR, tol. cbn. unfold Q2R; cbn. lra. Qed.
Global Opaque tolR.

(** the banded comparisons, on an SI difference [d] and a band [t] *)
Definition banded (m : mname) (d t : R) : bool :=
  match m with
  | MEq => Rltb (Rabs d) t | MNe => Rltb t (Rabs d)
  | MGt => Rltb t d | MGe => Rleb (- t) d
  | MLt => Rltb d (- t) | MLe => Rleb d t
  | _ => false end.
Definition cmpR (m : mname) (x y : R) : bool :=
  match m with
  | MEq => Reqb x y | MNe => negb (Reqb x y)
  | MGt => Rltb y x | MGe => Rleb y x
  | MLt => Rltb x y | MLe => Rleb x y
  | _ => false end.
Definition family (a b : kind) : bool := is_subkind G b a || is_subkind G a b.

Opaque to_qty.
Lemma call_cmp m (a b : rqty) : is_cmp m = true ->
  call G m a (PQ b) =
  if negb (family (qk a) (qk b)) then Err TypeError else
  if String.eqb (qu a) (qu b) then Ok (PB (cmpR m (qv a) (qv b)))
  else q <- to_qty G b (qu a) ;; Ok (PB (banded m (qv a - qv q) tolR)).
Proof.
  intros Hm. destruct (resolve_cmp (qk a) m Hm) as (md & Hr & Hb).
  unfold call. cbn [call_from]. rewrite Hr.
  unfold family.
  destruct m; try discriminate; cbn in Hb; injection Hb as <-; cbn -[is_subkind tol];
  destruct (is_subkind G (qk b) (qk a) || is_subkind G (qk a) (qk b)); cbn -[tol]; try reflexivity;
  destruct (String.eqb (qu a) (qu b)); cbn -[tol]; try reflexivity;
  unfold bind; destruct (to_qty G b (qu a)); reflexivity.
Qed.

Lemma family_factor a b u : family a b = true -> @factor RA G a u = @factor RA G b u.
Proof. destruct a, b; cbn; intros H; try discriminate; reflexivity. Qed.
Lemma family_sym a b : family a b = family b a.
Proof. unfold family. apply orb_comm. Qed.

Lemma cmpR_scale m x y f : 0 < f -> is_cmp m = true -> cmpR m x y = cmpR m (x * f) (y * f).
Proof.
  intros Hf Hm. destruct m; try discriminate; cbn; unfold Reqb, Rltb, Rleb;
  repeat match goal with |- context [Req_EM_T ?a ?b] => destruct (Req_EM_T a b) | |- context [Rlt_dec ?a ?b] => destruct (Rlt_dec a b)
     | |- context [Rle_dec ?a ?b] => destruct (Rle_dec a b) end; try reflexivity; exfalso; nra.
Qed.
Lemma banded_scale m d t f : 0 < f -> is_cmp m = true -> banded m d t = banded m (d * f) (t * f).
Proof.
  intros Hf Hm. assert (Ha : Rabs (d * f) = Rabs d * f) by (rewrite Rabs_mult, (Rabs_pos_eq f); lra).
  destruct m; try discriminate; cbn; rewrite ?Ha; unfold Rltb, Rleb;
  repeat match goal with |- context [Rlt_dec ?a ?b] => destruct (Rlt_dec a b)
     | |- context [Rle_dec ?a ?b] => destruct (Rle_dec a b) end; try reflexivity; exfalso; nra.
Qed.
Lemma cmpR_reflect m x y : is_cmp m = true -> cmpR (reflect_cmp m) y x = cmpR m x y.
Proof.
  intros Hm. destruct m; try discriminate; cbn; try reflexivity; unfold Reqb;
  repeat match goal with |- context [Req_EM_T ?a ?b] => destruct (Req_EM_T a b) end; try reflexivity; exfalso; congruence.
Qed.
Lemma banded_reflect m d t : is_cmp m = true -> banded (reflect_cmp m) (- d) t = banded m d t.
Proof.
  intros Hm. destruct m; try discriminate; cbn; rewrite ?Rabs_Ropp; try reflexivity; unfold Rltb, Rleb;
  repeat match goal with |- context [Rlt_dec ?a ?b] => destruct (Rlt_dec a b)
     | |- context [Rle_dec ?a ?b] => destruct (Rle_dec a b) end; try reflexivity; exfalso; lra.
Qed.
Lemma is_cmp_reflect m : is_cmp (reflect_cmp m) = is_cmp m.
Proof. destruct m; reflexivity. Qed.

(** the un-reflected call, in SI terms *)
Lemma call_cmp_SI m (a b : rqty) x sa sb fa : is_cmp m = true ->
  call G m a (PQ b) = Ok x -> si a = Ok sa -> si b = Ok sb -> @factor RA G (qk a) (qu a) = Ok fa ->
  family (qk a) (qk b) = true /\
  x = PB (if String.eqb (qu a) (qu b) then cmpR m sa sb else banded m (sa - sb) (tolR * fa)).
Proof.
  intros Hm Hc Ha Hb Hfa. rewrite (call_cmp m a b Hm) in Hc.
  destruct (family (qk a) (qk b)) eqn:Ef; cbn [negb] in Hc; [|discriminate]. split; [reflexivity|].
  assert (Hpos : 0 < fa) by (eapply factor_pos; eauto).
  unfold si, bind in Ha, Hb. rewrite Hfa in Ha. injection Ha as <-.
  destruct (String.eqb (qu a) (qu b)) eqn:Eu.
  - apply String.eqb_eq in Eu. rewrite <- Eu in Hb. rewrite <- (family_factor _ _ _ Ef), Hfa in Hb.
    injection Hb as <-. injection Hc as <-. f_equal. apply cmpR_scale; assumption.
  - unfold bind in Hc. destruct (to_qty G b (qu a)) as [q|] eqn:Eq; [|discriminate]. injection Hc as <-. f_equal.
    destruct (to_qty_si _ _ _ Eq) as (Hk & Hu & s & Hs1 & Hs2).
    unfold si, bind in Hs1, Hs2. rewrite Hk, Hu in Hs2. rewrite <- (family_factor _ _ _ Ef), Hfa in Hs2.
    destruct (factor G (qk b) (qu b)) as [fb|]; [|discriminate].
    injection Hb as <-. injection Hs1 as <-. injection Hs2 as Hs2.
    rewrite (banded_scale m _ _ fa Hpos Hm). f_equal. rewrite <- Hs2. ring.
Qed.

(** C05 (c), closed form: the result of  a OP b  as a function of the SI magnitudes, the band being the tolerance
    expressed in the unit of whichever operand Python dispatches to (the left one, or the right one when its class is a
    proper subclass of the left one's). *)
Theorem cmp_SI m (a b : rqty) r sa sb fa fb : is_cmp m = true ->
  py_cmp G m a b = Ok r -> si a = Ok sa -> si b = Ok sb ->
  @factor RA G (qk a) (qu a) = Ok fa -> @factor RA G (qk b) (qu b) = Ok fb ->
  exists fl, (fl = fa \/ fl = fb) /\
    r = if String.eqb (qu a) (qu b) then cmpR m sa sb else banded m (sa - sb) (tolR * fl).
Proof.
  intros Hm H Ha Hb Hfa Hfb. unfold py_cmp, bind in H.
  destruct (proper_subkind G (qk b) (qk a)).
  - destruct (call G (reflect_cmp m) b (PQ a)) as [x|] eqn:Ec; [|discriminate].
    assert (Hm' : is_cmp (reflect_cmp m) = true) by (rewrite is_cmp_reflect; exact Hm).
    destruct (call_cmp_SI _ _ _ _ _ _ _ Hm' Ec Hb Ha Hfb) as [_ ->]. injection H as <-.
    exists fb. split; [right; reflexivity|]. rewrite String.eqb_sym.
    destruct (String.eqb (qu a) (qu b)).
    + apply cmpR_reflect; exact Hm.
    + replace (sb - sa) with (- (sa - sb)) by ring. apply banded_reflect; exact Hm.
  - destruct (call G m a (PQ b)) as [x|] eqn:Ec; [|discriminate].
    destruct (call_cmp_SI _ _ _ _ _ _ _ Hm Ec Ha Hb Hfa) as [_ ->]. injection H as <-.
    exists fa. split; [left; reflexivity|]. reflexivity.
Qed.

(** Consequences.  Outside the band (the SI magnitudes differ by more than tolerance x the larger unit) every comparison
    is the exact comparison of the SI magnitudes, whichever operand is on the left. *)
Theorem cmp_decisive m (a b : rqty) r sa sb fa fb : is_cmp m = true ->
  py_cmp G m a b = Ok r -> si a = Ok sa -> si b = Ok sb ->
  @factor RA G (qk a) (qu a) = Ok fa -> @factor RA G (qk b) (qu b) = Ok fb ->
  tolR * Rmax fa fb < Rabs (sa - sb) -> r = cmpR m sa sb.
Proof.
  intros Hm H Ha Hb Hfa Hfb Hd.
  destruct (cmp_SI m a b r sa sb fa fb Hm H Ha Hb Hfa Hfb) as (fl & Hfl & ->).
  destruct (String.eqb (qu a) (qu b)); [reflexivity|].
  assert (Hle : tolR * fl <= tolR * Rmax fa fb).
  { apply Rmult_le_compat_l; [generalize tolR_pos; lra|]. destruct Hfl as [-> | ->]; [apply Rmax_l|apply Rmax_r]. }
  assert (Hfp : 0 < fl). { destruct Hfl as [-> | ->]; eapply factor_pos; eauto. }
  generalize tolR_pos; intro Ht. assert (0 < tolR * fl) by (apply Rmult_lt_0_compat; assumption).
  assert (Hcase : tolR * fl < sa - sb \/ sa - sb < - (tolR * fl)).
  { revert Hd. unfold Rabs. destruct (Rcase_abs (sa - sb)); intros; lra. }
  clear Hd Hle.
  destruct m; try discriminate; cbn; unfold Rltb, Rleb, Reqb;
  repeat match goal with |- context [Req_EM_T ?a ?b] => destruct (Req_EM_T a b) | |- context [Rlt_dec ?a ?b] => destruct (Rlt_dec a b)
     | |- context [Rle_dec ?a ?b] => destruct (Rle_dec a b) end; try reflexivity; exfalso;
  try (destruct Hcase; lra);
  unfold Rabs in *; destruct (Rcase_abs (sa - sb)); destruct Hcase; lra.
Qed.
(** Well inside the band (closer than tolerance x the smaller unit): the operands compare equal on either side. *)
Theorem cmp_equal_symmetric (a b : rqty) r1 r2 sa sb fa fb :
  py_cmp G MEq a b = Ok r1 -> py_cmp G MEq b a = Ok r2 -> si a = Ok sa -> si b = Ok sb ->
  @factor RA G (qk a) (qu a) = Ok fa -> @factor RA G (qk b) (qu b) = Ok fb ->
  qu a <> qu b -> Rabs (sa - sb) < tolR * Rmin fa fb -> r1 = true /\ r2 = true.
Proof.
  intros H1 H2 Ha Hb Hfa Hfb Hu Hd.
  destruct (cmp_SI MEq a b r1 sa sb fa fb eq_refl H1 Ha Hb Hfa Hfb) as (fl & Hfl & ->).
  destruct (cmp_SI MEq b a r2 sb sa fb fa eq_refl H2 Hb Ha Hfb Hfa) as (fl' & Hfl' & ->).
  assert (E1 : String.eqb (qu a) (qu b) = false) by (apply String.eqb_neq; exact Hu).
  assert (E2 : String.eqb (qu b) (qu a) = false) by (apply String.eqb_neq; congruence).
  rewrite E1, E2. cbn. generalize tolR_pos; intro Ht.
  assert (tolR * Rmin fa fb <= tolR * fl).
  { apply Rmult_le_compat_l; [lra|]. destruct Hfl as [-> | ->]; [apply Rmin_l|apply Rmin_r]. }
  assert (tolR * Rmin fa fb <= tolR * fl').
  { apply Rmult_le_compat_l; [lra|]. destruct Hfl' as [-> | ->]; [apply Rmin_r|apply Rmin_l]. }
  rewrite (Rabs_minus_sym sb sa). unfold Rltb.
  destruct (Rlt_dec (Rabs (sa - sb)) (tolR * fl)); [|exfalso; lra].
  destruct (Rlt_dec (Rabs (sa - sb)) (tolR * fl')); [|exfalso; lra]. split; reflexivity.
Qed.
