From Coq Require Import ZArith QArith Reals Lra Lia Qreals String List Bool.
From GP Require Import ArithDef UnitsCore PyUnits RealArith Spec UnitsR.
From GP.gen Require Import UnitsGen.
Import ListNotations.
Open Scope R_scope.

Definition mk (k : kind) (v : R) (u : string) : rqty := @Build_qty RA k v u.

(** value/unit/kind facts of a successful conversion, in the form the sweeps use *)
Lemma to_qty_fact (q q' : rqty) u : to_qty G q u = Ok q' ->
  qk q' = qk q /\ qu q' = u /\
  exists fs ft, @factor RA G (qk q) (qu q) = Ok fs /\ @factor RA G (qk q) u = Ok ft /\ 0 < fs /\ 0 < ft /\ qv q' = qv q * fs / ft.
Proof.
  unfold to_qty, bind. destruct (to_value G q u) as [x|] eqn:E; [|discriminate].
  intros H. apply ctor_ok in H. subst q'. cbn. split; [reflexivity|]. split; [reflexivity|].
  destruct (to_value_closed q u x E) as (fs & ft & Hs & Ht & Hx). exists fs, ft.
  assert (0 < ft) by (eapply factor_pos; eauto).
  repeat split; auto; try (eapply factor_pos; eauto).
  apply Rmult_eq_reg_r with ft; [|lra]. rewrite Hx. field. lra.
Qed.
Lemma ctor_ValueError k v u : @ctor RA G k v u = Err ValueError -> v <= 0.
Proof.
  unfold ctor, bind. destruct (factor G k u) eqn:Ef; [|intros H; injection H as H; apply factor_err in Ef; congruence].
  destruct k; cbn; unfold Rleb, Rltb;
  repeat match goal with |- context [Rlt_dec ?a ?b] => destruct (Rlt_dec a b) | |- context [Rle_dec ?a ?b] => destruct (Rle_dec a b) end;
  intros H; try discriminate; lra.
Qed.
Opaque to_qty ctor.

Ltac destruct_to H :=
  repeat match type of H with
  | context [to_qty G ?q ?u] => let E := fresh "Eto" in let q' := fresh "q" in destruct (to_qty G q u) as [q'|] eqn:E; cbn in H
  end.


Ltac destruct_if H :=
  repeat match type of H with
  | context [if ?c then _ else _] => let E := fresh "Eif" in destruct c eqn:E; cbn in H
  end.
Ltac destruct_ctor H :=
  repeat match type of H with
  | context [@ctor RA G ?k ?v ?u] => let E := fresh "Ector" in let q' := fresh "qc" in destruct (@ctor RA G k v u) as [q'|] eqn:E; cbn in H
  end.
Ltac use_ctor := repeat match goal with E : ctor G ?k ?v ?u = Ok ?q |- _ => apply ctor_ok in E; try subst q end.
Ltac use_to :=
  repeat match goal with E : to_qty G ?q ?u = Ok ?q' |- _ =>
    let Hk := fresh "Hk" in let Hu := fresh "Hu" in let fs := fresh "fs" in let ft := fresh "ft" in
    let Hfs := fresh "Hfs" in let Hft := fresh "Hft" in let Hps := fresh "Hps" in let Hpt := fresh "Hpt" in let Hx := fresh "Hx" in
    destruct (to_qty_fact _ _ _ E) as (Hk & Hu & fs & ft & Hfs & Hft & Hps & Hpt & Hx); clear E;
    cbn [qk qu qv mk] in Hk, Hu, Hfs, Hft, Hx; rewrite ?Hx in *; clear Hx end.
Ltac use_si H :=
  unfold si, bind in H; cbn [qk qu qv mk] in H;
  match type of H with context [factor G ?k ?u] =>
    match goal with Hf : factor G k u = Ok _ |- _ => rewrite Hf in H
    | _ => let f := fresh "f" in let Ef := fresh "Ef" in destruct (factor G k u) as [f|] eqn:Ef; [|discriminate H] end end;
  injection H as H.
Ltac inj_factors :=
  repeat match goal with Hf : factor G _ ?u = Ok _ |- _ => lazymatch u with String _ _ => progress (cbn in Hf) end end;
  repeat match goal with Hf : Ok _ = Ok ?f |- _ => injection Hf as Hf; try subst f end.

Ltac finish_si :=
  unfold si, bind; cbn [qk qu qv mk]; inj_factors;
  repeat match goal with Hf : factor G ?k ?u = Ok _ |- context [factor G ?k ?u] => rewrite Hf end;
  cbn -[Rmult Rplus Rminus Rdiv Rinv Ropp Rabs Q2R]; f_equal;
  unfold Q2R in *; cbn -[Rmult Rplus Rminus Rdiv Rinv Ropp Rabs factor] in *; subst.
Ltac sweep H :=
  cbn in H; try discriminate H; unfold bind, pydiv in H; destruct_to H; try discriminate H; destruct_if H; try discriminate H; destruct_ctor H; try discriminate H; use_ctor.

Ltac norm_units :=
  repeat match goal with
  | Hu : qu ?q = ?u |- _ => is_var u; subst u
  | Hu : qu ?q = ?u, H : context [qu ?q] |- _ => lazymatch H with Hu => fail | _ => rewrite Hu in H end
  | Hu : qu ?q = ?u |- context [qu ?q] => rewrite Hu
  end.
Lemma factor_angle u : @factor RA G KAngle u = @factor RA G KAngularPosition u. Proof. reflexivity. Qed.
Lemma factor_ti u : @factor RA G KTimeInterval u = @factor RA G KTime u. Proof. reflexivity. Qed.
Ltac unify_factors :=
  rewrite ?factor_angle, ?factor_ti in *;
  repeat match goal with H1 : factor G ?k ?u = Ok ?a, H2 : factor G ?k ?u = Ok ?b |- _ =>
    rewrite H1 in H2; injection H2 as H2; try subst b end.
Ltac pos_factors :=
  repeat match goal with Hf : factor G _ ?u = Ok ?f |- _ =>
    lazymatch goal with Hp : 0 < f |- _ => fail | _ => assert (0 < f) by (eapply factor_pos; exact Hf) end end.

Theorem mul_qq_sound k1 k2 v1 v2 u1 u2 r :
  py_mul G (mk k1 v1 u1) (PQ (mk k2 v2 u2)) = Ok r ->
  exists q, r = PQ q /\ spec_mul k1 k2 = Some (DQ (qk q)) /\
    forall s1 s2, si (mk k1 v1 u1) = Ok s1 -> si (mk k2 v2 u2) = Ok s2 -> si q = Ok (s1 * s2).
Proof.
  intros H.
  destruct k1, k2; cbn in H; try discriminate.
  all: sweep H.
  all: injection H as <-; eexists; (split; [reflexivity|]); (split; [reflexivity|]); intros s1 s2 H1 H2.
  all: use_to; use_si H1; use_si H2.
  all: finish_si; nra.
Qed.

(** quantity * number and number * quantity: same kind and unit, SI magnitude scaled *)
Theorem mul_qn_sound k1 v1 u1 x r :
  py_mul G (mk k1 v1 u1) (PN x) = Ok r ->
  exists q, r = PQ q /\ qk q = k1 /\ qu q = u1 /\ forall s1, si (mk k1 v1 u1) = Ok s1 -> si q = Ok (s1 * x).
Proof.
  intros H. destruct k1; sweep H.
  all: injection H as <-; eexists; (split; [reflexivity|]); (split; [reflexivity|]); (split; [reflexivity|]); intros s1 H1.
  all: use_si H1; finish_si; nra.
Qed.
Theorem rmul_sound k1 v1 u1 x r :
  py_rmul G x (mk k1 v1 u1) = Ok r ->
  exists q, r = PQ q /\ qk q = k1 /\ qu q = u1 /\ forall s1, si (mk k1 v1 u1) = Ok s1 -> si q = Ok (x * s1).
Proof.
  intros H. destruct k1; sweep H.
  all: injection H as <-; eexists; (split; [reflexivity|]); (split; [reflexivity|]); (split; [reflexivity|]); intros s1 H1.
  all: use_si H1; finish_si; nra.
Qed.

(** quantity / quantity *)
Theorem div_qq_sound k1 k2 v1 v2 u1 u2 r :
  py_div G (mk k1 v1 u1) (PQ (mk k2 v2 u2)) = Ok r ->
  forall s1 s2, si (mk k1 v1 u1) = Ok s1 -> si (mk k2 v2 u2) = Ok s2 ->
  s2 <> 0 /\
  ((exists x, r = PN x /\ spec_div k1 k2 = Some DNum /\ x = s1 / s2) \/
   (exists q, r = PQ q /\ spec_div k1 k2 = Some (DQ (qk q)) /\ si q = Ok (s1 / s2))).
Proof.
  intros H s1 s2 H1 H2.
  destruct k1, k2; sweep H.
  all: injection H as <-.
  all: use_to; use_si H1; use_si H2.
  all: repeat match goal with E : Reqb _ _ = false |- _ => apply Reqb_false in E; cbn in E end.
  all: norm_units.
  all: unify_factors; pos_factors.
  all: inj_factors; unfold Q2R in *; cbn -[Rmult Rplus Rminus Rdiv Rinv Ropp Rabs factor] in *; subst.
  all: (split; [intro Hz; apply Eif; nra|]).
  all: first [ left; eexists; split; [reflexivity|]; split; [reflexivity|]
             | right; eexists; split; [reflexivity|]; split; [reflexivity|] ].
  all: try match goal with |- si _ = Ok _ => unfold si, bind; cbn -[Rmult Rplus Rminus Rdiv Rinv Ropp Rabs]; f_equal end.
  all: unfold Q2R; cbn -[Rmult Rplus Rminus Rdiv Rinv Ropp Rabs].
  all: try (field; repeat split; lra).
Qed.

Ltac close_si :=
  try match goal with |- si _ = Ok _ => unfold si, bind; cbn -[Rmult Rplus Rminus Rdiv Rinv Ropp Rabs factor];
        rewrite ?factor_angle, ?factor_ti;
        repeat match goal with Hf : factor G ?k ?u = Ok _ |- context [factor G ?k ?u] => rewrite Hf end;
        cbn -[Rmult Rplus Rminus Rdiv Rinv Ropp Rabs]; f_equal end;
  unfold Q2R; cbn -[Rmult Rplus Rminus Rdiv Rinv Ropp Rabs].
Ltac prep :=
  repeat match goal with E : Reqb _ _ = false |- _ => apply Reqb_false in E; cbn in E end;
  norm_units; unify_factors; pos_factors;
  inj_factors; unfold Q2R in *; cbn -[Rmult Rplus Rminus Rdiv Rinv Ropp Rabs factor] in *; subst.

(** quantity / number *)
Theorem div_qn_sound k1 v1 u1 x r :
  py_div G (mk k1 v1 u1) (PN x) = Ok r ->
  x <> 0 /\ exists q, r = PQ q /\ qk q = k1 /\ qu q = u1 /\ forall s1, si (mk k1 v1 u1) = Ok s1 -> si q = Ok (s1 / x).
Proof.
  intros H. destruct k1; sweep H.
  all: injection H as <-; prep; (split; [assumption|]).
  all: eexists; (split; [reflexivity|]); (split; [reflexivity|]); (split; [reflexivity|]); intros s1 H1.
  all: use_si H1; prep; close_si; field; assumption.
Qed.

(** quantity + quantity *)
Theorem add_sound k1 k2 v1 v2 u1 u2 r :
  py_add G (mk k1 v1 u1) (PQ (mk k2 v2 u2)) = Ok r ->
  exists q, r = PQ q /\ spec_addsub k1 k2 = Some (qk q) /\ qu q = u1 /\
    forall s1 s2, si (mk k1 v1 u1) = Ok s1 -> si (mk k2 v2 u2) = Ok s2 -> si q = Ok (s1 + s2).
Proof.
  intros H. destruct k1, k2; sweep H.
  all: injection H as <-; eexists; (split; [reflexivity|]); (split; [reflexivity|]); (split; [reflexivity|]); intros s1 s2 H1 H2.
  all: use_to; use_si H1; use_si H2; prep; close_si; field; lra.
Qed.

Definition sub_defect_site (k1 k2 : kind) : bool :=
  match k1, k2 with KAngle, KAngularPosition | KTimeInterval, KTime => true | _, _ => false end.

Ltac sweep_sub H :=
  cbn in H; try discriminate H; unfold bind, pydiv in H; destruct_to H; try discriminate H;
  repeat match type of H with
  | context [@ctor RA G ?k ?v ?u] =>
      let E := fresh "Ector" in let q' := fresh "qc" in let e := fresh "e" in
      destruct (@ctor RA G k v u) as [q'|e] eqn:E; [|destruct e]; cbn in H; try discriminate H
  end;
  destruct_if H; try discriminate H;
  try (exfalso; match goal with E : ctor G _ ?v _ = Err ValueError, E2 : Rleb ?v 0 = false |- _ =>
         apply ctor_ValueError in E; apply Rleb_false in E2; cbn in E2; lra end);
  use_ctor.

(** quantity - quantity, everywhere except the two call sites recorded as finding D6 *)
Theorem sub_sound k1 k2 v1 v2 u1 u2 r :
  sub_defect_site k1 k2 = false ->
  py_sub G (mk k1 v1 u1) (PQ (mk k2 v2 u2)) = Ok r ->
  exists q, r = PQ q /\ spec_addsub k1 k2 = Some (qk q) /\ qu q = u1 /\
    forall s1 s2, si (mk k1 v1 u1) = Ok s1 -> si (mk k2 v2 u2) = Ok s2 -> si q = Ok (s1 - s2).
Proof.
  intros Hsite H. destruct k1, k2; try discriminate Hsite; sweep_sub H.
  all: injection H as <-; eexists; (split; [reflexivity|]); (split; [reflexivity|]); (split; [reflexivity|]); intros s1 s2 H1 H2.
  all: use_to; use_si H1; use_si H2; prep; close_si; field; lra.
Qed.
(** ... and at those two sites the code adds (finding D6; pinned by the repository's own tests) *)
Theorem sub_defect_adds k1 k2 v1 v2 u1 u2 r :
  sub_defect_site k1 k2 = true ->
  py_sub G (mk k1 v1 u1) (PQ (mk k2 v2 u2)) = Ok r ->
  exists q, r = PQ q /\ forall s1 s2, si (mk k1 v1 u1) = Ok s1 -> si (mk k2 v2 u2) = Ok s2 -> si q = Ok (s1 + s2).
Proof.
  intros Hsite H. destruct k1, k2; try discriminate Hsite; sweep_sub H.
  all: injection H as <-; eexists; (split; [reflexivity|]); intros s1 s2 H1 H2.
  all: use_to; use_si H1; use_si H2; prep; close_si; field; lra.
Qed.

(** negation and absolute value *)
Theorem neg_sound k1 v1 u1 r : py_neg G (mk k1 v1 u1) = Ok r ->
  exists q, r = PQ q /\ qk q = k1 /\ qu q = u1 /\ forall s1, si (mk k1 v1 u1) = Ok s1 -> si q = Ok (- s1).
Proof.
  intros H. destruct k1; sweep H.
  all: injection H as <-; eexists; (split; [reflexivity|]); (split; [reflexivity|]); (split; [reflexivity|]); intros s1 H1.
  all: use_si H1; prep; close_si; ring.
Qed.
Theorem abs_sound k1 v1 u1 r : py_abs G (mk k1 v1 u1) = Ok r ->
  exists q, r = PQ q /\ qk q = k1 /\ qu q = u1 /\ forall s1, si (mk k1 v1 u1) = Ok s1 -> si q = Ok (Rabs s1).
Proof.
  intros H. destruct k1; sweep H.
  all: injection H as <-; eexists; (split; [reflexivity|]); (split; [reflexivity|]); (split; [reflexivity|]); intros s1 H1.
  all: use_si H1; prep; close_si; rewrite Rabs_mult, (Rabs_pos_eq f) by lra; reflexivity.
Qed.

(** ** Inverse laws *)
Lemma mk_eta (q : rqty) : q = mk (qk q) (qv q) (qu q). Proof. destruct q; reflexivity. Qed.

(** (a + b) - b has a's unit and a's SI magnitude *)
Theorem add_then_sub (a b q1 : rqty) r2 :
  py_add G a (PQ b) = Ok (PQ q1) -> py_sub G q1 (PQ b) = Ok r2 ->
  exists q2, r2 = PQ q2 /\ qu q2 = qu a /\
    forall s1 s2, si a = Ok s1 -> si b = Ok s2 -> si q2 = Ok s1.
Proof.
  rewrite (mk_eta a), (mk_eta b), (mk_eta q1). intros Ha Hs.
  destruct (add_sound _ _ _ _ _ _ _ Ha) as (q & Hq & Hk & Hu & Hsi). injection Hq as Hq.
  assert (Hsite : sub_defect_site (qk q1) (qk b) = false).
  { rewrite <- Hq in Hk. cbn [qk mk] in Hk. destruct (qk a), (qk b); cbn in Hk; try discriminate Hk; injection Hk as <-; reflexivity. }
  destruct (sub_sound _ _ _ _ _ _ _ Hsite Hs) as (q2 & -> & _ & Hu2 & Hsi2).
  exists q2. split; [reflexivity|]. split. { rewrite Hu2. rewrite <- Hq in Hu. exact Hu. }
  intros s1 s2 H1 H2. specialize (Hsi s1 s2 H1 H2). rewrite <- Hq in Hsi.
  rewrite (Hsi2 _ _ Hsi H2). f_equal. ring.
Qed.

(** a - b = -(b - a) in SI magnitude whenever both sides are defined, except at the two call sites of finding D6 *)
Theorem sub_antisym (a b : rqty) r1 r3 q2 :
  sub_defect_site (qk a) (qk b) = false -> sub_defect_site (qk b) (qk a) = false ->
  py_sub G a (PQ b) = Ok r1 -> py_sub G b (PQ a) = Ok (PQ q2) -> py_neg G q2 = Ok r3 ->
  exists q1 q3, r1 = PQ q1 /\ r3 = PQ q3 /\
    forall s1 s2, si a = Ok s1 -> si b = Ok s2 -> exists s, si q1 = Ok s /\ si q3 = Ok s.
Proof.
  rewrite (mk_eta a), (mk_eta b), (mk_eta q2). cbn [qk mk]. intros S1 S2 H1 H2 H3.
  destruct (sub_sound _ _ _ _ _ _ _ S1 H1) as (q1 & -> & _ & _ & Hsi1).
  destruct (sub_sound _ _ _ _ _ _ _ S2 H2) as (q2' & Hq2 & _ & _ & Hsi2). injection Hq2 as Hq2.
  destruct (neg_sound _ _ _ _ H3) as (q3 & -> & _ & _ & Hsi3).
  exists q1, q3. split; [reflexivity|]. split; [reflexivity|].
  intros s1 s2 Ha Hb. exists (s1 - s2). split; [apply Hsi1; assumption|].
  specialize (Hsi2 s2 s1 Hb Ha). rewrite <- Hq2 in Hsi2. rewrite (Hsi3 _ Hsi2). f_equal. ring.
Qed.
