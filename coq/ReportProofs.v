(** * ReportProofs: what snapshot and export return (C18). *)
From Coq Require Import ZArith QArith Reals Lra Lia String List Bool.
From GP Require Import ArithDef UnitsCore PyUnits RealArith QOps Relations Gears GearsR Report.
Import ListNotations.

Section Generic.
Context {A : Arith}.
Notation qty := (qty A).

(** the columns of a snapshot: exactly the requested variables (all recorded ones when none is given), each once, in the fixed
    order of the eleven variable names, labelled with the requested unit; no other column *)
Theorem snapshot_columns times (els : list (@erec A)) req us target cols rows :
  snapshot times els req us target = Ok (cols, rows) ->
  cols = map (column_name us) (sorted_vars (match req with None => all_keys els | Some r => r end)).
Proof.
  unfold snapshot, bind. destruct times as [|t0 rest]; [discriminate|].
  destruct (qmin rest t0); [|discriminate]. destruct (qmax rest t0); [|discriminate].
  destruct (q_lt target _) as [b1|]; [|discriminate]. destruct (if b1 then Ok true else q_gt target _) as [[|]|]; try discriminate.
  match goal with |- (if ?b then _ else _) = _ -> _ => destruct b; [discriminate|] end.
  destruct (times_in (t0 :: rest) "sec"); [|discriminate]. destruct (q_to target "sec"); [|discriminate].
  match goal with |- match ?x with Ok _ => _ | Err _ => _ end = _ -> _ => destruct x; [|discriminate] end.
  intros H; injection H as <- _. reflexivity.
Qed.
(** a filled cell is the interpolation, over the instants in seconds, of the element's recorded samples converted to the requested unit *)
Theorem cell_is_interpolation ts us (e : @erec A) v t y : cell ts us e v t = Ok (Some y) ->
  filled e v = true /\ exists l ys, lookup_var e v = Ok l /\
    (if String.eqb v "pwm" then numbers l else convert l (unit_of us v)) = Ok ys /\ interp1d ts ys t = Ok y.
Proof.
  unfold cell, bind. destruct (filled e v); [|discriminate]. cbn [negb].
  destruct (lookup_var e v) as [l|] eqn:E1; [|discriminate].
  destruct (if String.eqb v "pwm" then numbers l else convert l (unit_of us v)) as [ys|] eqn:E2; [|discriminate].
  destruct (interp1d ts ys t) as [y'|] eqn:E3; [|discriminate]. intros H; injection H as <-. split; [reflexivity|]. exists l, ys. auto.
Qed.
Theorem cell_empty_means ts us (e : @erec A) v t : cell ts us e v t = Ok None -> filled e v = false.
Proof.
  unfold cell, bind. destruct (filled e v); [|reflexivity]. cbn [negb].
  destruct (lookup_var e v); [|discriminate]. destruct (if String.eqb v "pwm" then _ else _); [|discriminate].
  destruct (interp1d ts _ t); discriminate.
Qed.
(** conversion keeps one value per sample *)
Lemma convert_length l u ys : @convert A l u = Ok ys -> length ys = length l.
Proof.
  revert ys. induction l as [|[q|x] l IH]; cbn; intros ys H; [injection H as <-; reflexivity| |discriminate].
  unfold bind in H. destruct (q_to q u); [|discriminate]. destruct (convert l u) as [r|]; [|discriminate]. injection H as <-. cbn. f_equal. auto.
Qed.
(** the exported table: a time column and one column per recorded key in dictionary order, each with one value per instant *)
Theorem export_shape times (e : @erec A) us cols : export times e us = Ok cols ->
  exists tcol rest, cols = ("time (" ++ u_time us ++ ")", tcol)%string :: rest /\ times_in times (u_time us) = Ok tcol /\
    map fst rest = map (fun p => column_name us (fst p)) (er_vars e) /\ Forall (fun c => length (snd c) = length tcol) rest.
Proof.
  unfold export, bind. destruct times as [|t0 ts]; [discriminate|].
  destruct (times_in (t0 :: ts) (u_time us)) as [tcol|]; [|discriminate].
  generalize (er_vars e). intros vars.
  match goal with |- match ?f vars with Ok _ => _ | Err _ => _ end = _ -> _ => set (go := f) end.
  destruct (go vars) as [rest|] eqn:E; [|discriminate]. intros H; injection H as <-. exists tcol, rest. split; [reflexivity|]. split; [reflexivity|].
  revert rest E. induction vars as [|[v smp] vars IH]; intros rest E; cbn in E.
  - injection E as <-. split; constructor.
  - unfold bind in E. destruct (if String.eqb (unit_of us v) "" then numbers smp else convert smp (unit_of us v)) as [c|]; [|discriminate].
    fold go in E. destruct (go vars) as [r|]; [|discriminate].
    destruct (Nat.eqb (length c) (length tcol)) eqn:El; [|discriminate]. cbn [negb] in E. injection E as <-.
    destruct (IH r eq_refl) as (H1 & H2). split; [cbn; f_equal; exact H1|]. constructor; [cbn; apply Nat.eqb_eq; exact El|exact H2].
Qed.
(** the method: the files written are, in order, the exports of a prefix of the elements -- all of them when nothing raised *)
Theorem export_all_files times (els : list (@erec A)) us :
  let r := export_all times els us in
  exists done, map fst (fst r) = map (@er_name A) done /\
    Forall2 (fun f e => fst f = er_name e /\ export times e us = Ok (snd f)) (fst r) done /\
    match snd r with
    | None => done = els
    | Some x => exists e rest, els = (done ++ e :: rest)%list /\ export times e us = Err x
    end.
Proof.
  induction els as [|e els IH]; cbn.
  - exists []. repeat split; constructor.
  - destruct (export times e us) as [cols|x] eqn:E; cbn.
    + destruct IH as (dn & H1 & H2 & H3). exists (e :: dn). cbn. split; [f_equal; exact H1|]. split; [constructor; [split; [reflexivity|exact E]|exact H2]|].
      destruct (snd (export_all times els us)) as [x|].
      * destruct H3 as (e' & rest & -> & H4). exists e', rest. split; [reflexivity|exact H4].
      * f_equal; exact H3.
    + exists []. repeat split; try constructor. exists e, els. split; [reflexivity|exact E].
Qed.
End Generic.

(** ** over the reals: on the recorded instants the interpolation returns the recorded (converted) sample, between two instants the chord *)
Open Scope R_scope.
Lemma interp1d_inv (xs ys : list R) t y : @interp1d RA xs ys t = Ok y -> y = @interp_segments RA (@zipn RA xs ys) t.
Proof.
  unfold interp1d. intros H.
  repeat match type of H with
  | (if ?b then _ else _) = _ => destruct b; [discriminate H|]
  | (match ?l with [] => _ | _ :: _ => _ end) = _ => destruct l; [discriminate H|]
  end.
  injection H as <-. reflexivity.
Qed.
Theorem interp1d_at_instant (xs ys : list R) t y : increasing (@zipn RA xs ys) ->
  @interp1d RA xs ys t = Ok y -> forall yk pre post, @zipn RA xs ys = (pre ++ (t, yk) :: post)%list -> y = yk.
Proof. intros Hinc H yk pre post E. rewrite (interp1d_inv _ _ _ _ H). eapply interp_at_knot; eauto. Qed.
Theorem interp1d_between (xs ys : list R) t y : increasing (@zipn RA xs ys) ->
  @interp1d RA xs ys t = Ok y -> forall x0 y0 x1 y1 pre post, @zipn RA xs ys = (pre ++ (x0, y0) :: (x1, y1) :: post)%list ->
  x0 <= t -> t < x1 -> y = y0 + (y1 - y0) * ((t - x0) / (x1 - x0)).
Proof. intros Hinc H x0 y0 x1 y1 pre post E H0 H1. rewrite (interp1d_inv _ _ _ _ H). eapply interp_on_chord; eauto. Qed.

(** the target time handed to the interpolation (as repaired by the D16 fix commit) lies within the simulated interval, so the
    interpolation's own range check cannot fail for a target that passed the tolerance-based check *)
Lemma clamp_in_range (t lo hi : R) : lo <= hi ->
  let t1 := if @ltb RA t lo then lo else t in
  let t2 := if @ltb RA hi t1 then hi else t1 in
  lo <= t2 <= hi.
Proof.
  intros H. cbv zeta. change (@ltb RA) with Rltb.
  destruct (Rltb t lo) eqn:E1.
  - destruct (Rltb hi lo) eqn:E2; [apply Rltb_true in E2; lra|lra].
  - apply Rltb_false in E1. destruct (Rltb hi t) eqn:E2; [lra|apply Rltb_false in E2; lra].
Qed.
