(** * Components: the constructors of the mechanical objects — which parameters they accept (C19, second clause).
    Arguments are Python values as the constructor sees them; the model performs the constructor's checks in the constructor's
    order and returns the exception class of the first failing one.  Generic in the arithmetic.  No proofs here. *)
From Coq Require Import ZArith QArith String List Bool PrimFloat.
From GP Require Import ArithDef UnitsCore PyUnits QOps Motor Relations Gears.
From GP.gen Require Import UnitsGen TablesGen.
Import ListNotations.
Open Scope string_scope.

Section Components.
Context {A : Arith}.
Notation qty := (qty A).

Inductive carg := CQ (q : qty) | CInt (z : Z) | CFloat (x : num A) | CBool (b : bool) | CStr (s : string) | CNone.

(** isinstance(x, K) for a quantity class K *)
Definition is_q (x : carg) (k : kind) : option qty :=
  match x with CQ q => if is_subkind GEN (qk q) k then Some q else None | _ => None end.
Definition need_q (x : carg) (k : kind) : res qty := match is_q x k with Some q => Ok q | None => Err TypeError end.
(** an optional quantity parameter: None is allowed *)
Definition opt_q (x : carg) (k : kind) : res (option qty) :=
  match x with CNone => Ok None | _ => q <- need_q x k ;; Ok (Some q) end.
(** isinstance(x, int): bool is a subclass of int *)
Definition need_int (x : carg) : res Z :=
  match x with CInt z => Ok z | CBool b => Ok (if b then 1 else 0)%Z | _ => Err TypeError end.
Definition check_name (x : carg) : res string :=
  match x with CStr s => if String.eqb s "" then Err ValueError else Ok s | _ => Err TypeError end.
Definition guard (b : bool) (e : exn) : res unit := if b then Err e else Ok tt.

(** RotatingObject.__init__ *)
Definition rotating_ctor (name J : carg) : res (string * qty) :=
  n <- check_name name ;; j <- need_q J KInertiaMoment ;; Ok (n, j).

(** DCMotor.__init__ *)
Definition motor_ctor (name J w0 tmax i0 imax : carg) : res (string * qty * @motor A) :=
  r <- rotating_ctor name J ;;
  w <- need_q w0 KAngularSpeed ;;
  t <- need_q tmax KTorque ;;
  _ <- guard (leb (qv w) zero) ValueError ;;
  _ <- guard (leb (qv t) zero) ValueError ;;
  a <- opt_q i0 KCurrent ;;
  _ <- match a with Some q => guard (ltb (qv q) zero) ValueError | None => Ok tt end ;;
  b <- opt_q imax KCurrent ;;
  _ <- match b with Some q => guard (leb (qv q) zero) ValueError | None => Ok tt end ;;
  _ <- match a, b with Some x, Some y => ge <- q_ge x y ;; guard ge ValueError | _, _ => Ok tt end ;;
  Ok (fst r, snd r, {| m_w0 := w; m_Tmax := t; m_i0 := a; m_imax := b |}).

Definition min_teeth : num A := match @lewis_table A with (x, _) :: _ => x | [] => zero end.

(** GearBase.__init__ *)
Definition gearbase_ctor (kind : ekind) (name n J module face emod : carg) : res (string * qty * @gear A) :=
  r <- rotating_ctor name J ;;
  z <- need_int n ;;
  _ <- guard (ltb (of_Z z) min_teeth) ValueError ;;
  m <- opt_q module KLength ;;
  f <- opt_q face KLength ;;
  e <- opt_q emod KStress ;;
  _ <- match e with Some q => guard (leb (qv q) zero) ValueError | None => Ok tt end ;;
  Ok (fst r, snd r, {| g_kind := kind; g_n := z; g_module := m; g_face := f; g_emod := e; g_helix := None; g_pa := None; g_dref := None |}).

Definition with_helix (g : @gear A) (h : qty) : @gear A :=
  {| g_kind := g_kind g; g_n := g_n g; g_module := g_module g; g_face := g_face g; g_emod := g_emod g; g_helix := Some h; g_pa := g_pa g; g_dref := g_dref g |}.
Definition with_pa (g : @gear A) (p : qty) : @gear A :=
  {| g_kind := g_kind g; g_n := g_n g; g_module := g_module g; g_face := g_face g; g_emod := g_emod g; g_helix := g_helix g; g_pa := Some p; g_dref := g_dref g |}.
Definition A90 : qty := {| qk := KAngle; qv := of_Z 90; qu := "deg" |}.

(** HelicalGear.__init__ *)
Definition helical_ctor (kind : ekind) (name n J helix module face emod : carg) : res (string * qty * @gear A) :=
  r <- gearbase_ctor kind name n J module face emod ;;
  h <- need_q helix KAngle ;;
  ge <- q_ge h A90 ;; _ <- guard ge ValueError ;;
  Ok (fst (fst r), snd (fst r), with_helix (snd r) h).

(** pressure_angle in AVAILABLE and the row of the matching tabulated angle (the tabulated angle is the left operand of ==) *)
Fixpoint pa_row (t : list (num A * num A * num A)) (pa : qty) : res (option (num A * num A)) :=
  match t with
  | [] => Ok None
  | (a, mx, y) :: t' => e <- q_cmp MEq {| qk := KAngle; qv := a; qu := "deg" |} pa ;; if e then Ok (Some (mx, y)) else pa_row t' pa
  end.
Definition check_pa_helix (pa h : qty) : res unit :=
  row <- pa_row worm_table pa ;;
  match row with
  | None => Err ValueError
  | Some (mx, _) => m <- q_new KAngle mx "deg" ;; gt <- q_gt h m ;; guard gt ValueError
  end.

(** WormWheel.__init__ (a HelicalGear without elastic modulus, plus the pressure angle) *)
Definition wheel_ctor (name n J helix pa module face : carg) : res (string * qty * @gear A) :=
  r <- helical_ctor EWheel name n J helix module face CNone ;;
  p <- need_q pa KAngle ;;
  h <- the (g_helix (snd r)) ;;
  _ <- check_pa_helix p h ;;
  Ok (fst (fst r), snd (fst r), with_pa (snd r) p).

(** WormGear.__init__ *)
Definition worm_ctor (name n J helix pa dref : carg) : res (string * qty * @gear A) :=
  r <- rotating_ctor name J ;;
  z <- need_int n ;;
  _ <- guard (Z.ltb z 1) ValueError ;;
  h <- need_q helix KAngle ;;
  p <- need_q pa KAngle ;;
  _ <- check_pa_helix p h ;;
  d <- opt_q dref KLength ;;
  Ok (fst r, snd r, {| g_kind := EWorm; g_n := z; g_module := None; g_face := None; g_emod := None; g_helix := Some h; g_pa := Some p; g_dref := d |}).

(** the duty-cycle setter of DCMotor: float or int (bool passes isinstance), within [-1, 1] *)
Definition pwm_setter (x : carg) : res (num A) :=
  v <- match x with CInt z => Ok (of_Z z) | CFloat y => Ok y | CBool b => Ok (if b then one else zero) | _ => Err TypeError end ;;
  if leb (neg one) v && leb v one then Ok v else Err ValueError.
End Components.
