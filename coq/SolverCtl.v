(** * SolverCtl: duty-cycle arbitration (C14), generic in the arithmetic. *)
From Coq Require Import ZArith QArith String List Bool Lia.
From GP Require Import ArithDef UnitsCore PyUnits QOps Motor Solver SolverProofs.
Import ListNotations.

Section Ctl.
Context {A : Arith}.
Notation qty := (qty A).
Notation snap := (@snap A).

Definition in_range (p : num A) : Prop := leb (neg one) p && leb p one = true.

Lemma set_pwm_range p q : @set_pwm A p = Ok q -> q = p /\ in_range q.
Proof. unfold set_pwm, in_range. destruct (leb (neg one) p && leb p one) eqn:E; [|discriminate]. intros H; injection H as <-. auto. Qed.

(** PWMControl.apply_rules: no proposal -> 1; exactly one -> that proposal saturated; two or more -> ValueError *)
Theorem arbitrate_spec (vals : list (option (num A))) :
  match somes vals with
  | [] => arbitrate vals = set_pwm one
  | [v] => arbitrate vals = set_pwm (saturate v)
  | _ :: _ :: _ => arbitrate vals = Err ValueError
  end.
Proof. unfold arbitrate. destruct (somes vals) as [|v [|w l]]; reflexivity. Qed.
Lemma somes_length (vals : list (option (num A))) :
  length (somes vals) = length (filter (fun o => match o with Some _ => true | None => false end) vals).
Proof. unfold somes. induction vals as [|[x|] l IH]; cbn; auto. Qed.
Theorem arbitrate_ok vals p : arbitrate vals = Ok p ->
  in_range p /\ ((somes vals = [] /\ p = one) \/ (exists v, somes vals = [v] /\ p = saturate v)).
Proof.
  generalize (arbitrate_spec vals). destruct (somes vals) as [|v [|w l]]; intros -> H; try discriminate.
  - apply set_pwm_range in H as [-> Hr]. auto.
  - apply set_pwm_range in H as [-> Hr]. split; [exact Hr|]. right. eauto.
Qed.
Theorem control_range c ctl w pwm p : in_range pwm -> @control A c ctl w pwm = Ok p -> in_range p.
Proof.
  unfold control, bind. destruct ctl as [rs|]; [|intros H E; injection E as <-; exact H].
  intros _. destruct (apply_all c w rs) as [vals|]; [|discriminate]. intros H. apply arbitrate_ok in H. apply H.
Qed.

(** every recorded duty cycle, and the motor's live one, is within [-1, 1] in every reachable state *)
Section Hist.
Variable c : @chain A.
Variable load : qty -> qty -> qty -> res qty.
Hypothesis one_in_range : in_range one.

Definition PwmInv (st : @sys A) : Prop :=
  in_range (v_pwm (y_live st)) /\ forall t s, In (t, s) (y_hist st) -> in_range (s_pwm s).

Lemma live_of_pwm (s : snap) v : live_of s = Ok v -> v_pwm v = s_pwm s.
Proof.
  unfold live_of, bind. destruct (lastq (s_pos s)); [|discriminate]. destruct (lastq (s_spd s)); [|discriminate].
  destruct (lastq (s_acc s)); [|discriminate]. destruct (headq (s_tq s)); [|discriminate]. intros H; injection H as <-. reflexivity.
Qed.
Lemma integrate_pwm (v v' : @live A) dt : integrate v dt = Ok v' -> v_pwm v' = v_pwm v.
Proof.
  unfold integrate, bind. destruct (v_acc_last v); [|discriminate]. destruct (q_mulq _ dt); [|discriminate].
  destruct (q_add (v_spd_last v) _); [|discriminate]. destruct (q_mulq _ dt); [|discriminate].
  destruct (q_add (v_pos_last v) _); [|discriminate]. intros H; injection H as <-. reflexivity.
Qed.
Lemma record_instant_pwm ctl J t v st prov st' s :
  in_range (v_pwm v) -> (forall t s, In (t, s) (y_hist st) -> in_range (s_pwm s)) ->
  record_instant c load ctl J t v st prov = Ok (st', s) -> PwmInv st'.
Proof.
  intros Hv Hh Er. destruct (record_instant_inv _ _ _ _ _ _ _ _ _ _ Er) as (Hh' & Hl & _ & Hf).
  destruct (if_ctl _ _ _ _ _ _ _ _ _ _ Hf) as (ltq0 & _ & Hc).
  assert (Hs : in_range (s_pwm s)) by (eapply control_range; eauto).
  split.
  - rewrite (live_of_pwm _ _ Hl). exact Hs.
  - rewrite Hh'. intros t' s' [E|Hin]; [injection E as <- <-; exact Hs|eauto].
Qed.
Lemma loop_pwm ctl stop J dt ts st st' : PwmInv st -> loop c load ctl stop J dt ts st = Ok st' -> PwmInv st'.
Proof.
  revert st. induction ts as [|t ts IH]; cbn [loop]; intros st HI H.
  - injection H as <-. exact HI.
  - unfold bind in H. destruct (integrate (y_live st) dt) as [v|] eqn:Ei; [|discriminate].
    destruct (record_instant c load ctl J t v st (Some dt)) as [[st1 s]|] eqn:Er; [|discriminate].
    assert (H1 : PwmInv st1).
    { destruct HI as (Hl & Hh). eapply record_instant_pwm; [|exact Hh|exact Er]. rewrite (integrate_pwm _ _ _ Ei). exact Hl. }
    destruct (match stop with Some sc => stop_check sc s | None => Ok false end) as [[|]|]; [|eauto|discriminate].
    injection H as <-. exact H1.
Qed.
Lemma run_pwm ctl stop dt T st st' : PwmInv st -> run c load ctl stop dt T st = Ok st' -> PwmInv st'.
Proof.
  unfold run, bind. intros HI H. destruct (q_ge dt T) as [[|]|]; try discriminate.
  destruct (equivalent_inertia c) as [J|]; [|discriminate].
  destruct (y_hist st) as [|[tl sl] h] eqn:Eh.
  - destruct (q_new KTime zero (qu dt)) as [t0|]; [|discriminate].
    destruct (record_instant c load ctl J t0 (y_live st) _ None) as [[st0 s0]|] eqn:Er; [|discriminate].
    cbn [fst] in H. destruct (q_ratio T dt); [|discriminate]. eapply loop_pwm; [|exact H].
    eapply record_instant_pwm; [apply HI| |exact Er]. cbn. intros ? ? [].
  - destruct (q_to tl (qu dt)); [|discriminate]. destruct (q_ratio T dt); [|discriminate]. eapply loop_pwm; eauto.
Qed.
Lemma step_op_pwm o st st' : PwmInv st -> step_op c load st o = Ok st' -> PwmInv st'.
Proof.
  intros HI H. destruct o as [dt T ctl stop| | |p w|x]; cbn [step_op] in H.
  - eapply run_pwm; eauto.
  - unfold reset in H. destruct (rev (y_hist st)) as [|[t s] r] eqn:Er; [discriminate|]. unfold bind in H.
    destruct (live_of s) as [v|] eqn:El; [|discriminate]. injection H as <-. split; cbn; [|intros ? ? []].
    rewrite (live_of_pwm _ _ El). apply (proj2 HI t). apply in_rev. rewrite Er. left; reflexivity.
  - injection H as <-. exact HI.
  - destruct (y_hist st); [|discriminate]. injection H as <-. split; cbn; [apply HI|intros ? ? []].
  - unfold bind in H. destruct (set_pwm x) as [p|] eqn:E; [|discriminate]. injection H as <-.
    apply set_pwm_range in E as [-> Hr]. split; cbn; [exact Hr|apply HI].
Qed.
Theorem exec_pwm ops st st' : PwmInv st -> exec c load ops st = Ok st' -> PwmInv st'.
Proof.
  revert st. induction ops as [|o ops IH]; cbn [exec]; intros st HI H.
  - injection H as <-. exact HI.
  - unfold bind in H. destruct (step_op c load st o) as [st1|] eqn:E; [|discriminate]. eapply IH; [eapply step_op_pwm; eauto|exact H].
Qed.
Theorem reachable_pwm_range ops p w st t s : exec c load ops (initial p w) = Ok st -> In (t, s) (y_hist st) -> in_range (s_pwm s).
Proof.
  intros He Hin. assert (HI : PwmInv (initial p w)) by (split; cbn; [exact one_in_range|intros ? ? []]).
  apply (proj2 (exec_pwm _ _ _ HI He) t s Hin).
Qed.
End Hist.

(** with a controller, the recorded duty cycle of every instant is the arbitration of the rules' proposals at that instant *)
Theorem instant_pwm_is_arbitration (c : @chain A) load rs J t f v locked prov (s : snap) :
  instant_facts c load (Some rs) J t f v locked prov s ->
  exists ltq0 vals, headq (s_ltq s) = Ok ltq0 /\
    apply_all c {| w_time := t; w_pos := s_pos s; w_spd := s_spd s; w_ltq0 := ltq0; w_first_ltq0 := f |} rs = Ok vals /\
    arbitrate vals = Ok (s_pwm s).
Proof.
  intros Hf. destruct (if_ctl _ _ _ _ _ _ _ _ _ _ Hf) as (ltq0 & Hh & Hc). unfold control, bind in Hc.
  destruct (apply_all c _ rs) as [vals|] eqn:E; [|discriminate]. eauto.
Qed.
End Ctl.
