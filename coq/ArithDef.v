(** * Arith: the one arithmetic interface every model is written against.

    Three instances are built from it: [FA] (PrimFloat: the implementation's
    binary64 arithmetic, evaluated with vm_compute and compared bit for bit with
    gearpy), [RA] (Coq reals: the arithmetic the properties are stated in) and
    whatever else satisfies the laws.  No proofs about models live here. *)
From Coq Require Import ZArith QArith String List Bool.
From Coq Require Import PrimFloat Uint63 FloatOps SpecFloat.
Import ListNotations.

Record Arith := {
  num : Type;
  zero : num; one : num; pi : num;
  add : num -> num -> num; sub : num -> num -> num;
  mul : num -> num -> num; div : num -> num -> num;   (* raw IEEE / field division; Python's ZeroDivisionError is added by the models *)
  neg : num -> num; absn : num -> num; sqrtn : num -> num;
  ltb : num -> num -> bool; leb : num -> num -> bool; eqb : num -> num -> bool;
  lit : Q -> float -> num;        (* a source literal: its exact decimal value / the nearest binary64, as Python reads it *)
  of_Z : Z -> num;                (* Python int (teeth numbers, starts, step index) *)
  round_half_even : num -> Z;     (* Python's round(x) on a float *)
  (* libm / numpy functions: an oracle in FA (table looked up by exact argument bits), the real functions in RA *)
  fsin : num -> num; fcos : num -> num; ftan : num -> num; fatan : num -> num; fsquare : num -> num
}.

Arguments zero {a}. Arguments one {a}. Arguments pi {a}.
Arguments add {a}. Arguments sub {a}. Arguments mul {a}. Arguments div {a}.
Arguments neg {a}. Arguments absn {a}. Arguments sqrtn {a}.
Arguments ltb {a}. Arguments leb {a}. Arguments eqb {a}.
Arguments lit {a}. Arguments of_Z {a}. Arguments round_half_even {a}.
Arguments fsin {a}. Arguments fcos {a}. Arguments ftan {a}. Arguments fatan {a}. Arguments fsquare {a}.

Definition gtb {A : Arith} (x y : num A) : bool := ltb y x.
Definition geb {A : Arith} (x y : num A) : bool := leb y x.
Definition neb {A : Arith} (x y : num A) : bool := negb (eqb x y).

(** Python exceptions are data. *)
Inductive exn := TypeError | ValueError | KeyError | ZeroDivisionError | NameError | IndexError | AttributeError
               | OracleMiss    (* model-level: a libm argument the case file has no entry for *)
               | OutOfFuel.    (* model-level *)
Inductive res (T : Type) := Ok (t : T) | Err (e : exn).
Arguments Ok {T}. Arguments Err {T}.
Definition bind {T U} (r : res T) (f : T -> res U) : res U := match r with Ok t => f t | Err e => Err e end.
Notation "x <- r ;; k" := (bind r (fun x => k)) (at level 61, r at next level, right associativity).
Definition exn_eqb (a b : exn) : bool :=
  match a, b with
  | TypeError, TypeError | ValueError, ValueError | KeyError, KeyError | ZeroDivisionError, ZeroDivisionError
  | NameError, NameError | IndexError, IndexError | AttributeError, AttributeError | OracleMiss, OracleMiss | OutOfFuel, OutOfFuel => true
  | _, _ => false end.

(** Python float division raises on a zero divisor. *)
Definition pydiv {A : Arith} (x y : num A) : res (num A) :=
  if eqb y zero then Err ZeroDivisionError else Ok (div x y).
