(** * SolverSched: continuation (C12), generic in the arithmetic. *)
From Coq Require Import ZArith QArith String List Bool Lia.
From GP Require Import ArithDef UnitsCore PyUnits QOps Motor Solver SolverProofs SolverRun.
Import ListNotations.

Ltac FIN :=
  match goal with G2 : match ?x with Ok _ => _ | Err _ => _ end = Ok _ |- _ =>
    destruct x as [?t|]; [|discriminate G2];
    match goal with G2 : match ?y with Ok _ => _ | Err _ => _ end = Ok _ |- _ =>
      destruct y as [?x2|]; [|discriminate G2]; injection G2 as -> <-; reflexivity end end.
Section Sched.
Context {A : Arith}.
Notation qty := (qty A).
Variable c : @chain A.
Variable load : qty -> qty -> qty -> res qty.

(** stepping over two grids one after the other is stepping over their concatenation (no stop condition) *)
Lemma loop_app ctl J dt ts1 ts2 st :
  loop c load ctl None J dt (ts1 ++ ts2) st = (st1 <- loop c load ctl None J dt ts1 st ;; loop c load ctl None J dt ts2 st1).
Proof.
  revert st. induction ts1 as [|t ts1 IH]; intros st; cbn [app loop bind].
  - reflexivity.
  - unfold bind. destruct (integrate (y_live st) dt) as [v|]; [|reflexivity].
    destruct (record_instant c load ctl J t v st (Some dt)) as [[st1 s]|]; [|reflexivity]. apply IH.
Qed.

(** what a run leaves as its last instant, when it stepped over the whole non-empty grid *)
Lemma loop_last_time ctl J dt ts st st' : loop c load ctl None J dt ts st = Ok st' -> ts <> [] ->
  last_time st' = Some (last ts (@Build_qty A KTime zero EmptyString)).
Proof.
  revert st. induction ts as [|t ts IH]; intros st H Hne; [contradiction|]. cbn [loop] in H. unfold bind in H.
  destruct (integrate (y_live st) dt) as [v|]; [|discriminate].
  destruct (record_instant c load ctl J t v st (Some dt)) as [[st1 s]|] eqn:Er; [|discriminate].
  destruct (record_instant_inv _ _ _ _ _ _ _ _ _ _ Er) as (Hh & _).
  destruct ts as [|t2 ts].
  - cbn [loop] in H. injection H as <-. unfold last_time. rewrite Hh. reflexivity.
  - change (last (t :: t2 :: ts) _) with (last (t2 :: ts) (@Build_qty A KTime zero EmptyString)). eapply IH; [exact H|discriminate].
Qed.

(** C12, continuation with the same step: if the grid of T1+T2 is the grid of T1 followed by the grid of T2 started at T1's
    last instant (a fact of real arithmetic, see [grid_concat_R]; in binary64 the instants agree only up to rounding), then
    "run T1; continue T2" and "run T1+T2" give the same state: same history, same live values, same lock flag. *)
Theorem continue_same_step ctl dt T1 T2 T12 st st1 t0 ts1 t0' ts2 :
  run c load ctl None dt T1 st = Ok st1 ->
  run_grid dt T1 (last_time st) = Ok (t0, ts1) -> ts1 <> [] ->
  run_grid dt T2 (last_time st1) = Ok (t0', ts2) ->
  run_grid dt T12 (last_time st) = Ok (t0, (ts1 ++ ts2)%list) ->
  q_ge dt T2 = Ok false -> q_ge dt T12 = Ok false ->
  run c load ctl None dt T2 st1 = run c load ctl None dt T12 st.
Proof.
  intros H1 G1 Hne G2 G12 Hge2 Hge12.
  unfold run in *. rewrite Hge2, Hge12. unfold bind in *.
  destruct (q_ge dt T1) as [[|]|]; try discriminate.
  destruct (equivalent_inertia c) as [J|] eqn:EJ; [|discriminate].
  unfold run_grid, last_time, bind in G1, G12.
  destruct (y_hist st) as [|[tl sl] h] eqn:Eh.
  - destruct (q_new KTime zero (qu dt)) as [t00|] eqn:Et0; [|discriminate].
    destruct (record_instant c load ctl J t00 (y_live st) _ None) as [[st0 s0]|] eqn:Er; [|discriminate]. cbn [fst] in *.
    destruct (q_ratio T1 dt) as [x1|]; [|discriminate]. injection G1 as -> <-.
    destruct (q_ratio T12 dt) as [x12|]; [|discriminate]. injection G12 as G12. rewrite G12.
    rewrite loop_app. unfold bind. rewrite H1.
    assert (Hl : last_time st1 = Some (last (grid_from (qv t0) (qv dt) (qu dt) 1 (Z.to_nat (round_half_even x1))) (@Build_qty A KTime zero EmptyString))).
    { eapply loop_last_time; eauto. }
    unfold run_grid, bind in G2. rewrite Hl in G2. unfold last_time in Hl.
    destruct (y_hist st1) as [|[tl1 sl1] h1]; [discriminate|]. injection Hl as ->.
    FIN.
  - destruct (q_to tl (qu dt)) as [t00|] eqn:Et0; [|discriminate].
    destruct (q_ratio T1 dt) as [x1|]; [|discriminate]. injection G1 as -> <-.
    destruct (q_ratio T12 dt) as [x12|]; [|discriminate]. injection G12 as G12. rewrite G12.
    rewrite loop_app. unfold bind. rewrite H1.
    assert (Hl : last_time st1 = Some (last (grid_from (qv t0) (qv dt) (qu dt) 1 (Z.to_nat (round_half_even x1))) (@Build_qty A KTime zero EmptyString))).
    { eapply loop_last_time; eauto. }
    unfold run_grid, bind in G2. rewrite Hl in G2. unfold last_time in Hl.
    destruct (y_hist st1) as [|[tl1 sl1] h1]; [discriminate|]. injection Hl as ->.
    FIN.
Qed.

(** ** reset and rerun *)
(** on a fresh start the solver's flag is clear, and then the lock test does not depend on the motor torque left over from
    the previous simulation *)
Lemma lock_decision_fresh pwm spd0 tq0 lk :
  lock_decision c pwm spd0 tq0 false = Ok lk -> lock_decision c pwm spd0 None false = Ok lk.
Proof.
  unfold lock_decision, orr, andr, bind.
  destruct (c_selflock c); destruct (eqb pwm zero); destruct (ltb zero pwm); destruct (ltb pwm zero);
  destruct (q_lt spd0 NULL_SPD) as [[|]|]; destruct (q_gt spd0 NULL_SPD) as [[|]|];
  (destruct tq0 as [t|]; [destruct (q_gt t NULL_TQ) as [[|]|]; destruct (q_lt t NULL_TQ) as [[|]|]|]);
  intros H; try discriminate H; try exact H; injection H as <-; reflexivity.
Qed.
(** the observable part of a recorded instant (everything but the ghost fields) *)
Definition obs (s : @snap A) := (s_pos s, s_spd s, s_acc s, s_tq s, s_dtq s, s_ltq s, s_pwm s, s_cur s, s_locked s).
(** the first instant of a rerun: computed from live values that agree with the original ones on position, speed and duty
    cycle, it records the same observable values (whatever torque, acceleration and current the reset restored) *)
Theorem first_instant_rerun ctl J t f v v' s lk prov :
  v_pos_last v' = v_pos_last v -> v_spd_last v' = v_spd_last v -> v_pwm v' = v_pwm v -> v_tq0 v = None ->
  instant c load ctl J t f v' false prov = Ok (s, lk) ->
  exists s0, instant c load ctl J t f v false prov = Ok (s0, lk) /\ obs s0 = obs s.
Proof.
  intros Hp Hw Hd Ht H. unfold instant, bind in *. rewrite Hp, Hw, Hd in H. rewrite Ht.
  destruct (back_prop (ratios c) (v_pos_last v)) as [pos|]; [|discriminate].
  destruct (back_prop (ratios c) (v_spd_last v)) as [spd1|]; [|discriminate].
  destruct (headq spd1) as [spd0|]; [|discriminate].
  destruct (lock_decision c (v_pwm v) spd0 (v_tq0 v') false) as [lk'|] eqn:El; [|discriminate].
  rewrite (lock_decision_fresh _ _ _ _ El).
  destruct (lastq pos); [|discriminate]. destruct (lastq (if lk' then _ else spd1)); [|discriminate].
  destruct (load t _ _); [|discriminate]. destruct (load_prop (c_elems c) _) as [ltq|]; [|discriminate].
  destruct (headq ltq); [|discriminate]. destruct (control c ctl _ (v_pwm v)) as [pwm|]; [|discriminate].
  destruct (headq (if lk' then _ else spd1)); [|discriminate]. destruct (motor_torque (c_motor c) _ pwm) as [d0|]; [|discriminate].
  destruct (drive_prop (c_elems c) d0) as [dtq|]; [|discriminate]. destruct (map2r q_sub dtq ltq) as [tq|]; [|discriminate].
  destruct (if lk' then Ok _ else _) as [acc|]; [|discriminate]. destruct (motor_current (c_motor c) d0 pwm) as [cur|]; [|discriminate].
  injection H as <- <-. eexists. split; reflexivity.
Qed.
End Sched.
