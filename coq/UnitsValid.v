(** * UnitsValid: sign-constrained quantities can never be invalid (C19, quantity part). *)
From Coq Require Import ZArith QArith Reals Lra Lia Qreals String List Bool.
From GP Require Import ArithDef UnitsCore PyUnits RealArith Spec UnitsR.
From GP.gen Require Import UnitsGen.
Import ListNotations.

(** ** Part 1, generic in the arithmetic and in the description: every quantity any method returns was built by the constructor. *)
Section Generic.
Context {A : Arith} (D : unitsgen).
Definition built (q : qty A) : Prop := exists k v u, ctor D k v u = Ok q.

Lemma reval_built r self other q : reval D r self other = Ok (PQ q) -> built q.
Proof.
  destruct r; cbn; unfold bind.
  - destruct (veval D v self other) as [n|]; [|discriminate]. destruct (ctor D k n (ueval u self)) eqn:E; [|discriminate].
    intros H; injection H as <-. eexists _, _, _. exact E.
  - destruct (veval D v self other) as [n|]; [|discriminate]. destruct (ctor D (qk self) n (ueval u self)) eqn:E; [|discriminate].
    intros H; injection H as <-. eexists _, _, _. exact E.
  - destruct (veval D v self other); discriminate.
  - destruct (ceval D c self other); discriminate.
  - destruct (veval D v self other) as [n|]; [|discriminate]. destruct (ctor D (qk self) n (ueval u self)) as [q'|e] eqn:E.
    + intros H; injection H as <-. eexists _, _, _. exact E.
    + destruct e; try discriminate. destruct (veval D vchk self other) as [n0|]; [|discriminate]. destruct (leb n0 zero); discriminate.
Qed.
Lemma run_branches_built bs self other q : run_branches D bs self other = Ok (PQ q) -> built q.
Proof.
  induction bs as [|[[cs|] r] bs IH]; cbn; [discriminate| |].
  - destruct (isinst_any D other cs); [apply reval_built|exact IH].
  - apply reval_built.
Qed.
Lemma call_from_built fuel from m self other q : call_from D fuel from m self other = Ok (PQ q) -> built q.
Proof.
  revert from. induction fuel as [|f IH]; intros from H; cbn [call_from] in H; [discriminate|].
  destruct (resolve D (qk self) from 3 m) as [[lvl md]|]; [|discriminate].
  unfold bind in H. destruct (if m_super md then _ else _); [|discriminate].
  destruct (negb (accepts D (m_accept md) self other)); [discriminate|].
  destruct (guards_ok (m_guards md) other); [|discriminate]. eapply run_branches_built; eauto.
Qed.
Lemma call_built m self other q : call D m self other = Ok (PQ q) -> built q.
Proof. apply call_from_built. Qed.

(** the sign constraint, as the boolean the constructor computes *)
Definition okb (c : constraint) (v : num A) : bool :=
  match c with CNone => true | CPositive => negb (leb v zero) | CNonNegative => negb (ltb v zero) end.
Lemma check_constraint_ok c v : check_constraint c v = Ok tt -> okb c v = true.
Proof. destruct c; cbn; [reflexivity| |]; [destruct (leb v zero)|destruct (ltb v zero)]; cbn; intros H; try discriminate; reflexivity. Qed.
End Generic.

(** ** Part 2: the regenerated constructor enforces the constraints of [Spec]. *)
Definition constraint_eqb (a b : constraint) : bool :=
  match a, b with CNone, CNone | CPositive, CPositive | CNonNegative, CNonNegative => true | _, _ => false end.
Definition opt_kind_eqb (a b : option kind) : bool :=
  match a, b with None, None => true | Some x, Some y => kind_eqb x y | _, _ => false end.
Definition constraints_match : bool :=
  forallb (fun k => constraint_eqb (g_constraint GEN k) (spec_constraint k) && opt_kind_eqb (@parent GEN k) (spec_parent k)) all_kinds
  && hierarchy_ok GEN.
Lemma constraints_match_true : constraints_match = true. Proof. vm_compute. reflexivity. Qed.

Section Valid.
Context {A : Arith}.
(** a quantity is valid when its own and its parent's constraint (per [Spec]) hold and its unit is one of its kind's *)
Definition valid (q : qty A) : Prop :=
  okb (spec_constraint (qk q)) (qv q) = true /\
  match spec_parent (qk q) with Some p => okb (spec_constraint p) (qv q) = true | None => True end /\
  exists f, @factor A GEN (qk q) (qu q) = Ok f.

Lemma ctor_valid k v u (q : qty A) : ctor GEN k v u = Ok q -> valid q.
Proof.
  assert (Hm := constraints_match_true). unfold constraints_match in Hm. apply andb_true_iff in Hm as [Hm _].
  rewrite forallb_forall in Hm. assert (Hk : In k all_kinds) by (destruct k; cbn; tauto). specialize (Hm k Hk).
  apply andb_true_iff in Hm as [Hc Hp].
  unfold ctor, bind. destruct (factor GEN k u) as [f|] eqn:Ef; [|discriminate].
  destruct (match parent GEN k with Some p => check_constraint (g_constraint GEN p) v | None => Ok tt end) as [[]|] eqn:Ep; [|discriminate].
  destruct (check_constraint (g_constraint GEN k) v) as [[]|] eqn:Ec; [|discriminate].
  intros H; injection H as <-. unfold valid; cbn [qk qv qu]. split; [|split].
  - apply check_constraint_ok in Ec. destruct k; exact Ec.
  - destruct k; cbn; first [exact I | reflexivity | (cbn in Ep; apply check_constraint_ok in Ep; exact Ep)].
  - exists f. exact Ef.
Qed.
Lemma built_valid (q : qty A) : built GEN q -> valid q.
Proof. intros (k & v & u & H). eapply ctor_valid; eauto. Qed.
End Valid.

(** ** Part 3 (reals): every operation on valid quantities yields a valid quantity or raises. *)
Open Scope R_scope.
Notation rq := (qty RA).

Lemma okb_pos (v : R) : @okb RA CPositive v = true <-> 0 < v.
Proof. cbn. unfold Rleb. destruct (Rle_dec v 0); cbn; split; intros; try lra; try discriminate; reflexivity. Qed.
Lemma okb_nonneg (v : R) : @okb RA CNonNegative v = true <-> 0 <= v.
Proof. cbn. unfold Rltb. destruct (Rlt_dec v 0); cbn; split; intros; try lra; try discriminate; reflexivity. Qed.

(** validity in the words of the property *)
Lemma valid_spec (q : rq) : valid q ->
  match qk q with
  | KLength | KSurface | KInertiaMoment | KTimeInterval => 0 < qv q
  | KAngle => 0 <= qv q
  | _ => True end.
Proof. intros (H & _ & _). destruct (qk q); cbn in H; try exact I; try (apply okb_pos; exact H). apply okb_nonneg; exact H. Qed.

Lemma okb_scale c (v s : R) : 0 < s -> @okb RA c v = true -> @okb RA c (v * s) = true.
Proof.
  intros Hs. destruct c; [reflexivity| |].
  - rewrite !okb_pos. intros; nra.
  - rewrite !okb_nonneg. intros; nra.
Qed.

Theorem to_qty_valid (q q' : rq) u : to_qty GEN q u = Ok q' -> valid q'.
Proof. unfold to_qty, bind. destruct (to_value GEN q u); [|discriminate]. apply ctor_valid. Qed.

(** the in-place conversion runs no constructor: validity is preserved because every unit factor is positive *)
Theorem to_inplace_valid (q q' : rq) u : valid q -> to_inplace GEN q u = Ok q' -> valid q'.
Proof.
  intros (Hc & Hp & _) H. unfold to_inplace, bind in H. destruct (to_value GEN q u) as [x|] eqn:E; [|discriminate].
  injection H as <-. destruct (to_value_closed q u x E) as (fs & ft & Hs & Ht & Hx).
  assert (0 < fs) by (eapply factor_pos; eauto). assert (0 < ft) by (eapply factor_pos; eauto).
  assert (Hx' : x = qv q * (fs / ft)). { apply Rmult_eq_reg_r with ft; [|lra]. rewrite Hx. field. lra. }
  assert (0 < fs / ft) by (apply Rdiv_lt_0_compat; assumption).
  unfold valid; cbn [qk qv qu]. rewrite Hx'. split; [|split].
  - apply okb_scale; assumption.
  - destruct (spec_parent (qk q)); [apply okb_scale; assumption|exact I].
  - exists ft. exact Ht.
Qed.

(** ** Straight-line programs over a heap of quantities *)
Inductive qop :=
  | PCtor (k : kind) (v : R) (u : string)
  | PAdd (i j : nat) | PSub (i j : nat) | PMul (i j : nat) | PDiv (i j : nat)
  | PMulN (i : nat) (x : R) | PRMulN (x : R) (i : nat) | PDivN (i : nat) (x : R)
  | PAbs (i : nat) | PNeg (i : nat)
  | PTo (i : nat) (u : string) | PToInplace (i : nat) (u : string).

Definition getq (h : list rq) (i : nat) : res rq := match nth_error h i with Some q => Ok q | None => Err IndexError end.
(** a returned quantity becomes a new live object; a returned number or bool is dropped *)
Definition push (h : list rq) (r : pyval RA) : list rq := match r with PQ q => app h [q] | _ => h end.
Fixpoint set_nth (h : list rq) (i : nat) (q : rq) : list rq :=
  match h, i with
  | [], _ => []
  | _ :: t, O => q :: t
  | x :: t, S i' => x :: set_nth t i' q
  end.
Definition step (h : list rq) (o : qop) : res (list rq) :=
  match o with
  | PCtor k v u => q <- @ctor RA GEN k v u ;; Ok (app h [q])
  | PAdd i j => a <- getq h i ;; b <- getq h j ;; r <- py_add GEN a (PQ b) ;; Ok (push h r)
  | PSub i j => a <- getq h i ;; b <- getq h j ;; r <- py_sub GEN a (PQ b) ;; Ok (push h r)
  | PMul i j => a <- getq h i ;; b <- getq h j ;; r <- py_mul GEN a (PQ b) ;; Ok (push h r)
  | PDiv i j => a <- getq h i ;; b <- getq h j ;; r <- py_div GEN a (PQ b) ;; Ok (push h r)
  | PMulN i x => a <- getq h i ;; r <- py_mul GEN a (@PN RA x) ;; Ok (push h r)
  | PRMulN x i => a <- getq h i ;; r <- @py_rmul RA GEN x a ;; Ok (push h r)
  | PDivN i x => a <- getq h i ;; r <- py_div GEN a (@PN RA x) ;; Ok (push h r)
  | PAbs i => a <- getq h i ;; r <- py_abs GEN a ;; Ok (push h r)
  | PNeg i => a <- getq h i ;; r <- py_neg GEN a ;; Ok (push h r)
  | PTo i u => a <- getq h i ;; q <- to_qty GEN a u ;; Ok (app h [q])
  | PToInplace i u => a <- getq h i ;; q <- to_inplace GEN a u ;; Ok (set_nth h i q)
  end.
(** an operation that raises leaves the heap as it was (the program catches the exception and goes on) *)
Definition exec1 (h : list rq) (o : qop) : list rq := match step h o with Ok h' => h' | Err _ => h end.
Definition exec (ops : list qop) : list rq := fold_left exec1 ops [].

Lemma push_valid h r : Forall valid h -> (forall q, r = PQ q -> valid q) -> Forall valid (push h r).
Proof. intros Hh Hr. destruct r; cbn; try exact Hh. apply Forall_app. split; [exact Hh|]. constructor; [apply Hr; reflexivity|constructor]. Qed.
Lemma getq_valid h i q : Forall valid h -> getq h i = Ok q -> valid q.
Proof.
  unfold getq. destruct (nth_error h i) eqn:E; [|discriminate]. intros Hh H; injection H as <-.
  rewrite Forall_forall in Hh. apply Hh. eapply nth_error_In; eauto.
Qed.
Lemma set_nth_valid h i q : Forall valid h -> valid q -> Forall valid (set_nth h i q).
Proof.
  intros Hh Hq. revert i. induction Hh as [|x t Hx Ht IH]; intros i; cbn; [constructor|].
  destruct i; constructor; auto.
Qed.
Lemma py_mul_built (a : rq) b q : py_mul GEN a b = Ok (PQ q) -> built GEN q.
Proof.
  unfold py_mul. destruct b as [o| | |]; try apply call_built.
  destruct (proper_subkind GEN (qk o) (qk a) && _); apply call_built.
Qed.

Theorem step_valid h o h' : Forall valid h -> step h o = Ok h' -> Forall valid h'.
Proof.
  intros Hh H. destruct o; cbn [step] in H; unfold bind in H.
  - destruct (@ctor RA GEN k v u) as [q|] eqn:E; [|discriminate]. injection H as <-.
    apply Forall_app. split; [exact Hh|]. constructor; [eapply ctor_valid; eauto|constructor].
  - destruct (getq h i) as [a|]; [|discriminate]. destruct (getq h j) as [b|]; [|discriminate].
    destruct (py_add GEN a (PQ b)) as [r|] eqn:E; [|discriminate]. injection H as <-.
    apply push_valid; [exact Hh|]. intros q ->. apply built_valid. eapply call_built; exact E.
  - destruct (getq h i) as [a|]; [|discriminate]. destruct (getq h j) as [b|]; [|discriminate].
    destruct (py_sub GEN a (PQ b)) as [r|] eqn:E; [|discriminate]. injection H as <-.
    apply push_valid; [exact Hh|]. intros q ->. apply built_valid. eapply call_built; exact E.
  - destruct (getq h i) as [a|]; [|discriminate]. destruct (getq h j) as [b|]; [|discriminate].
    destruct (py_mul GEN a (PQ b)) as [r|] eqn:E; [|discriminate]. injection H as <-.
    apply push_valid; [exact Hh|]. intros q ->. apply built_valid. eapply py_mul_built; exact E.
  - destruct (getq h i) as [a|]; [|discriminate]. destruct (getq h j) as [b|]; [|discriminate].
    destruct (py_div GEN a (PQ b)) as [r|] eqn:E; [|discriminate]. injection H as <-.
    apply push_valid; [exact Hh|]. intros q ->. apply built_valid. eapply call_built; exact E.
  - destruct (getq h i) as [a|]; [|discriminate].
    destruct (py_mul GEN a (@PN RA x)) as [r|] eqn:E; [|discriminate]. injection H as <-.
    apply push_valid; [exact Hh|]. intros q ->. apply built_valid. eapply py_mul_built; exact E.
  - destruct (getq h i) as [a|]; [|discriminate].
    destruct (@py_rmul RA GEN x a) as [r|] eqn:E; [|discriminate]. injection H as <-.
    apply push_valid; [exact Hh|]. intros q ->. apply built_valid. eapply call_built; exact E.
  - destruct (getq h i) as [a|]; [|discriminate].
    destruct (py_div GEN a (@PN RA x)) as [r|] eqn:E; [|discriminate]. injection H as <-.
    apply push_valid; [exact Hh|]. intros q ->. apply built_valid. eapply call_built; exact E.
  - destruct (getq h i) as [a|]; [|discriminate].
    destruct (py_abs GEN a) as [r|] eqn:E; [|discriminate]. injection H as <-.
    apply push_valid; [exact Hh|]. intros q ->. apply built_valid. eapply call_built; exact E.
  - destruct (getq h i) as [a|]; [|discriminate].
    destruct (py_neg GEN a) as [r|] eqn:E; [|discriminate]. injection H as <-.
    apply push_valid; [exact Hh|]. intros q ->. apply built_valid. eapply call_built; exact E.
  - destruct (getq h i) as [a|]; [|discriminate].
    destruct (to_qty GEN a u) as [q|] eqn:E; [|discriminate]. injection H as <-.
    apply Forall_app. split; [exact Hh|]. constructor; [eapply to_qty_valid; eauto|constructor].
  - destruct (getq h i) as [a|] eqn:Ea; [|discriminate].
    destruct (to_inplace GEN a u) as [q|] eqn:E; [|discriminate]. injection H as <-.
    apply set_nth_valid; [exact Hh|]. eapply to_inplace_valid; [|exact E]. eapply getq_valid; eauto.
Qed.

(** C19 (quantities): after any program, every live object is valid. *)
Theorem exec_valid ops : Forall valid (exec ops).
Proof.
  unfold exec. assert (H : Forall valid (@nil rq)) by constructor. revert H. generalize (@nil rq).
  induction ops as [|o ops IH]; intros h Hh; cbn [fold_left]; [exact Hh|].
  apply IH. unfold exec1. destruct (step h o) eqn:E; [eapply step_valid; eauto|exact Hh].
Qed.
