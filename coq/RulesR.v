(** * RulesR: the control rules over the reals (C15). *)
From Coq Require Import ZArith QArith Reals Lra Lia Qreals String List Bool.
From GP Require Import ArithDef UnitsCore PyUnits RealArith Spec UnitsR UnitsDim QOps QOpsR Motor MotorR Solver.
From GP.gen Require Import UnitsGen.
Import ListNotations.
Open Scope R_scope.

Ltac toR := change (@add RA) with Rplus in *; change (@mul RA) with Rmult in *; change (@div RA) with Rdiv in *; change (@sub RA) with Rminus in *;
  change (@one RA) with 1 in *; change (@zero RA) with 0 in *; change (@sqrtn RA) with sqrt in *; change (num RA) with R in *.

(** ** StartLimitCurrent: the proposed duty cycle is the root of the motor's own current law *)
Definition lim_value (s e r : R) : R := / 2 * (s + e + sqrt (s * s + e * e + 2 * s * r)).

(** with s = w/w0, e = ilim/imax, r = (ilim - 2 i0)/imax: D = lim_value s e r satisfies imax D^2 - (imax s + ilim) D + i0 s = 0 *)
Theorem lim_value_is_root (W0 I0 IM ILIM w : R) : 0 < IM -> 0 < W0 ->
  let s := w / W0 in let e := ILIM / IM in let r := (ILIM - 2 * I0) / IM in
  0 <= s * s + e * e + 2 * s * r ->
  let D := lim_value s e r in
  IM * D * D - (IM * s + ILIM) * D + I0 * s = 0.
Proof.
  intros HIM HW0 s e r Hrad D. unfold D, lim_value.
  set (q := sqrt (s * s + e * e + 2 * s * r)). assert (Hq : q * q = s * s + e * e + 2 * s * r) by (apply sqrt_sqrt; exact Hrad).
  unfold r, e in *. clearbody q.
  assert (Hq' : IM * IM * (q * q) = IM * IM * (s * s) + ILIM * ILIM + 2 * s * IM * (ILIM - 2 * I0)). { rewrite Hq. field. lra. }
  apply Rmult_eq_reg_l with (4 * IM); [|lra]. rewrite Rmult_0_r.
  replace (4 * IM * (IM * (/ 2 * (s + ILIM / IM + q)) * (/ 2 * (s + ILIM / IM + q)) - (IM * s + ILIM) * (/ 2 * (s + ILIM / IM + q)) + I0 * s))
    with (IM * IM * (q * q) - (IM * IM * (s * s) + ILIM * ILIM + 2 * s * IM * (ILIM - 2 * I0))) by (field; lra).
  lra.
Qed.
(** hence, at that duty cycle (outside the dead zone, positive), the documented motor law gives exactly the limit current *)
Theorem limit_current_is_met (W0 TM I0 IM ILIM w D : R) : 0 < TM -> 0 < W0 -> 0 <= I0 < IM ->
  I0 / IM < D ->
  IM * D * D - (IM * (w / W0) + ILIM) * D + I0 * (w / W0) = 0 ->
  I_code TM I0 IM (T_doc W0 TM I0 IM w D) D = ILIM.
Proof.
  intros HTM HW0 HI HD Hroot.
  assert (Hpm : 0 <= I0 / IM). { apply Rmult_le_pos; [lra|left; apply Rinv_0_lt_compat; lra]. }
  assert (HDp : 0 < D) by lra.
  unfold I_code, T_doc, pmin. rewrite Rabs_pos_eq by lra.
  destruct (Rle_dec D (I0 / IM)); [lra|]. destruct (Rlt_dec (I0 / IM) D); [|lra].
  assert (Hd : D * IM - I0 > 0). { apply Rmult_lt_compat_r with (r := IM) in HD; [|lra]. unfold Rdiv in HD. rewrite Rmult_assoc, Rinv_l, Rmult_1_r in HD by lra. lra. }
  apply Rmult_eq_reg_l with D; [|lra].
  replace (D * ((IM - I0) * (TM * ((D * IM - I0) / (IM - I0)) * (1 - w / (D * W0)) / TM) + I0))
    with ((D * IM - I0) * (D - w / W0) + I0 * D) by (field; repeat split; lra).
  nra.
Qed.

(** ** the model's StartLimitCurrent proposes exactly that value while the position is not beyond the target *)
Section Lim.
Variable c : @chain RA.
Variables i0 imax : rq.
Hypothesis Hi0 : m_i0 (c_motor c) = Some i0.
Hypothesis Himax : m_imax (c_motor c) = Some imax.
Variables W0 I0 IM : R.
Hypothesis sW0 : si (m_w0 (c_motor c)) = Ok W0.
Hypothesis sI0 : si i0 = Ok I0.
Hypothesis sIM : si imax = Ok IM.
Hypothesis kI0 : qk i0 = KCurrent.

Theorem rule_limit_value (w : @view RA) enc tach target (ilim : rq) ILIM p sp wv v :
  si ilim = Ok ILIM -> qk ilim = KCurrent ->
  nth_error (w_pos w) enc = Some p -> nth_error (w_spd w) tach = Some sp -> si sp = Ok wv ->
  apply_rule c w (RLim enc tach target ilim) = Ok (Some v) ->
  q_le p target = Ok true /\
  v = lim_value (wv / W0) (ILIM / IM) ((ILIM - 2 * I0) / IM).
Proof.
  intros sL kL Hp Hs ssp H. unfold apply_rule in H. rewrite Hi0, Himax in H. unfold bind, nthq in H. rewrite Hp, Hs in H.
  destruct (q_ratio sp (m_w0 (c_motor c))) as [s|] eqn:Es; [|discriminate]. destruct (q_ratio_si _ _ _ _ _ Es ssp sW0) as (_ & ->).
  destruct (q_ratio ilim imax) as [e|] eqn:Ee; [|discriminate]. destruct (q_ratio_si _ _ _ _ _ Ee sL sIM) as (_ & ->).
  destruct (q_le p target) as [[|]|] eqn:El; try discriminate. split; [reflexivity|].
  destruct (q_rmul two i0) as [i2|] eqn:E2; [|discriminate]. destruct (q_rmul_si _ _ _ _ E2 sI0) as (k2 & _ & s2).
  destruct (q_sub ilim i2) as [dq|] eqn:Ed; [|discriminate].
  assert (Hds : sub_defect_site (qk ilim) (qk i2) = false) by (rewrite kL, k2, kI0; reflexivity).
  destruct (q_sub_si _ _ _ _ _ Ed Hds sL s2) as (_ & _ & sd).
  destruct (q_ratio dq imax) as [r|] eqn:Er; [|discriminate]. destruct (q_ratio_si _ _ _ _ _ Er sd sIM) as (_ & ->).
  injection H as <-. unfold lim_value, half, two. change (@fsquare RA) with (fun x : R => x * x). cbn beta. toR.
  change (@of_Z RA 2) with 2. unfold Rdiv at 1. rewrite Rmult_1_l. reflexivity.
Qed.
End Lim.

(** ** ConstantPWM: the window, in the comparisons of the quantity layer *)
Theorem rule_const_window (c : @chain RA) (w : @view RA) start dur v r :
  apply_rule c w (RConst start dur v) = Ok r ->
  exists b, timer_active start dur (w_time w) = Ok b /\ r = (if b then Some v else None).
Proof. cbn [apply_rule]. unfold bind. destruct (timer_active start dur (w_time w)) as [b|]; [|discriminate]. intros H; injection H as <-. eauto. Qed.
Theorem timer_active_means start dur (t : rq) b : timer_active start dur t = Ok b ->
  (b = true <-> exists d, q_ge t start = Ok true /\ q_sub t start = Ok d /\ q_le d dur = Ok true).
Proof.
  unfold timer_active, andr, bind. destruct (q_ge t start) as [[|]|]; try discriminate.
  - destruct (q_sub t start) as [d|]; [|discriminate]. intros H. split.
    + intros ->. exists d. auto.
    + intros (d' & _ & Hd & Hl). injection Hd as <-. rewrite Hl in H. injection H as <-. reflexivity.
  - intros H; injection H as <-. split; [discriminate|]. intros (d & Hg & _). discriminate.
Qed.

(** ** ReachAngularPosition: applicable once theta >= theta_s = target - theta_b + static error, value 1 - (theta - theta_s)/theta_b,
    static error = (motor load torque / Tmax) / eta_t * theta_b *)
Theorem rule_reach_value (c : @chain RA) (w : @view RA) enc (target brake p : rq) TM TG BA L P v :
  si (m_Tmax (c_motor c)) = Ok TM -> si target = Ok TG -> si brake = Ok BA -> si (w_ltq0 w) = Ok L -> si p = Ok P ->
  qk target = KAngularPosition -> qk brake = KAngle -> qk p = KAngularPosition ->
  nth_error (w_pos w) enc = Some p ->
  apply_rule c w (RReach enc target brake) = Ok (Some v) ->
  let eta := spur_eff c in
  let theta_s := TG - BA + L / TM / eta * BA in
  eta <> 0 /\ BA <> 0 /\ v = 1 - (P - theta_s) / BA.
Proof.
  intros sTM sTG sBA sL sP kT kB kP Hp H. unfold apply_rule, bind, nthq in H. rewrite Hp in H.
  destruct (q_ratio (w_ltq0 w) (m_Tmax (c_motor c))) as [k|] eqn:Ek; [|discriminate]. destruct (q_ratio_si _ _ _ _ _ Ek sL sTM) as (_ & ->).
  unfold pydiv in H. change (@eqb RA) with Reqb in H. unfold Reqb in H. destruct (Req_EM_T (spur_eff c) (@zero RA)) as [Hz|Hz]; [discriminate|].
  destruct (q_new KAngularPosition (qv brake) (qu brake)) as [ba|] eqn:Eba; [|discriminate]. apply q_new_eq in Eba.
  assert (sba : si ba = Ok BA).
  { subst ba. unfold si, bind in *. cbn [qk qu qv mk]. rewrite kB in sBA. change (@factor RA G KAngle (qu brake)) with (@factor RA G KAngularPosition (qu brake)) in sBA. exact sBA. }
  destruct (q_rmul _ ba) as [err|] eqn:Ee; [|discriminate]. destruct (q_rmul_si _ _ _ _ Ee sba) as (ke & _ & se).
  destruct (q_sub target brake) as [a|] eqn:Ea; [|discriminate].
  assert (Hd1 : sub_defect_site (qk target) (qk brake) = false) by (rewrite kT, kB; reflexivity).
  destruct (q_sub_si _ _ _ _ _ Ea Hd1 sTG sBA) as (ka & _ & sa). rewrite kT, kB in ka. cbn in ka. injection ka as ka.
  destruct (q_add a err) as [bsa|] eqn:Eb; [|discriminate]. destruct (q_add_si _ _ _ _ _ Eb sa se) as (kb & _ & sb).
  rewrite <- ka, ke in kb. subst ba. cbn [qk mk] in kb. cbn in kb. injection kb as kb.
  destruct (q_ge p bsa) as [[|]|]; try discriminate.
  destruct (q_sub p bsa) as [d|] eqn:Ed; [|discriminate].
  assert (Hd2 : sub_defect_site (qk p) (qk bsa) = false) by (rewrite kP, <- kb; reflexivity).
  destruct (q_sub_si _ _ _ _ _ Ed Hd2 sP sb) as (_ & _ & sd).
  destruct (q_ratio d brake) as [x|] eqn:Ex; [|discriminate]. destruct (q_ratio_si _ _ _ _ _ Ex sd sBA) as (HB & ->).
  injection H as <-. cbn zeta. split; [exact Hz|]. split; [exact HB|]. toR. reflexivity.
Qed.

(** ** StartProportionalToAngularPosition: while theta <= target, the linear ramp  p_min + (1 - p_min) theta / target  from the
    minimum duty cycle to 1, where the computed minimum duty cycle is
      multiplier * ( (1/eta_t) (T_l / T_max) ((i_max - i_0)/i_max) + i_0/i_max )
    with T_l the motor load torque at the FIRST instant of the simulation (the present one when nothing is recorded yet), and the
    user's fallback value is used exactly when the computed one is zero *)
Theorem rule_prop_value (c : @chain RA) (w : @view RA) enc (target p i0 imax : rq) mult pmin TM TG L P I0 IM v :
  m_i0 (c_motor c) = Some i0 -> m_imax (c_motor c) = Some imax ->
  si (m_Tmax (c_motor c)) = Ok TM -> si target = Ok TG -> si p = Ok P -> si i0 = Ok I0 -> si imax = Ok IM ->
  si (match w_first_ltq0 w with Some x => x | None => w_ltq0 w end) = Ok L ->
  qk i0 = KCurrent -> qk imax = KCurrent ->
  nth_error (w_pos w) enc = Some p ->
  apply_rule c w (RProp enc target mult pmin) = Ok (Some v) ->
  let eta := spur_eff c in
  let computed := mult * (1 / eta * (L / TM) * ((IM - I0) / IM) + I0 / IM) in
  eta <> 0 /\ TM <> 0 /\ IM <> 0 /\ TG <> 0 /\
  exists pm, (computed <> 0 -> pm = computed) /\ (computed = 0 -> pmin = Some pm) /\ v = (1 - pm) * P / TG + pm.
Proof.
  intros Hi Hm sTM sTG sP sI sM sL kI kM Hp H. unfold apply_rule, bind, nthq in H. rewrite Hi, Hm, Hp in H.
  unfold pydiv in H. change (@eqb RA) with Reqb in H. unfold Reqb in H at 1.
  destruct (Req_EM_T (spur_eff c) (@zero RA)) as [Hz|Hz]; [discriminate|].
  destruct (q_ratio _ (m_Tmax (c_motor c))) as [r1|] eqn:E1; [|discriminate]. destruct (q_ratio_si _ _ _ _ _ E1 sL sTM) as (HTM & ->).
  destruct (q_sub imax i0) as [sp|] eqn:Es; [|discriminate].
  assert (Hd : sub_defect_site (qk imax) (qk i0) = false) by (rewrite kI, kM; reflexivity).
  destruct (q_sub_si _ _ _ _ _ Es Hd sM sI) as (_ & _ & ssp).
  destruct (q_ratio sp imax) as [r2|] eqn:E2; [|discriminate]. destruct (q_ratio_si _ _ _ _ _ E2 ssp sM) as (HIM & ->).
  destruct (q_ratio i0 imax) as [r3|] eqn:E3; [|discriminate]. destruct (q_ratio_si _ _ _ _ _ E3 sI sM) as (_ & ->).
  match type of H with context [if negb (Reqb ?x ?z) then _ else _] => set (cmp := x) in * end.
  assert (Ecmp : cmp = mult * (1 / spur_eff c * (L / TM) * ((IM - I0) / IM) + I0 / IM)) by (subst cmp; toR; reflexivity).
  destruct (negb (Reqb cmp (@zero RA))) eqn:Enz.
  - destruct (q_le p target) as [[|]|]; try discriminate.
    destruct (q_rmul _ p) as [q|] eqn:Eq; [|discriminate]. destruct (q_rmul_si _ _ _ _ Eq sP) as (_ & _ & sq).
    destruct (q_ratio q target) as [x|] eqn:Ex; [|discriminate]. destruct (q_ratio_si _ _ _ _ _ Ex sq sTG) as (HTG & ->).
    injection H as <-. cbn zeta. repeat (split; [assumption|]). exists cmp. rewrite <- Ecmp.
    split; [reflexivity|]. split.
    + intros E0. exfalso. unfold Reqb in Enz. rewrite E0 in Enz. change (@zero RA) with 0%R in Enz. destruct (Req_EM_T 0 0); [discriminate|congruence].
    + toR. reflexivity.
  - destruct pmin as [pm|]; [|discriminate].
    destruct (q_le p target) as [[|]|]; try discriminate.
    destruct (q_rmul _ p) as [q|] eqn:Eq; [|discriminate]. destruct (q_rmul_si _ _ _ _ Eq sP) as (_ & _ & sq).
    destruct (q_ratio q target) as [x|] eqn:Ex; [|discriminate]. destruct (q_ratio_si _ _ _ _ _ Ex sq sTG) as (HTG & ->).
    injection H as <-. cbn zeta. repeat (split; [assumption|]). exists pm. rewrite <- Ecmp.
    assert (E0 : cmp = 0). { unfold Reqb in Enz. change (@zero RA) with 0%R in Enz. destruct (Req_EM_T cmp 0); [assumption|discriminate]. }
    split; [intros Hn; contradiction|]. split; [reflexivity|]. toR. reflexivity.
Qed.
