(** * GridR: the time grid of a run read in SI (C11, C12): it depends on the SI magnitudes of dt, T and the previous final instant only. *)
From Coq Require Import ZArith QArith Reals Lra Lia String List Bool.
From GP Require Import ArithDef UnitsCore PyUnits RealArith Spec UnitsR UnitsDim QOps QOpsR Motor Solver SolverProofs SolverRun.
From GP.gen Require Import UnitsGen.
Import ListNotations.
Open Scope R_scope.

Lemma time_factor u : @factor RA GEN KTime u = @factor RA GEN KTimeInterval u.
Proof. reflexivity. Qed.

Theorem run_grid_SI (dt T : rq) (last : option rq) t0 ts DT TT :
  run_grid dt T last = Ok (t0, ts) -> qk dt = KTimeInterval -> si dt = Ok DT -> si T = Ok TT ->
  forall T0, match last with Some tl => si tl = Ok T0 /\ qk tl = KTime | None => T0 = 0 end ->
  length ts = Z.to_nat (@round_half_even RA (TT / DT)) /\
  forall i q, nth_error ts i = Some q -> si q = Ok (T0 + INR (S i) * DT).
Proof.
  intros H kdt sdt sT T0 Hl. unfold run_grid, bind in H.
  assert (Ht0 : exists t0', (match last with Some tl => q_to tl (qu dt) | None => q_new KTime zero (qu dt) end) = Ok t0' ) by
    (destruct (match last with Some tl => q_to tl (qu dt) | None => q_new KTime zero (qu dt) end); [eauto|discriminate]).
  destruct Ht0 as (t0' & Et0). rewrite Et0 in H.
  destruct (q_ratio T dt) as [x|] eqn:Ex; [|discriminate]. injection H as <- <-.
  destruct (q_ratio_si _ _ _ _ _ Ex sT sdt) as (_ & ->).
  split; [apply grid_from_length|].
  (* the start instant: same unit as dt, kind Time, SI magnitude T0 *)
  assert (Hs : qk t0' = KTime /\ qu t0' = qu dt /\ si t0' = Ok T0).
  { destruct last as [tl|].
    - destruct Hl as (stl & ktl). destruct (q_to_si _ _ _ _ Et0 stl) as (k & u & s). rewrite ktl in k. auto.
    - subst T0. apply q_new_eq in Et0. subst t0'. cbn [qk qu qv mk]. split; [reflexivity|]. split; [reflexivity|].
      unfold si, bind in sdt |- *. cbn [qk qu qv mk]. rewrite kdt in sdt. change G with GEN in *. rewrite time_factor.
      destruct (factor GEN KTimeInterval (qu dt)); [|discriminate]. f_equal. change (@zero RA) with 0. lra. }
  destruct Hs as (k0 & u0 & s0).
  intros i q Hq.
  match type of Hq with nth_error (grid_from _ _ _ _ ?n) _ = _ =>
    assert (Hi : (i < n)%nat) by (rewrite <- (grid_from_length (qv t0') (qv dt) (qu dt) 1 n); apply nth_error_Some; rewrite Hq; discriminate) end.
  rewrite (grid_from_nth _ _ _ _ _ _ Hi) in Hq. injection Hq as <-.
  unfold si, bind in s0, sdt |- *. cbn [qk qu qv]. rewrite k0, u0 in s0. rewrite kdt in sdt. change G with GEN in *. rewrite time_factor in *.
  destruct (factor GEN KTimeInterval (qu dt)) as [f|]; [|discriminate]. injection s0 as <-. injection sdt as <-. f_equal.
  change (@add RA) with Rplus. change (@mul RA) with Rmult. change (@of_Z RA) with IZR.
  match goal with |- context [IZR ?z] => replace (IZR z) with (INR (S i)) end; [ring|].
  change (INR (S i) = IZR (1 + Z.of_nat i)). rewrite plus_IZR, <- INR_IZR_INZ, S_INR. lra.
Qed.
