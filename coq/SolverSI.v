(** * SolverSI: the equations of one recorded instant read in SI (over the reals), and the linear step they imply for a DC motor at
    constant duty cycle under a constant load (the refinement of the solver model to the recurrence of C04Core). *)
From Coq Require Import ZArith QArith Reals Lra Lia Qreals String List Bool.
From GP Require Import ArithDef UnitsCore PyUnits RealArith Spec UnitsR UnitsDim QOps QOpsR Motor MotorR Solver SolverProofs C04Core.
From GP.gen Require Import UnitsGen.
Import ListNotations.
Open Scope R_scope.

Definition prodR (l : list R) : R := fold_right Rmult 1 l.

(** upstream kinematic values: head = (product of the ratios) * last *)
Lemma linked_si rs (l : list rq) : linked (@q_rmul RA) rs l -> forall x s, lastq l = Ok x -> si x = Ok s ->
  exists h, headq l = Ok h /\ si h = Ok (prodR rs * s) /\ qk h = qk x.
Proof.
  induction 1 as [x0|r rs y z l Hl IH Hop]; intros x s Hlast Hs.
  - cbn in Hlast. injection Hlast as <-. exists x0. cbn. split; [reflexivity|]. split; [rewrite Hs; f_equal; cbn; lra|reflexivity].
  - assert (Hlast' : lastq (y :: l) = Ok x).
    { unfold lastq in *. cbn [rev] in *. destruct (rev l ++ [y])%list eqn:E; [destruct (rev l); discriminate|]. cbn in Hlast. exact Hlast. }
    destruct (IH x s Hlast' Hs) as (h & Hh & Hsh & Hk). cbn in Hh. injection Hh as <-.
    destruct (q_rmul_si _ _ _ _ Hop Hsh) as (Hkz & _ & Hsz). exists z. cbn. split; [reflexivity|]. split; [rewrite Hsz; f_equal; unfold prodR; cbn [fold_right]; change (num RA) with R in *; ring|congruence].
Qed.
(** driving torques: last = head * product of (efficiency * ratio) *)
Definition gainR (es : list (@elem RA)) : R := fold_right (fun (e : @elem RA) (acc : R) => ((e_eff e : R) * (e_ratio e : R)) * acc) 1 es.
Lemma drive_linked_si es (l : list rq) : drive_linked es l -> forall h s, headq l = Ok h -> si h = Ok s ->
  exists x, lastq l = Ok x /\ si x = Ok (s * gainR es) /\ qk x = qk h.
Proof.
  induction 1 as [x0|e es x a b l Ha Hb Hl IH]; intros h s Hh Hs.
  - cbn in Hh. injection Hh as <-. exists x0. cbn. split; [reflexivity|]. split; [rewrite Hs; f_equal; cbn; lra|reflexivity].
  - cbn in Hh. injection Hh as <-. destruct (q_muln_si _ _ _ _ Ha Hs) as (Hka & _ & Hsa). destruct (q_muln_si _ _ _ _ Hb Hsa) as (Hkb & _ & Hsb).
    destruct (IH b _ eq_refl Hsb) as (xl & Hxl & Hsx & Hkx). exists xl. split; [apply lastq_cons; exact Hxl|].
    split; [rewrite Hsx; f_equal; unfold gainR; cbn [fold_right]; change (num RA) with R in *; ring|congruence].
Qed.
(** element-wise difference: the last net torque is last driving - last load *)
Lemma pointwise_last (a b c : list rq) : pointwise (@q_sub RA) a b c -> forall xa xb, lastq a = Ok xa -> lastq b = Ok xb ->
  exists xc, lastq c = Ok xc /\ q_sub xa xb = Ok xc.
Proof.
  induction 1 as [|x y z a b c Hz Hp IH]; intros xa xb Ha Hb; [discriminate|].
  destruct a as [|a1 a]; destruct b as [|b1 b]; inversion Hp; subst.
  - cbn in Ha, Hb. injection Ha as <-. injection Hb as <-. exists z. split; [reflexivity|exact Hz].
  - assert (Ha' : lastq (a1 :: a) = Ok xa).
    { unfold lastq in *. cbn [rev] in *. destruct ((rev a ++ [a1]) ++ [x])%list eqn:E; [destruct (rev a ++ [a1])%list; discriminate|].
      destruct (rev a ++ [a1])%list eqn:E2; [destruct (rev a); discriminate|]. cbn in E. injection E as <- <-. exact Ha. }
    assert (Hb' : lastq (b1 :: b) = Ok xb).
    { unfold lastq in *. cbn [rev] in *. destruct ((rev b ++ [b1]) ++ [y])%list eqn:E; [destruct (rev b ++ [b1])%list; discriminate|].
      destruct (rev b ++ [b1])%list eqn:E2; [destruct (rev b); discriminate|]. cbn in E. injection E as <- <-. exact Hb. }
    destruct (IH _ _ Ha' Hb') as (xc & Hc & Hs). exists xc. split; [apply lastq_cons; exact Hc|exact Hs].
Qed.

(** ** the acceleration of a recorded, not-held instant, in SI, for ANY motor law [Tlaw] (SI torque as a function of SI motor speed
    and duty cycle) that the model's [motor_torque] is shown to follow; a load of SI magnitude L *)
Definition Rr (c : @chain RA) : R := prodR (ratios c).
Definition Gg (c : @chain RA) : R := gainR (c_elems c).

Section Law.
Variable c : @chain RA.
Variable load : rq -> rq -> rq -> res rq.
Variables W0 L : R.
Variable Tlaw : R -> R -> R.
Hypothesis Hlaw : forall (spd : rq) w D T, si spd = Ok w -> motor_torque (c_motor c) spd D = Ok T -> qk T = KTorque /\ si T = Ok (Tlaw w D).
(** the user's load function returns a torque of SI magnitude L whatever its arguments (a constant load) *)
Hypothesis load_const : forall t p w lt, load t p w = Ok lt -> qk lt = KTorque /\ si lt = Ok L.

Theorem instant_acceleration_law ctl J t f v locked prov (s : @snap RA) JJ wl w :
  instant_facts c load ctl J t f v locked prov s -> s_locked s = false ->
  si J = Ok JJ -> qk J = KInertiaMoment ->
  lastq (s_spd s) = Ok wl -> si wl = Ok w ->
  exists a, lastq (s_acc s) = Ok a /\ si a = Ok ((Tlaw (Rr c * w) (s_pwm s) * Gg c - L) / JJ).
Proof.
  intros Hf Hlk sJ kJ Hwl sw.
  (* speeds *)
  destruct (if_spd1 _ _ _ _ _ _ _ _ _ _ Hf) as (spd1 & spd0 & Hb & Hh0 & _ & Hs). rewrite Hlk in Hs.
  destruct (back_prop_spec _ _ _ Hb) as (Hlink & Hlast & _). rewrite Hs in Hwl. rewrite Hlast in Hwl. injection Hwl as Hwl.
  assert (sv : si (v_spd_last v) = Ok w) by (rewrite Hwl; exact sw).
  destruct (linked_si _ _ Hlink _ _ Hlast sv) as (h & Hh & Hsh & Hkh).
  (* driving torque *)
  destruct (if_drive _ _ _ _ _ _ _ _ _ _ Hf) as (spd0' & d0 & Hh' & Hm & Hd & _). rewrite Hs in Hh'. rewrite Hh in Hh'. injection Hh' as <-.
  destruct (Hlaw _ _ _ _ Hsh Hm) as (kd0 & sd0).
  destruct (drive_prop_spec _ _ _ Hd) as (Hdl & Hdh & _).
  destruct (drive_linked_si _ _ Hdl _ _ Hdh sd0) as (xd & Hxd & sxd & kxd).
  (* load torque *)
  destruct (if_load _ _ _ _ _ _ _ _ _ _ Hf) as (pl & sl & lt & _ & _ & Hl & Hlp).
  destruct (load_const _ _ _ _ Hl) as (klt & slt). destruct (load_prop_spec _ _ _ Hlp) as (_ & Hll & _).
  (* net torque *)
  destruct (pointwise_last _ _ _ (map2r_spec _ _ _ _ (if_net _ _ _ _ _ _ _ _ _ _ Hf)) _ _ Hxd Hll) as (xc & Hxc & Hsub).
  assert (Hds : sub_defect_site (qk xd) (qk lt) = false) by (rewrite kxd, kd0, klt; reflexivity).
  destruct (q_sub_si _ _ _ _ _ Hsub Hds sxd slt) as (_ & _ & sxc).
  (* acceleration *)
  generalize (if_acc _ _ _ _ _ _ _ _ _ _ Hf). rewrite Hlk. intros (tl & a & Htl & Ha & Hba).
  rewrite Hxc in Htl. injection Htl as <-.
  destruct (q_divq_si _ _ _ _ _ Ha sxc sJ) as (_ & _ & sa).
  exists a. split; [apply (back_prop_spec _ _ _ Hba)|]. rewrite sa. unfold Rr, Gg. reflexivity.
Qed.

(** one step, in SI *)
Lemma step_ok_SI (dt : rq) (s1 s : @snap RA) DT a1 w1 p1 A1 W1 P1 :
  step_ok dt s1 s -> s_locked s = false -> si dt = Ok DT ->
  lastq (s_acc s1) = Ok a1 -> lastq (s_spd s1) = Ok w1 -> lastq (s_pos s1) = Ok p1 ->
  si a1 = Ok A1 -> si w1 = Ok W1 -> si p1 = Ok P1 ->
  exists w' p', lastq (s_spd s) = Ok w' /\ lastq (s_pos s) = Ok p' /\ si w' = Ok (W1 + A1 * DT) /\ si p' = Ok (P1 + (W1 + A1 * DT) * DT).
Proof.
  intros (a1' & w1' & p1' & dv & w' & dp & p' & Ha & Hw & Hp & Hdv & Hw' & Hdp & Hp' & Hlp & Hls) Hlk sdt Ha1 Hw1 Hp1 sa sw sp.
  rewrite Ha1 in Ha. injection Ha as <-. rewrite Hw1 in Hw. injection Hw as <-. rewrite Hp1 in Hp. injection Hp as <-.
  rewrite Hlk in Hls.
  destruct (q_mulq_si _ _ _ _ _ Hdv sa sdt) as (_ & sdv). destruct (q_add_si _ _ _ _ _ Hw' sw sdv) as (_ & _ & sw').
  destruct (q_mulq_si _ _ _ _ _ Hdp sw' sdt) as (_ & sdp). destruct (q_add_si _ _ _ _ _ Hp' sp sdp) as (_ & _ & sp').
  exists w', p'. auto.
Qed.

(** ** a whole unheld history at constant duty cycle D and constant step follows the Euler recurrence of C04Core, whenever the
    law is linear in the speed at that duty cycle:  Tlaw w D = TDc (1 - w / (Dc W0)) *)
Variables JJ DT D : R.
Variable J : rq.
Hypothesis HJ : equivalent_inertia c = Ok J.
Hypothesis sJ : si J = Ok JJ.
Hypothesis kJ : qk J = KInertiaMoment.
Variables TDc Dc : R.
Hypothesis Hlin : forall w, Tlaw w D = TDc * (1 - w / (Dc * W0)).
Hypothesis Hnz : Dc <> 0 /\ W0 <> 0 /\ JJ <> 0.
(** the coefficients of  w' = A - kap w  for the output element *)
Definition A_g : R := (TDc * Gg c - L) / JJ.
Definition kap_g : R := TDc * Gg c * Rr c / (Dc * W0 * JJ).

Definition uniform (h : list (rq * @snap RA)) : Prop :=
  forall t s, In (t, s) h -> s_locked s = false /\ s_pwm s = D /\ (forall dt, s_dt s = Some dt -> si dt = Ok DT).

Theorem history_follows_euler_g (h : list (rq * @snap RA)) : hist_ok c load h -> uniform h -> h <> [] ->
  forall t0 s0 pre, h = (pre ++ [(t0, s0)])%list ->
  forall w0 p0 W00 P00, lastq (s_spd s0) = Ok w0 -> lastq (s_pos s0) = Ok p0 -> si w0 = Ok W00 -> si p0 = Ok P00 ->
  forall t s rest, h = (t, s) :: rest ->
  exists wk pk, lastq (s_spd s) = Ok wk /\ lastq (s_pos s) = Ok pk /\
    si wk = Ok (snd (C04Core.euler A_g kap_g DT W00 P00 (length rest))) /\
    si pk = Ok (fst (C04Core.euler A_g kap_g DT W00 P00 (length rest))).
Proof.
  intros Hh. induction Hh as [|t1 s1 v1 Hd1 Hs1|t2 s2 t1 s1 h' dt Hd2 Hst Hh' IH]; intros Hu Hne t0 s0 pre E w0 p0 W00 P00 Hw0 Hp0 sw0 sp0 t s rest Ehd.
  - contradiction.
  - injection Ehd as <- <- <-. destruct pre as [|x [|y pre]]; try discriminate. cbn in E. injection E as <- <-.
    exists w0, p0. cbn. auto.
  - injection Ehd as <- <- <-.
    assert (Hu' : uniform ((t1, s1) :: h')) by (intros a b Hin; apply (Hu a b); right; exact Hin).
    destruct pre as [|x pre]; [discriminate|]. cbn in E. injection E as _ E.
    destruct (IH Hu' ltac:(discriminate) t0 s0 pre E w0 p0 W00 P00 Hw0 Hp0 sw0 sp0 t1 s1 h' eq_refl) as (wk & pk & Hwk & Hpk & swk & spk).
    destruct (Hu t2 s2 (or_introl eq_refl)) as (Hlk2 & Hpw2 & Hdt2).
    destruct (Hu' t1 s1 (or_introl eq_refl)) as (Hlk1 & Hpw1 & _).
    assert (sdt : si dt = Ok DT) by (apply Hdt2; exact Hd2).
    (* acceleration of s1 *)
    destruct (hist_ok_in _ _ _ _ _ Hh' (or_introl eq_refl)) as (v & ctl & J' & f & locked & prov & HJ' & _ & Hf1).
    rewrite HJ in HJ'. injection HJ' as <-.
    destruct (instant_acceleration_law ctl J t1 f v locked prov s1 JJ wk _ Hf1 Hlk1 sJ kJ Hwk swk) as (a1 & Ha1 & sa1).
    destruct (step_ok_SI dt s1 s2 DT a1 wk pk _ _ _ (stepped_step_ok _ _ _ _ _ _ Hst) Hlk2 sdt Ha1 Hwk Hpk sa1 swk spk) as (w' & p' & Hw' & Hp' & sw' & sp').
    exists w', p'. split; [exact Hw'|]. split; [exact Hp'|].
    cbn [length C04Core.euler]. destruct (C04Core.euler A_g kap_g DT W00 P00 (length h')) as [th w] eqn:Ee. cbn [fst snd] in *.
    rewrite Hpw1, Hlin in sw', sp'.
    assert (Ealg : w + (TDc * (1 - Rr c * w / (Dc * W0)) * Gg c - L) / JJ * DT = w + (A_g - kap_g * w) * DT).
    { unfold A_g, kap_g. destruct Hnz as (H1 & H2 & H3). field. auto. }
    rewrite Ealg in sw', sp'. split; [exact sw'|exact sp'].
Qed.

(** hence (C04): the simulated speed and position of the output element stay within a bound proportional to the step of the
    closed-form exponential solution, at every recorded instant *)
Hypothesis Hkap : 0 < kap_g.
Hypothesis Hx : kap_g * DT <= 1/5.
Hypothesis HDT : 0 < DT.
Theorem model_converges_g (h : list (rq * @snap RA)) : hist_ok c load h -> uniform h -> h <> [] ->
  forall t0 s0 pre, h = (pre ++ [(t0, s0)])%list ->
  forall w0 p0 W00 P00, lastq (s_spd s0) = Ok w0 -> lastq (s_pos s0) = Ok p0 -> si w0 = Ok W00 -> si p0 = Ok P00 ->
  forall t s rest, h = (t, s) :: rest ->
  let k := length rest in
  exists wk pk Wk Pk, lastq (s_spd s) = Ok wk /\ lastq (s_pos s) = Ok pk /\ si wk = Ok Wk /\ si pk = Ok Pk /\
    Rabs (Wk - C04Core.w_exact A_g kap_g W00 (INR k * DT)) <= 2/5 * (kap_g * DT) * Rabs (W00 - A_g / kap_g) /\
    Rabs (Pk - C04Core.th_exact A_g kap_g W00 P00 (INR k * DT)) <= DT * Rabs (W00 - A_g / kap_g).
Proof.
  intros Hh Hu Hne t0 s0 pre E w0 p0 W00 P00 Hw0 Hp0 sw0 sp0 t s rest Ehd k.
  destruct (history_follows_euler_g h Hh Hu Hne t0 s0 pre E w0 p0 W00 P00 Hw0 Hp0 sw0 sp0 t s rest Ehd) as (wk & pk & Hwk & Hpk & swk & spk).
  exists wk, pk. do 2 eexists. split; [exact Hwk|]. split; [exact Hpk|]. split; [exact swk|]. split; [exact spk|]. split.
  - apply C04Core.speed_error; assumption.
  - apply C04Core.position_error; assumption.
Qed.
End Law.

(** ** a DC motor with current data (documented characteristic [T_doc], C08), duty cycle of either sign outside the dead zone *)
Section Linear.
Variable c : @chain RA.
Variable load : rq -> rq -> rq -> res rq.
Variables i0 imax : rq.
Hypothesis Hi0 : m_i0 (c_motor c) = Some i0.
Hypothesis Himax : m_imax (c_motor c) = Some imax.
Variables W0 TM I0 IM L : R.
Hypothesis sW0 : si (m_w0 (c_motor c)) = Ok W0.
Hypothesis sTM : si (m_Tmax (c_motor c)) = Ok TM.
Hypothesis sI0 : si i0 = Ok I0.
Hypothesis sIM : si imax = Ok IM.
Hypothesis kT : qk (m_Tmax (c_motor c)) = KTorque.
Hypothesis kI0 : qk i0 = KCurrent.
Hypothesis kIM : qk imax = KCurrent.
Hypothesis load_const : forall t p w lt, load t p w = Ok lt -> qk lt = KTorque /\ si lt = Ok L.

(** the maximum torque at duty cycle D outside the dead zone, for either sign of D (documented characteristic, C08) *)
Definition TDs (D : R) : R := if Rlt_dec 0 D then TM * ((D * IM - I0) / (IM - I0)) else TM * ((D * IM + I0) / (IM - I0)).

Lemma law_currents : forall (spd : rq) w D T, si spd = Ok w -> motor_torque (c_motor c) spd D = Ok T ->
  qk T = KTorque /\ si T = Ok (T_doc W0 TM I0 IM w D).
Proof. intros spd w D T sw H. destruct (motor_torque_doc _ _ _ Hi0 Himax _ _ _ _ sW0 sTM sI0 sIM kT kI0 kIM _ _ _ _ sw H) as (k & _ & sT). auto. Qed.
Lemma T_doc_linear D : 0 <= I0 / IM -> I0 / IM < Rabs D -> forall w, T_doc W0 TM I0 IM w D = TDs D * (1 - w / (D * W0)).
Proof.
  intros Hp0 HD w. unfold T_doc, pmin, TDs.
  destruct (Rle_dec (Rabs D) (I0 / IM)) as [Habs|Habs]; [exfalso; lra|].
  destruct (Rlt_dec (I0 / IM) D) as [Hgt|Hngt].
  - destruct (Rlt_dec 0 D); [reflexivity|lra].
  - destruct (Rlt_dec 0 D) as [Hpos'|_]; [|reflexivity]. exfalso. rewrite Rabs_right in Habs by lra. lra.
Qed.

Theorem instant_acceleration_SI ctl J t f v locked prov (s : @snap RA) JJ wl w :
  instant_facts c load ctl J t f v locked prov s -> s_locked s = false ->
  si J = Ok JJ -> qk J = KInertiaMoment ->
  lastq (s_spd s) = Ok wl -> si wl = Ok w ->
  0 <= I0 / IM -> I0 / IM < Rabs (s_pwm s) ->
  let D := s_pwm s in
  let TD := TDs D in
  exists a, lastq (s_acc s) = Ok a /\ si a = Ok ((TD * (1 - Rr c * w / (D * W0)) * Gg c - L) / JJ).
Proof.
  intros Hf Hlk sJ kJ Hwl sw Hp0 HD. cbv zeta.
  destruct (instant_acceleration_law c load L _ law_currents load_const ctl J t f v locked prov s JJ wl w Hf Hlk sJ kJ Hwl sw) as (a & Ha & sa).
  exists a. split; [exact Ha|]. rewrite sa. rewrite (T_doc_linear _ Hp0 HD). reflexivity.
Qed.

Variables JJ DT D : R.
Variable J : rq.
Hypothesis HJ : equivalent_inertia c = Ok J.
Hypothesis sJ : si J = Ok JJ.
Hypothesis kJ : qk J = KInertiaMoment.
Hypothesis HD : I0 / IM < Rabs D.
Hypothesis Hpos : 0 <= I0 /\ 0 < IM /\ 0 < W0 /\ 0 < JJ.
(** the coefficients of  w' = A - kap w  for the output element *)
Definition A_lin : R := A_g c L JJ (TDs D).
Definition kap_lin : R := kap_g c W0 JJ (TDs D) D.

Lemma pmin_nonneg : 0 <= I0 / IM.
Proof. destruct Hpos as (H1 & H2 & _). apply Rmult_le_pos; [lra|left; apply Rinv_0_lt_compat; lra]. Qed.
Lemma nz_currents : D <> 0 /\ W0 <> 0 /\ JJ <> 0.
Proof. destruct Hpos as (H1 & H2 & H3 & H4). generalize pmin_nonneg; intro Hp. repeat split; try lra. intros E0. assert (HD' := HD). rewrite E0, Rabs_R0 in HD'. lra. Qed.

Theorem history_follows_euler (h : list (rq * @snap RA)) : hist_ok c load h -> uniform DT D h -> h <> [] ->
  forall t0 s0 pre, h = (pre ++ [(t0, s0)])%list ->
  forall w0 p0 W00 P00, lastq (s_spd s0) = Ok w0 -> lastq (s_pos s0) = Ok p0 -> si w0 = Ok W00 -> si p0 = Ok P00 ->
  forall t s rest, h = (t, s) :: rest ->
  exists wk pk, lastq (s_spd s) = Ok wk /\ lastq (s_pos s) = Ok pk /\
    si wk = Ok (snd (C04Core.euler A_lin kap_lin DT W00 P00 (length rest))) /\
    si pk = Ok (fst (C04Core.euler A_lin kap_lin DT W00 P00 (length rest))).
Proof.
  exact (history_follows_euler_g c load W0 L _ law_currents load_const JJ DT D J HJ sJ kJ (TDs D) D (T_doc_linear D pmin_nonneg HD) nz_currents h).
Qed.

Hypothesis Hkap : 0 < kap_lin.
Hypothesis Hx : kap_lin * DT <= 1/5.
Hypothesis HDT : 0 < DT.
Theorem model_converges (h : list (rq * @snap RA)) : hist_ok c load h -> uniform DT D h -> h <> [] ->
  forall t0 s0 pre, h = (pre ++ [(t0, s0)])%list ->
  forall w0 p0 W00 P00, lastq (s_spd s0) = Ok w0 -> lastq (s_pos s0) = Ok p0 -> si w0 = Ok W00 -> si p0 = Ok P00 ->
  forall t s rest, h = (t, s) :: rest ->
  let k := length rest in
  exists wk pk Wk Pk, lastq (s_spd s) = Ok wk /\ lastq (s_pos s) = Ok pk /\ si wk = Ok Wk /\ si pk = Ok Pk /\
    Rabs (Wk - C04Core.w_exact A_lin kap_lin W00 (INR k * DT)) <= 2/5 * (kap_lin * DT) * Rabs (W00 - A_lin / kap_lin) /\
    Rabs (Pk - C04Core.th_exact A_lin kap_lin W00 P00 (INR k * DT)) <= DT * Rabs (W00 - A_lin / kap_lin).
Proof.
  exact (model_converges_g c load W0 L _ law_currents load_const JJ DT D J HJ sJ kJ (TDs D) D (T_doc_linear D pmin_nonneg HD) nz_currents Hkap Hx HDT h).
Qed.
End Linear.

(** ** a DC motor WITHOUT current data: the torque is Tmax (1 - w / w0) whatever the duty cycle *)
Section NoCurrents.
Variable c : @chain RA.
Variable load : rq -> rq -> rq -> res rq.
Hypothesis Hnone : m_i0 (c_motor c) = None \/ m_imax (c_motor c) = None.
Variables W0 TM L : R.
Hypothesis sW0 : si (m_w0 (c_motor c)) = Ok W0.
Hypothesis sTM : si (m_Tmax (c_motor c)) = Ok TM.
Hypothesis kT : qk (m_Tmax (c_motor c)) = KTorque.
Hypothesis load_const : forall t p w lt, load t p w = Ok lt -> qk lt = KTorque /\ si lt = Ok L.

Lemma law_nocurrents : forall (spd : rq) w D T, si spd = Ok w -> motor_torque (c_motor c) spd D = Ok T ->
  qk T = KTorque /\ si T = Ok (TM * (1 - w / W0)).
Proof.
  intros spd w D T sw H. split; [|exact (motor_torque_nocurrent _ _ _ _ _ _ _ Hnone sW0 sTM kT sw H)].
  unfold motor_torque, bind in H.
  assert (H' : (r <- q_ratio spd (m_w0 (c_motor c)) ;; q_new KTorque (mul (sub one r) (qv (m_Tmax (c_motor c)))) (qu (m_Tmax (c_motor c)))) = Ok T).
  { destruct Hnone as [Hn|Hn]; rewrite Hn in H; [exact H|]. destruct (m_i0 (c_motor c)); exact H. }
  unfold bind in H'. destruct (q_ratio spd (m_w0 (c_motor c))); [|discriminate]. apply q_new_eq in H'. subst T. reflexivity.
Qed.

Variables JJ DT D : R.
Variable J : rq.
Hypothesis HJ : equivalent_inertia c = Ok J.
Hypothesis sJ : si J = Ok JJ.
Hypothesis kJ : qk J = KInertiaMoment.
Hypothesis Hpos : 0 < W0 /\ 0 < JJ.
Definition A_nc : R := A_g c L JJ TM.
Definition kap_nc : R := kap_g c W0 JJ TM 1.
Lemma nc_linear : forall w, (fun w (_ : R) => TM * (1 - w / W0)) w D = TM * (1 - w / (1 * W0)).
Proof. intros w. cbv beta. f_equal. f_equal. f_equal. lra. Qed.
Lemma nz_nc : 1 <> 0 /\ W0 <> 0 /\ JJ <> 0.
Proof. destruct Hpos. repeat split; lra. Qed.

Hypothesis Hkap : 0 < kap_nc.
Hypothesis Hx : kap_nc * DT <= 1/5.
Hypothesis HDT : 0 < DT.
Theorem model_converges_nocurrent (h : list (rq * @snap RA)) : hist_ok c load h -> uniform DT D h -> h <> [] ->
  forall t0 s0 pre, h = (pre ++ [(t0, s0)])%list ->
  forall w0 p0 W00 P00, lastq (s_spd s0) = Ok w0 -> lastq (s_pos s0) = Ok p0 -> si w0 = Ok W00 -> si p0 = Ok P00 ->
  forall t s rest, h = (t, s) :: rest ->
  let k := length rest in
  exists wk pk Wk Pk, lastq (s_spd s) = Ok wk /\ lastq (s_pos s) = Ok pk /\ si wk = Ok Wk /\ si pk = Ok Pk /\
    Rabs (Wk - C04Core.w_exact A_nc kap_nc W00 (INR k * DT)) <= 2/5 * (kap_nc * DT) * Rabs (W00 - A_nc / kap_nc) /\
    Rabs (Pk - C04Core.th_exact A_nc kap_nc W00 P00 (INR k * DT)) <= DT * Rabs (W00 - A_nc / kap_nc).
Proof.
  exact (model_converges_g c load W0 L (fun w _ => TM * (1 - w / W0)) law_nocurrents load_const JJ DT D J HJ sJ kJ TM 1 nc_linear nz_nc Hkap Hx HDT h).
Qed.
End NoCurrents.
