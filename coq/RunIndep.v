(** * RunIndep: whole-run unit independence (C07) in the regime where the solver model is proved to be the Euler recurrence:
    never held, constant duty cycle above the dead zone, constant step, constant load.  Two models of the "same" powertrain —
    every quantity written in whatever unit (the time step may even change unit from one run to the next), same pure numbers — record, at every instant, output
    speeds and positions with the same SI magnitude. *)
From Coq Require Import ZArith QArith Reals Lra String List Bool.
From GP Require Import ArithDef UnitsCore PyUnits RealArith Spec UnitsR QOps QOpsR Motor MotorR Solver SolverProofs C04Core SolverSI.
Import ListNotations.
Open Scope R_scope.

(** everything the two descriptions must share: SI magnitudes of the dimensional inputs, and the pure numbers *)
Record same_system (c c' : @chain RA) (load load' : rq -> rq -> rq -> res rq)
                   (W0 TM I0 IM L JJ : R) : Prop := {
  ss_i0 : exists i0 imax, m_i0 (c_motor c) = Some i0 /\ m_imax (c_motor c) = Some imax /\ si i0 = Ok I0 /\ si imax = Ok IM /\
                          qk i0 = KCurrent /\ qk imax = KCurrent;
  ss_i0' : exists i0 imax, m_i0 (c_motor c') = Some i0 /\ m_imax (c_motor c') = Some imax /\ si i0 = Ok I0 /\ si imax = Ok IM /\
                          qk i0 = KCurrent /\ qk imax = KCurrent;
  ss_w : si (m_w0 (c_motor c)) = Ok W0;  ss_w' : si (m_w0 (c_motor c')) = Ok W0;
  ss_t : si (m_Tmax (c_motor c)) = Ok TM /\ qk (m_Tmax (c_motor c)) = KTorque;
  ss_t' : si (m_Tmax (c_motor c')) = Ok TM /\ qk (m_Tmax (c_motor c')) = KTorque;
  ss_l : forall t p w lt, load t p w = Ok lt -> qk lt = KTorque /\ si lt = Ok L;
  ss_l' : forall t p w lt, load' t p w = Ok lt -> qk lt = KTorque /\ si lt = Ok L;
  ss_J : exists J, equivalent_inertia c = Ok J /\ si J = Ok JJ /\ qk J = KInertiaMoment;
  ss_J' : exists J, equivalent_inertia c' = Ok J /\ si J = Ok JJ /\ qk J = KInertiaMoment;
  ss_R : Rr c = Rr c';  ss_G : Gg c = Gg c'      (* product of the gear ratios, product of ratio x efficiency: pure numbers *)
}.

Theorem run_unit_independent (c c' : @chain RA) load load' W0 TM I0 IM L JJ DT D :
  same_system c c' load load' W0 TM I0 IM L JJ ->
  I0 / IM < Rabs D -> 0 <= I0 /\ 0 < IM /\ 0 < W0 /\ 0 < JJ ->
  forall h h', hist_ok c load h -> hist_ok c' load' h' -> uniform DT D h -> uniform DT D h' ->
  (* the same initial state, in SI *)
  forall t0 s0 pre t0' s0' pre', h = (pre ++ [(t0, s0)])%list -> h' = (pre' ++ [(t0', s0')])%list ->
  forall w0 p0 w0' p0' W00 P00, lastq (s_spd s0) = Ok w0 -> lastq (s_pos s0) = Ok p0 -> si w0 = Ok W00 -> si p0 = Ok P00 ->
                                lastq (s_spd s0') = Ok w0' -> lastq (s_pos s0') = Ok p0' -> si w0' = Ok W00 -> si p0' = Ok P00 ->
  (* the same number of recorded instants *)
  forall t s rest t' s' rest', h = (t, s) :: rest -> h' = (t', s') :: rest' -> length rest = length rest' ->
  exists wk pk wk' pk' Wk Pk,
    lastq (s_spd s) = Ok wk /\ lastq (s_pos s) = Ok pk /\ lastq (s_spd s') = Ok wk' /\ lastq (s_pos s') = Ok pk' /\
    si wk = Ok Wk /\ si wk' = Ok Wk /\ si pk = Ok Pk /\ si pk' = Ok Pk.
Proof.
  intros S HD Hpos h h' Hh Hh' Hu Hu' t0 s0 pre t0' s0' pre' E E' w0 p0 w0' p0' W00 P00 Hw Hp sw sp Hw' Hp' sw' sp' t s rest t' s' rest' Eh Eh' Hlen.
  destruct S as [(i0 & imax & Hi & Hm & sI & sM & kI & kM) (i0' & imax' & Hi' & Hm' & sI' & sM' & kI' & kM')
                 sW sW' (sT & kT) (sT' & kT') Hl Hl' (J & HJ & sJ & kJ) (J' & HJ' & sJ' & kJ') HR HG].
  assert (Hne : h <> []) by (rewrite Eh; discriminate). assert (Hne' : h' <> []) by (rewrite Eh'; discriminate).
  destruct (history_follows_euler c load i0 imax Hi Hm W0 TM I0 IM L sW sT sI sM kT kI kM Hl JJ DT D J HJ sJ kJ HD Hpos
              h Hh Hu Hne t0 s0 pre E w0 p0 W00 P00 Hw Hp sw sp t s rest Eh) as (wk & pk & A1 & A2 & A3 & A4).
  destruct (history_follows_euler c' load' i0' imax' Hi' Hm' W0 TM I0 IM L sW' sT' sI' sM' kT' kI' kM' Hl' JJ DT D J' HJ' sJ' kJ' HD Hpos
              h' Hh' Hu' Hne' t0' s0' pre' E' w0' p0' W00 P00 Hw' Hp' sw' sp' t' s' rest' Eh') as (wk' & pk' & B1 & B2 & B3 & B4).
  unfold A_lin, kap_lin, A_g, kap_g in *. rewrite <- HR, <- HG, <- Hlen in B3, B4.
  do 6 eexists. repeat split; eassumption.
Qed.

(** the same, for the histories of any two operation sequences on fresh powertrains *)
Theorem reachable_run_unit_independent (c c' : @chain RA) load load' W0 TM I0 IM L JJ DT D ops ops' p w p' w' st st' :
  same_system c c' load load' W0 TM I0 IM L JJ ->
  I0 / IM < Rabs D -> 0 <= I0 /\ 0 < IM /\ 0 < W0 /\ 0 < JJ ->
  exec c load ops (initial p w) = Ok st -> exec c' load' ops' (initial p' w') = Ok st' ->
  uniform DT D (y_hist st) -> uniform DT D (y_hist st') ->
  forall t0 s0 pre t0' s0' pre', y_hist st = (pre ++ [(t0, s0)])%list -> y_hist st' = (pre' ++ [(t0', s0')])%list ->
  forall w0 p0 w0' p0' W00 P00, lastq (s_spd s0) = Ok w0 -> lastq (s_pos s0) = Ok p0 -> si w0 = Ok W00 -> si p0 = Ok P00 ->
                                lastq (s_spd s0') = Ok w0' -> lastq (s_pos s0') = Ok p0' -> si w0' = Ok W00 -> si p0' = Ok P00 ->
  forall t s rest t' s' rest', y_hist st = (t, s) :: rest -> y_hist st' = (t', s') :: rest' -> length rest = length rest' ->
  exists wk pk wk' pk' Wk Pk,
    lastq (s_spd s) = Ok wk /\ lastq (s_pos s) = Ok pk /\ lastq (s_spd s') = Ok wk' /\ lastq (s_pos s') = Ok pk' /\
    si wk = Ok Wk /\ si wk' = Ok Wk /\ si pk = Ok Pk /\ si pk' = Ok Pk.
Proof.
  intros S HD Hpos He He'. 
  destruct (exec_inv c load ops _ _ (initial_inv c load p w) He) as (Hh & _).
  destruct (exec_inv c' load' ops' _ _ (initial_inv c' load' p' w') He') as (Hh' & _).
  intros Hu Hu'. eapply run_unit_independent; eauto.
Qed.

(** ... and at EVERY recorded instant, not only the latest: the k-th instant of one history against the k-th of the other *)
Lemma hist_ok_suffix (c : @chain RA) load front h : hist_ok c load (front ++ h)%list -> hist_ok c load h.
Proof.
  induction front as [|x front IH]; cbn [app]; intros H; [exact H|]. apply IH.
  inversion H as [|t s v Hd Hs E|t s t1 s1 h0 dt Hd Hst Hh E].
  - constructor.
  - exact Hh.
Qed.
Lemma suffix_last {X} (front rest pre : list X) (x y : X) : (front ++ x :: rest = pre ++ [y])%list -> exists pre2, (x :: rest = pre2 ++ [y])%list.
Proof.
  intros E. destruct (exists_last (l := x :: rest)) as (pre2 & z & Ez); [discriminate|]. exists pre2. rewrite Ez in *.
  rewrite app_assoc in E. apply app_inj_tail in E. destruct E as [_ ->]. reflexivity.
Qed.
Theorem every_instant_unit_independent (c c' : @chain RA) load load' W0 TM I0 IM L JJ DT D ops ops' p w p' w' st st' :
  same_system c c' load load' W0 TM I0 IM L JJ ->
  I0 / IM < Rabs D -> 0 <= I0 /\ 0 < IM /\ 0 < W0 /\ 0 < JJ ->
  exec c load ops (initial p w) = Ok st -> exec c' load' ops' (initial p' w') = Ok st' ->
  uniform DT D (y_hist st) -> uniform DT D (y_hist st') ->
  forall t0 s0 pre t0' s0' pre', y_hist st = (pre ++ [(t0, s0)])%list -> y_hist st' = (pre' ++ [(t0', s0')])%list ->
  forall w0 p0 w0' p0' W00 P00, lastq (s_spd s0) = Ok w0 -> lastq (s_pos s0) = Ok p0 -> si w0 = Ok W00 -> si p0 = Ok P00 ->
                                lastq (s_spd s0') = Ok w0' -> lastq (s_pos s0') = Ok p0' -> si w0' = Ok W00 -> si p0' = Ok P00 ->
  forall front t s rest front' t' s' rest',
    y_hist st = (front ++ (t, s) :: rest)%list -> y_hist st' = (front' ++ (t', s') :: rest')%list -> length rest = length rest' ->
  exists wk pk wk' pk' Wk Pk,
    lastq (s_spd s) = Ok wk /\ lastq (s_pos s) = Ok pk /\ lastq (s_spd s') = Ok wk' /\ lastq (s_pos s') = Ok pk' /\
    si wk = Ok Wk /\ si wk' = Ok Wk /\ si pk = Ok Pk /\ si pk' = Ok Pk.
Proof.
  intros S HD Hpos He He' Hu Hu' t0 s0 pre t0' s0' pre' E E' w0 p0 w0' p0' W00 P00 Hw Hp sw sp Hw' Hp' sw' sp'
         front t s rest front' t' s' rest' Eh Eh' Hlen.
  destruct (exec_inv c load ops _ _ (initial_inv c load p w) He) as (Hh & _).
  destruct (exec_inv c' load' ops' _ _ (initial_inv c' load' p' w') He') as (Hh' & _).
  rewrite Eh in Hh, Hu, E. rewrite Eh' in Hh', Hu', E'.
  apply hist_ok_suffix in Hh. apply hist_ok_suffix in Hh'.
  destruct (suffix_last _ _ _ _ _ E) as (pre2 & E2). destruct (suffix_last _ _ _ _ _ E') as (pre2' & E2').
  eapply (run_unit_independent c c' load load' W0 TM I0 IM L JJ DT D S HD Hpos _ _ Hh Hh'); eauto.
  - intros a b Hin. apply (Hu a b). apply in_or_app. right. exact Hin.
  - intros a b Hin. apply (Hu' a b). apply in_or_app. right. exact Hin.
Qed.
