(** * MotorR: the motor model computes the documented characteristic (C08), over the reals. *)
From Coq Require Import ZArith QArith Reals Lra Lia Qreals String List Bool.
From GP Require Import ArithDef UnitsCore PyUnits RealArith Spec UnitsR UnitsDim QOps QOpsR Motor.
From GP.gen Require Import UnitsGen.
Import ListNotations.
Open Scope R_scope.

Section MotorR.
Variable m : @motor RA.
Variables i0 imax : rq.
Hypothesis Hi0 : m_i0 m = Some i0.
Hypothesis Himax : m_imax m = Some imax.
Variables W0 TM I0 IM : R.
Hypothesis sW0 : si (m_w0 m) = Ok W0.
Hypothesis sTM : si (m_Tmax m) = Ok TM.
Hypothesis sI0 : si i0 = Ok I0.
Hypothesis sIM : si imax = Ok IM.
Hypothesis kT : qk (m_Tmax m) = KTorque.
Hypothesis kI0 : qk i0 = KCurrent.
Hypothesis kIM : qk imax = KCurrent.

Definition pmin : R := I0 / IM.
(** the documented torque *)
Definition T_doc (w D : R) : R :=
  if Rle_dec (Rabs D) pmin then 0
  else if Rlt_dec pmin D then TM * ((D * IM - I0) / (IM - I0)) * (1 - w / (D * W0))
  else TM * ((D * IM + I0) / (IM - I0)) * (1 - w / (D * W0)).

Lemma si_value_unit (q : rq) k u s f : qk q = k -> qu q = u -> si q = Ok s -> @factor RA GEN k u = Ok f -> qv q * f = s.
Proof. intros <- <- Hs Hf. unfold si, bind in Hs. change G with GEN in Hs. rewrite Hf in Hs. injection Hs as <-. reflexivity. Qed.
Lemma si_factor (q : rq) s : si q = Ok s -> exists f, @factor RA GEN (qk q) (qu q) = Ok f /\ s = qv q * f.
Proof. unfold si, bind. change G with GEN. destruct (factor GEN (qk q) (qu q)) as [f|]; [|discriminate]. intros H; injection H as <-. eauto. Qed.

Theorem motor_torque_doc (spd : rq) w D T :
  si spd = Ok w -> motor_torque m spd D = Ok T -> qk T = KTorque /\ qu T = qu (m_Tmax m) /\ si T = Ok (T_doc w D).
Proof.
  intros sw H. unfold motor_torque in H. rewrite Hi0, Himax in H. unfold bind in H.
  destruct (q_ratio i0 imax) as [pm|] eqn:Epm; [|discriminate].
  destruct (q_ratio_si _ _ _ _ _ Epm sI0 sIM) as (HIM & ->). fold pmin in H.
  destruct (si_factor _ _ sTM) as (fT & HfT & HTM). rewrite kT in HfT.
  unfold T_doc. change (@leb RA) with Rleb in H. change (@absn RA) with Rabs in H. unfold Rleb in H.
  destruct (Rle_dec (Rabs D) pmin) as [Hd|Hd].
  - apply q_new_eq in H. subst T. cbn [qk qu mk]. split; [reflexivity|]. split; [reflexivity|].
    rewrite (si_mk _ _ _ _ HfT). f_equal. change (@zero RA) with 0. ring.
  - change (@ltb RA) with Rltb in H. unfold Rltb in H.
    destruct (Rlt_dec pmin D) as [Hp|Hp].
    + destruct (q_rmul D imax) as [a|] eqn:Ea; [|discriminate]. destruct (q_rmul_si _ _ _ _ Ea sIM) as (ka & ua & sa).
      destruct (q_sub a i0) as [nq|] eqn:En; [|discriminate].
      assert (Hds : sub_defect_site (qk a) (qk i0) = false) by (rewrite ka, kIM, kI0; reflexivity).
      destruct (q_sub_si _ _ _ _ _ En Hds sa sI0) as (_ & _ & sn).
      destruct (q_sub imax i0) as [dq|] eqn:Ed; [|discriminate].
      assert (Hds2 : sub_defect_site (qk imax) (qk i0) = false) by (rewrite kIM, kI0; reflexivity).
      destruct (q_sub_si _ _ _ _ _ Ed Hds2 sIM sI0) as (_ & _ & sd).
      destruct (q_ratio nq dq) as [k|] eqn:Ek; [|discriminate]. destruct (q_ratio_si _ _ _ _ _ Ek sn sd) as (Hden & ->).
      destruct (q_muln (m_Tmax m) _) as [mt|] eqn:Emt; [|discriminate]. destruct (q_muln_si _ _ _ _ Emt sTM) as (kmt & umt & smt).
      destruct (q_rmul D (m_w0 m)) as [nls|] eqn:Enl; [|discriminate]. destruct (q_rmul_si _ _ _ _ Enl sW0) as (_ & _ & snl).
      destruct (q_ratio spd nls) as [r|] eqn:Er; [|discriminate]. destruct (q_ratio_si _ _ _ _ _ Er sw snl) as (Hnl & ->).
      apply q_new_eq in H. subst T. cbn [qk qu mk]. split; [reflexivity|]. split; [reflexivity|].
      rewrite (si_mk _ _ _ _ HfT). f_equal.
      assert (Hv : qv mt * fT = TM * ((D * IM - I0) / (IM - I0))) by (eapply si_value_unit; eauto; congruence).
      change (@mul RA) with Rmult. change (@sub RA) with Rminus. change (@one RA) with 1.
      rewrite Rmult_assoc, Hv. ring.
    + destruct (q_rmul D imax) as [a|] eqn:Ea; [|discriminate]. destruct (q_rmul_si _ _ _ _ Ea sIM) as (ka & ua & sa).
      destruct (q_add a i0) as [nq|] eqn:En; [|discriminate].
      destruct (q_add_si _ _ _ _ _ En sa sI0) as (_ & _ & sn).
      destruct (q_sub imax i0) as [dq|] eqn:Ed; [|discriminate].
      assert (Hds2 : sub_defect_site (qk imax) (qk i0) = false) by (rewrite kIM, kI0; reflexivity).
      destruct (q_sub_si _ _ _ _ _ Ed Hds2 sIM sI0) as (_ & _ & sd).
      destruct (q_ratio nq dq) as [k|] eqn:Ek; [|discriminate]. destruct (q_ratio_si _ _ _ _ _ Ek sn sd) as (Hden & ->).
      destruct (q_muln (m_Tmax m) _) as [mt|] eqn:Emt; [|discriminate]. destruct (q_muln_si _ _ _ _ Emt sTM) as (kmt & umt & smt).
      destruct (q_rmul D (m_w0 m)) as [nls|] eqn:Enl; [|discriminate]. destruct (q_rmul_si _ _ _ _ Enl sW0) as (_ & _ & snl).
      destruct (q_ratio spd nls) as [r|] eqn:Er; [|discriminate]. destruct (q_ratio_si _ _ _ _ _ Er sw snl) as (Hnl & ->).
      apply q_new_eq in H. subst T. cbn [qk qu mk]. split; [reflexivity|]. split; [reflexivity|].
      rewrite (si_mk _ _ _ _ HfT). f_equal.
      assert (Hv : qv mt * fT = TM * ((D * IM + I0) / (IM - I0))) by (eapply si_value_unit; eauto; congruence).
      change (@mul RA) with Rmult. change (@sub RA) with Rminus. change (@one RA) with 1.
      rewrite Rmult_assoc, Hv. ring.
Qed.

(** the current the code computes, from the driving torque just computed *)
Definition I_code (Tq D : R) : R :=
  if Rle_dec (Rabs D) pmin then D * IM
  else if Rlt_dec pmin D then (IM - I0) * (Tq / TM) + I0 else (IM - I0) * (Tq / TM) - I0.

Hypothesis IMpos : 0 < IM.
Hypothesis I0nonneg : 0 <= I0.

Theorem motor_current_doc (dtq : rq) Tq D c :
  si dtq = Ok Tq -> motor_current m dtq D = Ok c ->
  exists q, c = Some q /\ qk q = KCurrent /\ qu q = qu imax /\ si q = Ok (I_code Tq D).
Proof.
  intros sT H. unfold motor_current in H. rewrite Hi0, Himax in H. unfold bind in H.
  destruct (q_ratio i0 imax) as [pm|] eqn:Epm; [|discriminate].
  destruct (q_ratio_si _ _ _ _ _ Epm sI0 sIM) as (HIM & ->). fold pmin in H.
  destruct (si_factor _ _ sIM) as (fI & HfI & HIMv). rewrite kIM in HfI.
  unfold I_code. change (@leb RA) with Rleb in H. change (@absn RA) with Rabs in H. unfold Rleb in H.
  destruct (Rle_dec (Rabs D) pmin) as [Hd|Hd].
  - change (@eqb RA) with Reqb in H. change (@zero RA) with 0 in H. unfold Reqb in H. destruct (Req_EM_T pmin 0) as [Hz|Hz].
    + destruct (@q_new RA KCurrent 0 (qu imax)) as [q|] eqn:Eq; [|discriminate]. injection H as <-. apply q_new_eq in Eq. subst q.
      eexists. split; [reflexivity|]. cbn [qk qu mk]. split; [reflexivity|]. split; [reflexivity|].
      rewrite (si_mk _ _ _ _ HfI). f_equal. rewrite Hz in Hd. assert (D = 0). { unfold Rabs in Hd. destruct (Rcase_abs D); lra. } subst D. ring.
    + unfold pydiv in H. change (@eqb RA) with Reqb in H. change (@zero RA) with 0 in H. unfold Reqb in H.
      destruct (Req_EM_T pmin 0); [contradiction|].
      destruct (q_to i0 (qu imax)) as [i0c|] eqn:Eto; [|discriminate]. destruct (q_to_si _ _ _ _ Eto sI0) as (kc & uc & sc).
      destruct (q_rmul _ i0c) as [q|] eqn:Eq; [|discriminate]. injection H as <-.
      destruct (q_rmul_si _ _ _ _ Eq sc) as (kq & uq & sq). eexists. split; [reflexivity|]. split; [congruence|]. split; [congruence|].
      rewrite sq. f_equal. change (@div RA) with Rdiv. unfold pmin in *. field. split; [lra|]. intro E. apply Hz. rewrite E. field. lra.
  - change (@ltb RA) with Rltb in H. unfold Rltb in H.
    destruct (Rlt_dec pmin D) as [Hp|Hp].
    + destruct (q_sub imax i0) as [span|] eqn:Es; [|discriminate].
      assert (Hds2 : sub_defect_site (qk imax) (qk i0) = false) by (rewrite kIM, kI0; reflexivity).
      destruct (q_sub_si _ _ _ _ _ Es Hds2 sIM sI0) as (ks & us & ss).
      destruct (q_ratio dtq (m_Tmax m)) as [k|] eqn:Ek; [|discriminate]. destruct (q_ratio_si _ _ _ _ _ Ek sT sTM) as (HTM & ->).
      destruct (q_muln span _) as [a|] eqn:Ea; [|discriminate]. destruct (q_muln_si _ _ _ _ Ea ss) as (ka & ua & sa).
      destruct (q_add a i0) as [b|] eqn:Eb; [|discriminate]. destruct (q_add_si _ _ _ _ _ Eb sa sI0) as (kb & ub & sb).
      destruct (q_new KCurrent (qv b) (qu imax)) as [q|] eqn:Eq; [|discriminate]. injection H as <-. apply q_new_eq in Eq. subst q.
      eexists. split; [reflexivity|]. cbn [qk qu mk]. split; [reflexivity|]. split; [reflexivity|].
      rewrite (si_mk _ _ _ _ HfI). f_equal. eapply si_value_unit; [| |exact sb|exact HfI].
      * rewrite kIM, kI0 in ks. cbn in ks. injection ks as ks. rewrite ka, <- ks, kI0 in kb. cbn in kb. injection kb as <-. reflexivity.
      * congruence.
    + destruct (q_neg i0) as [nl|] eqn:En; [|discriminate]. destruct (q_neg_si _ _ _ En sI0) as (kn & un & sn).
      destruct (q_sub imax i0) as [span|] eqn:Es; [|discriminate].
      assert (Hds2 : sub_defect_site (qk imax) (qk i0) = false) by (rewrite kIM, kI0; reflexivity).
      destruct (q_sub_si _ _ _ _ _ Es Hds2 sIM sI0) as (ks & us & ss).
      destruct (q_ratio dtq (m_Tmax m)) as [k|] eqn:Ek; [|discriminate]. destruct (q_ratio_si _ _ _ _ _ Ek sT sTM) as (HTM & ->).
      destruct (q_muln span _) as [a|] eqn:Ea; [|discriminate]. destruct (q_muln_si _ _ _ _ Ea ss) as (ka & ua & sa).
      destruct (q_add a nl) as [b|] eqn:Eb; [|discriminate]. destruct (q_add_si _ _ _ _ _ Eb sa sn) as (kb & ub & sb).
      destruct (q_new KCurrent (qv b) (qu imax)) as [q|] eqn:Eq; [|discriminate]. injection H as <-. apply q_new_eq in Eq. subst q.
      eexists. split; [reflexivity|]. cbn [qk qu mk]. split; [reflexivity|]. split; [reflexivity|].
      rewrite (si_mk _ _ _ _ HfI). f_equal. replace ((IM - I0) * (Tq / TM) - I0) with ((IM - I0) * (Tq / TM) + - I0) by ring.
      eapply si_value_unit; [| |exact sb|exact HfI].
      * rewrite kIM, kI0 in ks. cbn in ks. injection ks as ks. rewrite ka, <- ks, kn, kI0 in kb. cbn in kb. injection kb as <-. reflexivity.
      * congruence.
Qed.
End MotorR.

(** a motor without current data: Tmax * (1 - w / w0) *)
Theorem motor_torque_nocurrent (m : @motor RA) (spd : rq) w W0 TM D T :
  (m_i0 m = None \/ m_imax m = None) -> si (m_w0 m) = Ok W0 -> si (m_Tmax m) = Ok TM -> qk (m_Tmax m) = KTorque -> si spd = Ok w ->
  motor_torque m spd D = Ok T -> si T = Ok (TM * (1 - w / W0)).
Proof.
  intros Hn sW0 sTM kT sw H. unfold motor_torque, bind in H.
  assert (H' : (r <- q_ratio spd (m_w0 m) ;; q_new KTorque (mul (sub one r) (qv (m_Tmax m))) (qu (m_Tmax m))) = Ok T).
  { destruct Hn as [Hn|Hn]; rewrite Hn in H; [exact H|]. destruct (m_i0 m); exact H. }
  clear H. unfold bind in H'. destruct (q_ratio spd (m_w0 m)) as [r|] eqn:Er; [|discriminate].
  destruct (q_ratio_si _ _ _ _ _ Er sw sW0) as (_ & ->). apply q_new_eq in H'. subst T.
  unfold si in sTM |- *. unfold bind in *. cbn [qk qu qv mk]. rewrite kT in sTM. change G with GEN in *.
  destruct (factor GEN KTorque (qu (m_Tmax m))) as [f|]; [|discriminate]. injection sTM as <-. f_equal.
  change (@mul RA) with Rmult. change (@sub RA) with Rminus. change (@one RA) with 1. ring.
Qed.

(** ** consequences of the law (pure real algebra on the documented functions) *)
Section Law.
Variables W0 TM I0 IM : R.
Hypothesis HTM : 0 < TM.
Hypothesis HW0 : 0 < W0.
Hypothesis HI : 0 <= I0 < IM.
Notation Td := (T_doc W0 TM I0 IM).
Notation Ic := (I_code TM I0 IM).
Notation pm := (pmin I0 IM).

Lemma pm_lt_1 : pm < 1.
Proof. unfold pmin. apply Rmult_lt_reg_r with IM; [lra|]. unfold Rdiv. rewrite Rmult_assoc, Rinv_l by lra. lra. Qed.
Lemma pm_nonneg : 0 <= pm.
Proof. unfold pmin. apply Rmult_le_reg_r with IM; [lra|]. unfold Rdiv. rewrite Rmult_assoc, Rinv_l by lra. lra. Qed.

(** at D = 1: standstill gives Tmax and imax, the no-load speed gives zero torque and i0 *)
Theorem standstill : Td 0 1 = TM /\ Ic (Td 0 1) 1 = IM.
Proof.
  assert (H1 := pm_lt_1). assert (H0 := pm_nonneg).
  assert (E : Td 0 1 = TM).
  { unfold T_doc. rewrite Rabs_R1. destruct (Rle_dec 1 pm); [lra|]. destruct (Rlt_dec pm 1); [|lra]. field. split; lra. }
  split; [exact E|]. rewrite E. unfold I_code. rewrite Rabs_R1. destruct (Rle_dec 1 pm); [lra|]. destruct (Rlt_dec pm 1); [|lra]. field. lra.
Qed.
Theorem no_load : Td W0 1 = 0 /\ Ic (Td W0 1) 1 = I0.
Proof.
  assert (H1 := pm_lt_1).
  assert (E : Td W0 1 = 0).
  { unfold T_doc. rewrite Rabs_R1. destruct (Rle_dec 1 pm); [lra|]. destruct (Rlt_dec pm 1); [|lra]. field. split; lra. }
  split; [exact E|]. rewrite E. unfold I_code. rewrite Rabs_R1. destruct (Rle_dec 1 pm); [lra|]. destruct (Rlt_dec pm 1); [|lra]. field. lra.
Qed.
(** reversing both D and w reverses torque and current exactly *)
Theorem odd_torque w D : Td (- w) (- D) = - Td w D.
Proof.
  assert (H0 := pm_nonneg). unfold T_doc. rewrite Rabs_Ropp.
  destruct (Rle_dec (Rabs D) pm) as [Ha|Ha]; [lra|].
  assert (Hc : pm < D \/ D < - pm). { unfold Rabs in Ha. destruct (Rcase_abs D); lra. }
  destruct (Rlt_dec pm (- D)), (Rlt_dec pm D); try lra.
  - assert (D <> 0) by lra. field. repeat split; lra.
  - assert (D <> 0) by lra. field. repeat split; lra.
Qed.
Theorem odd_current Tq D : Ic (- Tq) (- D) = - Ic Tq D.
Proof.
  assert (H0 := pm_nonneg). unfold I_code. rewrite Rabs_Ropp.
  destruct (Rle_dec (Rabs D) pm) as [Ha|Ha]; [lra|].
  assert (Hc : pm < D \/ D < - pm). { unfold Rabs in Ha. destruct (Rcase_abs D); lra. }
  destruct (Rlt_dec pm (- D)), (Rlt_dec pm D); try lra; field; lra.
Qed.
(** the current computed by the code is the documented (D*imax - i0) * T / Tmax(D) + i0 (mirrored for negative D) *)
Theorem current_is_documented Tq D : pm < D ->
  Ic Tq D = (D * IM - I0) * (Tq / (TM * ((D * IM - I0) / (IM - I0)))) + I0.
Proof.
  intros Hp. assert (H0 := pm_nonneg). unfold I_code.
  assert (Hd : D * IM - I0 > 0). { unfold pmin in Hp. apply Rmult_lt_compat_r with (r := IM) in Hp; [|lra]. unfold Rdiv in Hp. rewrite Rmult_assoc, Rinv_l, Rmult_1_r in Hp by lra. lra. }
  destruct (Rle_dec (Rabs D) pm) as [Ha|Ha]; [rewrite Rabs_pos_eq in Ha by lra; lra|].
  destruct (Rlt_dec pm D); [|lra]. field. repeat split; lra.
Qed.
Theorem current_is_documented_neg Tq D : D < - pm ->
  Ic Tq D = (D * IM + I0) * (Tq / (TM * ((D * IM + I0) / (IM - I0)))) - I0.
Proof.
  intros Hp. assert (H0 := pm_nonneg). unfold I_code.
  assert (Hd : D * IM + I0 < 0). { unfold pmin in Hp. apply Rmult_lt_compat_r with (r := IM) in Hp; [|lra]. unfold Rdiv in Hp. rewrite Ropp_mult_distr_l_reverse, Rmult_assoc, Rinv_l, Rmult_1_r in Hp by lra. lra. }
  destruct (Rle_dec (Rabs D) pm) as [Ha|Ha]; [rewrite Rabs_left in Ha by lra; lra|].
  destruct (Rlt_dec pm D); [lra|]. field. repeat split; lra.
Qed.
(** both laws are continuous across the dead-zone boundary (for i0 > 0): the outside torque is bounded by a multiple of
    (D - pmin), so it tends to the inside value 0; the outside current at zero torque is i0 = pmin * imax, the inside value *)
Theorem boundary_torque w D : 0 < I0 -> pm < D -> Rabs (Td w D) <= TM * IM / (IM - I0) * (1 + Rabs w / (pm * W0)) * (D - pm).
Proof.
  intros Hpos Hp. assert (Hpm : 0 < pm). { unfold pmin. apply Rdiv_lt_0_compat; lra. }
  unfold T_doc. destruct (Rle_dec (Rabs D) pm) as [Ha|Ha]; [rewrite Rabs_pos_eq in Ha by lra; lra|]. destruct (Rlt_dec pm D); [|lra].
  assert (E : (D * IM - I0) / (IM - I0) = IM / (IM - I0) * (D - pm)). { unfold pmin. field. split; lra. }
  rewrite E. rewrite !Rabs_mult. rewrite (Rabs_pos_eq TM) by lra.
  assert (0 < IM / (IM - I0)) by (apply Rdiv_lt_0_compat; lra).
  rewrite (Rabs_pos_eq (IM / (IM - I0))) by lra. rewrite (Rabs_pos_eq (D - pm)) by lra.
  assert (Hb : Rabs (1 - w / (D * W0)) <= 1 + Rabs w / (pm * W0)).
  { eapply Rle_trans; [apply Rabs_triang|]. rewrite Rabs_R1, Rabs_Ropp. apply Rplus_le_compat_l.
    unfold Rdiv. rewrite Rabs_mult. apply Rmult_le_compat_l; [apply Rabs_pos|].
    rewrite Rabs_pos_eq; [|left; apply Rinv_0_lt_compat; nra]. apply Rinv_le_contravar; nra. }
  assert (0 <= Rabs (1 - w / (D * W0))) by apply Rabs_pos.
  assert (0 < TM * (IM / (IM - I0) * (D - pm))) by (apply Rmult_lt_0_compat; [lra|apply Rmult_lt_0_compat; lra]).
  replace (TM * IM / (IM - I0) * (1 + Rabs w / (pm * W0)) * (D - pm)) with (TM * (IM / (IM - I0) * (D - pm)) * (1 + Rabs w / (pm * W0))) by (field; lra).
  replace (TM * (IM / (IM - I0) * (D - pm)) * Rabs (1 - w / (D * W0))) with (TM * (IM / (IM - I0) * (D - pm)) * Rabs (1 - w / (D * W0))) by reflexivity.
  rewrite <- Rmult_assoc. apply Rmult_le_compat_l; [|exact Hb]. lra.
Qed.
Theorem boundary_current : 0 < I0 -> Ic 0 pm = I0 /\ forall D, pm < D -> Ic 0 D = I0.
Proof.
  intros Hpos. assert (Hpm : 0 < pm). { unfold pmin. apply Rdiv_lt_0_compat; lra. } split.
  - unfold I_code. rewrite Rabs_pos_eq by lra. destruct (Rle_dec pm pm); [|lra]. unfold pmin. field. lra.
  - intros D Hp. unfold I_code. destruct (Rle_dec (Rabs D) pm) as [Ha|Ha]; [rewrite Rabs_pos_eq in Ha by lra; lra|].
    destruct (Rlt_dec pm D); [|lra]. field. lra.
Qed.
End Law.
