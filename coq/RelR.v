(** * RelR: the relation model over the reals: the angle functions are cos / tan of the angle in radians, accepted relations have
    ratio > 0 and efficiency in [0, 1], the self-locking flag is f > cos(alpha) * tan(beta). *)
From Coq Require Import ZArith QArith Reals Lra Lia Qreals String List Bool.
From GP Require Import ArithDef UnitsCore PyUnits RealArith Spec UnitsR UnitsDim QOps QOpsR Relations RelProofs.
From GP.gen Require Import UnitsGen.
Open Scope R_scope.

Lemma rad_factor k : base_kind k = KAngularPosition -> @factor RA GEN k "rad" = Ok 1.
Proof. destruct k; cbn; intros H; try discriminate; f_equal; unfold Q2R; cbn; lra. Qed.

(** the argument handed to cos / tan / sin is the angle's SI magnitude (radians) *)
Lemma trig_arg_si (q : rq) x s : base_kind (qk q) = KAngularPosition -> @trig_arg RA q = Ok x -> si q = Ok s -> x = s.
Proof.
  intros Hk H Hs. unfold trig_arg, bind in H. destruct (q_to q "rad") as [r|] eqn:E; [|discriminate]. injection H as <-.
  destruct (q_to_si _ _ _ _ E Hs) as (Hkr & Hur & Hsr).
  unfold si, bind in Hsr. rewrite Hkr, Hur in Hsr. change G with GEN in Hsr. rewrite (rad_factor _ Hk) in Hsr. injection Hsr as Hsr.
  unfold freq, two. change (@mul RA) with Rmult. change (@div RA) with Rdiv. change (@pi RA) with PI. change (@one RA) with 1. change (@of_Z RA 2) with (IZR 2).
  change (num RA) with R in *. assert (PI <> 0) by apply PI_neq0. rewrite <- Hsr. field. assumption.
Qed.
Theorem qcos_si (q : rq) c s : base_kind (qk q) = KAngularPosition -> @qcos RA q = Ok c -> si q = Ok s -> c = cos s.
Proof. intros Hk H Hs. unfold qcos, bind in H. destruct (trig_arg q) as [x|] eqn:E; [|discriminate]. injection H as <-. rewrite (trig_arg_si _ _ _ Hk E Hs). reflexivity. Qed.
Theorem qtan_si (q : rq) t s : base_kind (qk q) = KAngularPosition -> @qtan RA q = Ok t -> si q = Ok s -> t = tan s.
Proof. intros Hk H Hs. unfold qtan, bind in H. destruct (trig_arg q) as [x|] eqn:E; [|discriminate]. injection H as <-. rewrite (trig_arg_si _ _ _ Hk E Hs). reflexivity. Qed.

(** the checks of an accepted relation, read over the reals *)
Lemma ltb_false_le (x y : R) : @ltb RA x y = false -> y <= x.
Proof. change (@ltb RA) with Rltb. apply Rltb_false. Qed.
Lemma leb_false_lt (x y : R) : @leb RA x y = false -> y < x.
Proof. change (@leb RA) with Rleb. apply Rleb_false. Qed.
Theorem accepted_range (eff ratio : R) : @ltb RA one eff = false -> @ltb RA eff zero = false -> @leb RA ratio zero = false ->
  0 <= eff <= 1 /\ 0 < ratio.
Proof. intros H1 H2 H3. apply ltb_false_le in H1, H2. apply leb_false_lt in H3. change (@one RA) with 1 in *. change (@zero RA) with 0 in *. lra. Qed.
(** the worm efficiency is in range exactly when friction is below the two documented bounds (worm driving) *)
Theorem worm_efficiency_in_range (c t f : R) : 0 < c -> 0 < t -> 0 <= f ->
  (0 <= (c - f * t) / (c + f / t) <= 1) <-> f * t <= c.
Proof.
  intros Hc Ht Hf. assert (Hd : 0 < c + f / t). { assert (0 <= f / t) by (apply Rmult_le_pos; [lra|left; apply Rinv_0_lt_compat; lra]). lra. }
  split.
  - intros [H0 _]. apply Rmult_le_compat_r with (r := c + f / t) in H0; [|lra]. unfold Rdiv at 2 in H0. rewrite Rmult_assoc, Rinv_l, Rmult_1_r in H0 by lra. lra.
  - intros H. split.
    + apply Rmult_le_pos; [lra|left; apply Rinv_0_lt_compat; lra].
    + apply Rmult_le_reg_r with (r := c + f / t); [lra|]. unfold Rdiv at 1. rewrite Rmult_assoc, Rinv_l, Rmult_1_r by lra.
      assert (0 <= f / t) by (apply Rmult_le_pos; [lra|left; apply Rinv_0_lt_compat; lra]). nra.
Qed.
