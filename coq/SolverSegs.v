(** * SolverSegs: a schedule in which the user re-declares things BETWEEN simulations.
    [exec] (Solver.v) runs a list of operations under one chain and one load function.  A user script may, between two simulations,
    assign another external torque to the last element or declare a mating again with another efficiency (an efficiency sweep on
    the same objects): the schedule is then a list of SEGMENTS, each with the chain and the load function in force.  The
    powertrain's self-locking flag does not follow such re-declarations (C20: it is frozen at assembly), so every segment's chain
    carries the same flag.  When each later segment starts by [Powertrain.reset()] -- the only situation in which the recorded
    history can be one simulation of ONE system -- the invariant of SolverProofs.v holds for the LAST chain and load, hence every
    recorded instant of the final history obeys the kinematic, torque and motion relations of the system in force when it was
    computed.  (Without the reset the history mixes instants of different systems and no per-history statement can hold.) *)
From Coq Require Import ZArith String List Bool.
From GP Require Import ArithDef UnitsCore PyUnits QOps Motor Solver SolverProofs.
Import ListNotations.

Section Segs.
Context {A : Arith}.
Definition seg : Type := (@chain A * (@qty A -> @qty A -> @qty A -> res (@qty A)) * list (@sop A))%type.
Fixpoint exec_segs (segs : list seg) (st : @sys A) : res (@sys A) :=
  match segs with
  | [] => Ok st
  | (c, l, ops) :: segs' => st1 <- exec c l ops st ;; exec_segs segs' st1
  end.
Definition starts_with_reset (ops : list (@sop A)) : Prop := match ops with SReset :: _ => True | _ => False end.
Inductive segs_ok (sl : bool) : list seg -> Prop :=
| so_nil : segs_ok sl []
| so_cons c l ops rest : c_selflock c = sl -> starts_with_reset ops -> segs_ok sl rest -> segs_ok sl ((c, l, ops) :: rest).
Definition last_system (c0 : @chain A) l0 (rest : list seg) : @chain A * (@qty A -> @qty A -> @qty A -> res (@qty A)) :=
  fold_left (fun _ s => (fst (fst s), snd (fst s))) rest (c0, l0).

(** a reset hands over a state that satisfies the invariant of ANY system with the same frozen flag *)
Lemma reset_inv_any (c : @chain A) l (c' : @chain A) l' st st1 : Inv c l st -> c_selflock c' = c_selflock c -> reset st = Ok st1 -> Inv c' l' st1.
Proof.
  intros (_ & _ & Hsl) Hfl H. unfold reset in H. destruct (rev (y_hist st)) as [|[t s] r]; [discriminate|]. unfold bind in H.
  destruct (live_of s); [|discriminate]. injection H as <-. unfold Inv; cbn.
  split; [constructor|]. split; [exact I|]. rewrite Hfl. exact Hsl.
Qed.
Lemma exec_reset_inv (c : @chain A) l (c' : @chain A) l' ops st st' : Inv c l st -> c_selflock c' = c_selflock c -> starts_with_reset ops ->
  exec c' l' ops st = Ok st' -> Inv c' l' st'.
Proof.
  intros HI Hfl Hr H. destruct ops as [|o ops]; [contradiction|]. destruct o; try contradiction.
  cbn [exec step_op] in H. unfold bind in H. destruct (reset st) as [st1|] eqn:E; [|discriminate].
  eapply exec_inv; [eapply reset_inv_any; eauto|exact H].
Qed.
Theorem exec_segs_inv rest : forall c0 l0 ops0 st st', Inv c0 l0 st -> segs_ok (c_selflock c0) rest ->
  exec_segs ((c0, l0, ops0) :: rest) st = Ok st' ->
  Inv (fst (last_system c0 l0 rest)) (snd (last_system c0 l0 rest)) st'.
Proof.
  induction rest as [|[[c1 l1] ops1] rest IH]; intros c0 l0 ops0 st st' HI Hok H; cbn [exec_segs] in H; unfold bind in H.
  - destruct (exec c0 l0 ops0 st) as [st1|] eqn:E; [|discriminate]. injection H as <-. cbn. eapply exec_inv; eauto.
  - destruct (exec c0 l0 ops0 st) as [st1|] eqn:E; [|discriminate].
    assert (HI1 : Inv c0 l0 st1) by (eapply exec_inv; eauto).
    inversion Hok as [|c l ops r Hfl Hr Hrest]; subst.
    cbn [exec_segs] in H. unfold bind in H. destruct (exec c1 l1 ops1 st1) as [st2|] eqn:E1; [|discriminate].
    assert (HI2 : Inv c1 l1 st2) by (eapply exec_reset_inv; eauto).
    change (last_system c0 l0 ((c1, l1, ops1) :: rest)) with (last_system c1 l1 rest).
    apply (IH c1 l1 [] st2 st'); [exact HI2|rewrite Hfl; exact Hrest|].
    cbn [exec_segs exec]. unfold bind. exact H.
Qed.
(** every recorded instant of the final history, against the system in force at the end *)
Theorem segs_final_history (c0 : @chain A) l0 ops0 rest p w st t s :
  segs_ok (c_selflock c0) rest -> exec_segs ((c0, l0, ops0) :: rest) (initial p w) = Ok st -> In (t, s) (y_hist st) ->
  let cl := fst (last_system c0 l0 rest) in let ll := snd (last_system c0 l0 rest) in
  kin_ok cl s /\ torque_ok cl ll t s /\ motion_ok cl s /\ lock_ok cl s.
Proof.
  intros Hok H Hin cl ll.
  destruct (exec_segs_inv rest c0 l0 ops0 _ _ (initial_inv c0 l0 p w) Hok H) as (Hh & _ & _).
  destruct (hist_ok_in _ _ _ _ _ Hh Hin) as (v & Hv).
  split; [eapply snap_from_kin; exact Hv|]. split; [eapply snap_from_torque; exact Hv|].
  split; [eapply snap_from_motion; exact Hv|eapply snap_from_lock; exact Hv].
Qed.
End Segs.
