(** * PyUnits: Python's meaning for the generated description of gearpy/units.

    Generic in the arithmetic [A] and in the generated description [G] (so that proofs can be about
    the regenerated [GEN] while tests may run the interpreter on hand-made descriptions). *)
From Coq Require Import ZArith QArith String List Bool PrimFloat.
From GP Require Import ArithDef UnitsCore.
Import ListNotations.
Open Scope nat_scope. Open Scope string_scope.

Section Interp.
Context {A : Arith} (G : unitsgen).

Record qty := { qk : kind; qv : num A; qu : string }.
Inductive pyval := PQ (q : qty) | PN (x : num A) | PB (b : bool) | PNone.

(** ** class hierarchy *)
Fixpoint kind_of_name (l : list kind) (s : string) : option kind :=
  match l with [] => None | k :: l' => if String.eqb (kind_name k) s then Some k else kind_of_name l' s end.
Definition parent (k : kind) : option kind :=
  match find (fun p => String.eqb (fst p) (kind_name k)) (g_classes G) with
  | Some (_, Some pn) => kind_of_name all_kinds pn
  | _ => None end.
(** [is_subkind a b]: class a is b or a (direct) subclass of b.  The hierarchy has depth 2 (checked by [hierarchy_ok]). *)
Definition is_subkind (a b : kind) : bool :=
  kind_eqb a b || match parent a with Some p => kind_eqb p b | None => false end.
Definition proper_subkind (a b : kind) : bool := negb (kind_eqb a b) && is_subkind a b.
Fixpoint strlist_eqb (a b : list string) : bool :=
  match a, b with [], [] => true | x :: a', y :: b' => String.eqb x y && strlist_eqb a' b' | _, _ => false end.
Definition hierarchy_ok : bool :=
  forallb (fun k => match parent k with Some p => match parent p with None => true | Some _ => false end | None => true end) all_kinds
  && strlist_eqb (map fst (g_classes G)) (map kind_name all_kinds).

(** ** unit tables *)
Fixpoint feval (e : fexpr) : num A :=
  match e with
  | FPi => pi
  | FNum q f => lit q f
  | FMul a b => mul (feval a) (feval b)
  | FDiv a b => div (feval a) (feval b)
  end.
Definition units_of (k : kind) : list (string * fexpr) :=
  match g_units_own G k with
  | Some l => l
  | None => match parent k with Some p => match g_units_own G p with Some l => l | None => [] end | None => [] end
  end.
Fixpoint lookup (u : string) (l : list (string * fexpr)) : res (num A) :=
  match l with
  | [] => Err KeyError
  | (u', e) :: l' => if String.eqb u u' then Ok (feval e) else lookup u l'
  end.
Definition factor (k : kind) (u : string) : res (num A) := lookup u (units_of k).

(** ** constructor: K(value, unit).  Parent's __init__ first (unit KeyError, parent's constraint), then own constraint. *)
Definition check_constraint (c : constraint) (v : num A) : res unit :=
  match c with
  | CNone => Ok tt
  | CPositive => if leb v zero then Err ValueError else Ok tt
  | CNonNegative => if ltb v zero then Err ValueError else Ok tt
  end.
Definition ctor (k : kind) (v : num A) (u : string) : res qty :=
  _ <- factor k u ;;
  _ <- match parent k with Some p => check_constraint (g_constraint G p) v | None => Ok tt end ;;
  _ <- check_constraint (g_constraint G k) v ;;
  Ok {| qk := k; qv := v; qu := u |}.

(** ** to() *)
Fixpoint teval (e : texpr) (v fs ft : num A) : num A :=
  match e with
  | TValue => v | TFactorSelf => fs | TFactorTarget => ft
  | TMul a b => mul (teval a v fs ft) (teval b v fs ft)
  | TDiv a b => div (teval a v fs ft) (teval b v fs ft)
  end.
Definition to_expr_of (k : kind) : option texpr :=
  match g_to_expr G k with
  | Some e => Some e
  | None => match parent k with Some p => g_to_expr G p | None => None end
  end.
(** the value computed by to() before the result object is built *)
Definition to_value (q : qty) (u : string) : res (num A) :=
  ft <- factor (qk q) u ;;
  if String.eqb u (qu q) then Ok (qv q)
  else fs <- factor (qk q) (qu q) ;;
       match to_expr_of (qk q) with
       | Some e => Ok (teval e (qv q) fs ft)
       | None => Err AttributeError
       end.
(** q.to(u): a new object of q's class (a sub-kind builds its parent object first, then itself: same checks) *)
Definition to_qty (q : qty) (u : string) : res qty := v <- to_value q u ;; ctor (qk q) v u.
(** q.to(u, inplace=True): no constructor is run *)
Definition to_inplace (q : qty) (u : string) : res qty := v <- to_value q u ;; Ok {| qk := qk q; qv := v; qu := u |}.

(** ** expressions *)
Definition tol : num A := lit (fst (g_tol G)) (snd (g_tol G)).
Fixpoint veval (e : vexpr) (self : qty) (other : pyval) : res (num A) :=
  match e with
  | VSelf => Ok (qv self)
  | VOtherNum => match other with PN x => Ok x | _ => Err TypeError end
  | VOtherValue => match other with PQ o => Ok (qv o) | _ => Err AttributeError end
  | VSelfTo u => q <- to_qty self u ;; Ok (qv q)
  | VOtherTo u => match other with PQ o => q <- to_qty o u ;; Ok (qv q) | _ => Err AttributeError end
  | VOtherToSelfUnit => match other with PQ o => q <- to_qty o (qu self) ;; Ok (qv q) | _ => Err AttributeError end
  | VTol => Ok tol
  | VLitZ z => Ok (of_Z z)
  | VMul a b => x <- veval a self other ;; y <- veval b self other ;; Ok (mul x y)
  | VDiv a b => x <- veval a self other ;; y <- veval b self other ;; pydiv x y
  | VAdd a b => x <- veval a self other ;; y <- veval b self other ;; Ok (add x y)
  | VSub a b => x <- veval a self other ;; y <- veval b self other ;; Ok (sub x y)
  | VNeg a => x <- veval a self other ;; Ok (neg x)
  | VAbs a => x <- veval a self other ;; Ok (absn x)
  end.
Definition ueval (e : uexpr) (self : qty) : string := match e with USelf => qu self | UFix u => u end.
Definition cmp_num (op : cmpop) (x y : num A) : bool :=
  match op with OpLt => ltb x y | OpLe => leb x y | OpGt => gtb x y | OpGe => geb x y | OpEq => eqb x y | OpNe => neb x y end.
Fixpoint ceval (c : cexpr) (self : qty) (other : pyval) : res bool :=
  match c with
  | CCmp op a b => x <- veval a self other ;; y <- veval b self other ;; Ok (cmp_num op x y)
  | CIfSameUnit a b =>
      match other with
      | PQ o => if String.eqb (qu self) (qu o) then ceval a self other else ceval b self other
      | _ => Err AttributeError
      end
  end.

Definition isinst (other : pyval) (c : oclass) : bool :=
  match c, other with
  | ONum, PN _ => true
  | OQ k, PQ o => is_subkind (qk o) k
  | OAnyUnit, PQ _ => true
  | _, _ => false
  end.
Definition isinst_any (other : pyval) (l : list oclass) : bool := existsb (isinst other) l.

Definition accepts (a : accept) (self : qty) (other : pyval) : bool :=
  match a with
  | AAny => true
  | AClasses l => isinst_any other l
  | AFamily => match other with PQ o => is_subkind (qk o) (qk self) || is_subkind (qk self) (qk o) | _ => false end
  end.
(** [other <= 0] / [other < 0] with a quantity on the left raises TypeError (UnitBase comparison with an int). *)
Definition guard_ok (g : guard) (other : pyval) : res unit :=
  match g with
  | GOtherLe0 => match other with PN x => if leb x zero then Err ValueError else Ok tt | _ => Err TypeError end
  | GOtherLt0 => match other with PN x => if ltb x zero then Err ValueError else Ok tt | _ => Err TypeError end
  | GZeroDiv => match other with
                | PQ o => if eqb (qv o) zero then Err ZeroDivisionError else Ok tt
                | PN x => if eqb x zero then Err ZeroDivisionError else Ok tt
                | _ => Ok tt end
  end.
Fixpoint guards_ok (gs : list guard) (other : pyval) : res unit :=
  match gs with [] => Ok tt | g :: gs' => _ <- guard_ok g other ;; guards_ok gs' other end.

Definition reval (r : result) (self : qty) (other : pyval) : res pyval :=
  match r with
  | RQty k v u => x <- veval v self other ;; q <- ctor k x (ueval u self) ;; Ok (PQ q)
  | RSelfClass v u => x <- veval v self other ;; q <- ctor (qk self) x (ueval u self) ;; Ok (PQ q)
  | RNum v => x <- veval v self other ;; Ok (PN x)
  | RBool c => b <- ceval c self other ;; Ok (PB b)
  | RTrySelfClass v u vchk =>
      x <- veval v self other ;;
      match ctor (qk self) x (ueval u self) with
      | Ok q => Ok (PQ q)
      | Err ValueError => y <- veval vchk self other ;; if leb y zero then Err ValueError else Ok PNone
      | Err e => Err e
      end
  end.
Fixpoint run_branches (bs : list (option (list oclass) * result)) (self : qty) (other : pyval) : res pyval :=
  match bs with
  | [] => Ok PNone
  | (None, r) :: _ => reval r self other
  | (Some cs, r) :: bs' => if isinst_any other cs then reval r self other else run_branches bs' self other
  end.

(** method resolution: own class, then parent, then UnitBase.  [level]: 0 = the dynamic class, 1 = its parent, 2 = UnitBase. *)
Definition method_at (dyn : kind) (level : nat) (m : mname) : option method :=
  match level with
  | 0 => g_own_method G dyn m
  | 1 => match parent dyn with Some p => g_own_method G p m | None => None end
  | _ => g_base_method G m
  end.
(** first level >= [from] that defines m *)
Fixpoint resolve (dyn : kind) (from fuel : nat) (m : mname) : option (nat * method) :=
  match fuel with
  | 0 => None
  | S f => if Nat.leb 3 from then None else
           match method_at dyn from m with
           | Some md => Some (from, md)
           | None => resolve dyn (S from) f m
           end
  end.
Fixpoint call_from (fuel : nat) (from : nat) (m : mname) (self : qty) (other : pyval) : res pyval :=
  match fuel with
  | 0 => Err OutOfFuel
  | S f =>
      match resolve (qk self) from 3 m with
      | None => Err AttributeError
      | Some (lvl, md) =>
          _ <- (if m_super md then (_ <- call_from f (S lvl) m self other ;; Ok tt) else Ok tt) ;;
          if negb (accepts (m_accept md) self other) then Err TypeError else
          _ <- guards_ok (m_guards md) other ;;
          run_branches (m_branches md) self other
      end
  end.
Definition call (m : mname) (self : qty) (other : pyval) : res pyval := call_from 4 0 m self other.

(** ** Python's operator dispatch *)
Definition reflect_cmp (m : mname) : mname :=
  match m with MLt => MGt | MGt => MLt | MLe => MGe | MGe => MLe | MEq => MEq | MNe => MNe | x => x end.
(** a OP b for a comparison between two quantities: if type(b) is a proper subclass of type(a), b's reflected method runs first *)
Definition py_cmp (m : mname) (a b : qty) : res bool :=
  r <- (if proper_subkind (qk b) (qk a) then call (reflect_cmp m) b (PQ a) else call m a (PQ b)) ;;
  match r with PB x => Ok x | _ => Err TypeError end.
Definition as_qty (r : res pyval) : res qty := v <- r ;; match v with PQ q => Ok q | _ => Err TypeError end.
Definition as_num (r : res pyval) : res (num A) := v <- r ;; match v with PN x => Ok x | _ => Err TypeError end.
(** a + b, a - b, a / b, a * b with a quantity on the left (no reflected methods are defined for + - /; for * a
    right operand of a proper subclass that overrides __rmul__ would run first, and every such method rejects a quantity) *)
Definition py_add (a : qty) (b : pyval) : res pyval := call MAdd a b.
Definition py_sub (a : qty) (b : pyval) : res pyval := call MSub a b.
Definition py_div (a : qty) (b : pyval) : res pyval := call MTrueDiv a b.
Definition py_mul (a : qty) (b : pyval) : res pyval :=
  match b with
  | PQ o => if proper_subkind (qk o) (qk a) && match g_own_method G (qk o) MRMul with Some _ => true | None => false end
            then call MRMul o (PQ a) else call MMul a b
  | _ => call MMul a b
  end.
(** number * quantity *)
Definition py_rmul (x : num A) (b : qty) : res pyval := call MRMul b (PN x).
Definition py_abs (a : qty) : res pyval := call MAbs a PNone.
Definition py_neg (a : qty) : res pyval := call MNeg a PNone.

End Interp.

Arguments qty A : clear implicits.
Arguments pyval A : clear implicits.
