(** * SolverRun: what a run appends to the history — the time grid (C11), the stop condition (C16), one record per instant (C17). *)
From Coq Require Import ZArith QArith String List Bool Lia.
From GP Require Import ArithDef UnitsCore PyUnits QOps Motor Solver SolverProofs.
Import ListNotations.

Section Run.
Context {A : Arith}.
Notation qty := (qty A).
Notation snap := (@snap A).
Variable c : @chain A.
Variable load : qty -> qty -> qty -> res qty.

Definition stop_of (stop : option (@stopcond A)) (s : snap) : res bool :=
  match stop with Some sc => stop_check sc s | None => Ok false end.

(** [new] (newest first) is what the stepping loop appended *)
Record appended (stop : option (@stopcond A)) (ts : list qty) (new : list (qty * snap)) : Prop := {
  ap_times : map fst new = rev (firstn (length new) ts);                  (* the instants are a prefix of the grid, in order *)
  ap_len : length new <= length ts;
  ap_before : forall t s, In (t, s) (tl new) -> stop_of stop s = Ok false;   (* the condition was false at every earlier computed instant *)
  ap_early : length new < length ts -> exists t s, hd_error new = Some (t, s) /\ stop_of stop s = Ok true;  (* an early end is a true condition *)
  ap_full : stop = None -> length new = length ts
}.

Lemma loop_spec ctl stop J dt ts st st' :
  loop c load ctl stop J dt ts st = Ok st' -> exists new, y_hist st' = (new ++ y_hist st)%list /\ appended stop ts new.
Proof.
  revert st. induction ts as [|t ts IH]; cbn [loop]; intros st H.
  - injection H as <-. exists []. split; [reflexivity|]. constructor; cbn.
    + reflexivity.
    + lia.
    + intros ? ? [].
    + lia.
    + reflexivity.
  - unfold bind in H. destruct (integrate (y_live st) dt) as [v|]; [|discriminate].
    destruct (record_instant c load ctl J t v st (Some dt)) as [[st1 s]|] eqn:Er; [|discriminate].
    destruct (record_instant_inv _ _ _ _ _ _ _ _ _ _ Er) as (Hh & _).
    fold (stop_of stop s) in H. destruct (stop_of stop s) as [[|]|] eqn:Es; [| |discriminate].
    + injection H as <-. exists [(t, s)]. split; [rewrite Hh; reflexivity|].
      constructor; cbn; try lia.
      * reflexivity.
      * intros _. exists t, s. auto.
      * intros ->. cbn in Es. discriminate.
    + destruct (IH _ H) as (new & Hn & Hap). exists (new ++ [(t, s)])%list. split.
      { rewrite Hn, Hh, <- app_assoc. reflexivity. }
      destruct Hap as [H1 H2 H3 H4 H5]. constructor.
      * rewrite map_app, app_length. cbn [length map fst]. replace (length new + 1) with (S (length new)) by lia.
        cbn [firstn rev]. rewrite H1. reflexivity.
      * rewrite app_length. cbn. lia.
      * intros t' s' Hin. destruct new as [|x new]; [destruct Hin|]. cbn in Hin. apply in_app_or in Hin as [Hin|[E|[]]].
        { apply (H3 t' s'). exact Hin. } injection E as <- <-. exact Es.
      * rewrite app_length. cbn [length]. intros Hlt. destruct new as [|x new].
        { cbn in Hlt. destruct H4 as (t' & s' & Hhd & _); [cbn; lia|]. discriminate. }
        destruct H4 as (t' & s' & Hhd & Ht); [cbn in *; lia|]. exists t', s'. split; [exact Hhd|exact Ht].
      * intros Hs. rewrite app_length. cbn. rewrite (H5 Hs). lia.
Qed.

(** the whole run: the first instant of a fresh simulation is recorded at time 0 (in dt's unit) and not tested;
    the further instants are the grid  t0 + k*dt, k = 1..n, n = round(T/dt) *)
Theorem run_spec ctl stop dt T st st' : run c load ctl stop dt T st = Ok st' ->
  exists t0 x new,
    q_ratio T dt = Ok x /\
    appended stop (grid_from (qv t0) (qv dt) (qu dt) 1 (Z.to_nat (round_half_even x))) new /\
    match y_hist st with
    | [] => q_new KTime zero (qu dt) = Ok t0 /\ exists s0, y_hist st' = (new ++ [(t0, s0)])%list /\ s_dt s0 = None
    | (tl, _) :: _ => q_to tl (qu dt) = Ok t0 /\ y_hist st' = (new ++ y_hist st)%list
    end.
Proof.
  unfold run, bind. intros H. destruct (q_ge dt T) as [[|]|]; try discriminate.
  destruct (equivalent_inertia c) as [J|]; [|discriminate].
  destruct (y_hist st) as [|[tl sl] h] eqn:Eh.
  - destruct (q_new KTime zero (qu dt)) as [t0|]; [|discriminate].
    destruct (record_instant c load ctl J t0 (y_live st) _ None) as [[st0 s0]|] eqn:Er; [|discriminate].
    cbn [fst] in H. destruct (q_ratio T dt) as [x|]; [|discriminate].
    destruct (record_instant_inv _ _ _ _ _ _ _ _ _ _ Er) as (Hh & _ & _ & Hf). cbn [y_hist] in Hh.
    destruct (loop_spec _ _ _ _ _ _ _ H) as (new & Hn & Hap). exists t0, x, new. split; [reflexivity|]. split; [exact Hap|].
    split; [reflexivity|]. exists s0. split; [rewrite Hn, Hh; reflexivity|]. apply (if_ghost _ _ _ _ _ _ _ _ _ _ Hf).
  - destruct (q_to tl (qu dt)) as [t0|]; [|discriminate]. destruct (q_ratio T dt) as [x|]; [|discriminate].
    destruct (loop_spec _ _ _ _ _ _ _ H) as (new & Hn & Hap). exists t0, x, new. rewrite Eh in Hn. auto.
Qed.

(** ... which is [run_grid] of dt, T and the last recorded instant *)
Definition last_time (st : @sys A) : option qty := match y_hist st with (tl, _) :: _ => Some tl | [] => None end.
Corollary run_uses_run_grid ctl stop dt T st st' : run c load ctl stop dt T st = Ok st' ->
  exists t0 ts new, run_grid dt T (last_time st) = Ok (t0, ts) /\ appended stop ts new /\
    match y_hist st with
    | [] => exists s0, y_hist st' = (new ++ [(t0, s0)])%list
    | _ :: _ => y_hist st' = (new ++ y_hist st)%list
    end.
Proof.
  intros H. destruct (run_spec _ _ _ _ _ _ H) as (t0 & x & new & Hx & Hap & Hh).
  exists t0, (grid_from (qv t0) (qv dt) (qu dt) 1 (Z.to_nat (round_half_even x))), new.
  unfold run_grid, last_time, bind. destruct (y_hist st) as [|[tl sl] h].
  - destruct Hh as (-> & s0 & Hs & _). rewrite Hx. eauto.
  - destruct Hh as (-> & Hs). rewrite Hx. auto.
Qed.

Lemma run_records_grid_ : forall ctl stop dt T st st',
  run c load ctl stop dt T st = Ok st' ->
  exists t0 ts new, run_grid dt T (last_time st) = Ok (t0, ts) /\ map fst new = rev (firstn (length new) ts) /\
    match y_hist st with
    | [] => exists s0, y_hist st' = (new ++ [(t0, s0)])%list
    | _ :: _ => y_hist st' = (new ++ y_hist st)%list
    end.
Proof.
  intros ctl stop dt T st st' H. destruct (run_uses_run_grid ctl stop dt T st st' H) as (t0 & ts & new & Hg & [H1 _ _ _ _] & Hh).
  exists t0, ts, new. auto.
Qed.

Lemma reachable_lengths_ : forall ops p w st t s,
  exec c load ops (initial p w) = Ok st -> In (t, s) (y_hist st) ->
  let n := S (length (c_elems c)) in
  length (s_pos s) = n /\ length (s_spd s) = n /\ length (s_acc s) = n /\ length (s_dtq s) = n /\ length (s_ltq s) = n /\ length (s_tq s) = n.
Proof.
  intros ops p w st t s He Hin.
  destruct (exec_inv c load _ _ _ (initial_inv c load p w) He) as (Hh & _).
  destruct (hist_ok_in c load _ _ _ Hh Hin) as (v & ctl & J & f & locked & prov & _ & _ & Hf).
  assert (Hr : length (ratios c) = length (c_elems c)) by (unfold ratios; apply map_length).
  destruct (back_prop_spec _ _ _ (if_pos _ _ _ _ _ _ _ _ _ _ Hf)) as (_ & _ & Hp).
  destruct (if_spd1 _ _ _ _ _ _ _ _ _ _ Hf) as (spd1 & spd0 & Hb & _ & _ & Hs). destruct (back_prop_spec _ _ _ Hb) as (_ & _ & Hs1).
  destruct (if_load _ _ _ _ _ _ _ _ _ _ Hf) as (pl & sl & lt & _ & _ & _ & Hl). destruct (load_prop_spec _ _ _ Hl) as (_ & _ & Hl1).
  destruct (if_drive _ _ _ _ _ _ _ _ _ _ Hf) as (sp & d0 & _ & _ & Hd & _). destruct (drive_prop_spec _ _ _ Hd) as (_ & _ & Hd1).
  assert (Hsp : length (s_spd s) = S (length (c_elems c))). { rewrite Hs. destruct (s_locked s); [rewrite map_length|]; lia. }
  assert (Hacc : length (s_acc s) = S (length (c_elems c))).
  { generalize (if_acc _ _ _ _ _ _ _ _ _ _ Hf). destruct (s_locked s).
    - intros (spd1' & Hb' & ->). rewrite Hb in Hb'. injection Hb' as <-. rewrite map_length. lia.
    - intros (tl & a & _ & _ & Ha). destruct (back_prop_spec _ _ _ Ha) as (_ & _ & Hn). lia. }
  assert (Htq : length (s_tq s) = S (length (c_elems c))).
  { assert (Hpw := map2r_spec _ _ _ _ (if_net _ _ _ _ _ _ _ _ _ _ Hf)). clear - Hpw Hd1.
    revert Hd1. generalize (S (length (c_elems c))). induction Hpw; intros n Hn; cbn in *; [exact Hn|]. destruct n; [discriminate|]. f_equal. apply IHHpw. lia. }
  cbn zeta. repeat split; lia.
Qed.

(** the grid itself *)
Lemma grid_from_length (t0v dtv : num A) u k n : length (grid_from t0v dtv u k n) = n.
Proof. revert k. induction n; intros k; cbn; auto. Qed.
Lemma grid_from_nth (t0v dtv : num A) u k n i : i < n ->
  nth_error (grid_from t0v dtv u k n) i = Some {| qk := KTime; qv := add t0v (mul (of_Z (k + Z.of_nat i)) dtv); qu := u |}.
Proof.
  revert k i. induction n as [|n IH]; intros k i Hi; [lia|]. destruct i as [|i]; cbn.
  - rewrite Z.add_0_r. reflexivity.
  - rewrite IH by lia. replace (k + 1 + Z.of_nat i)%Z with (k + Z.of_nat (S i))%Z by lia. reflexivity.
Qed.
(** the last recorded sample of every variable is the element's current attribute (the duty cycle apart: the user may assign it between runs) *)
Lemma reachable_last_sample_ : forall ops p w st t s h, exec c load ops (initial p w) = Ok st -> y_hist st = (t, s) :: h ->
  exists v1, live_of s = Ok v1 /\ same_but_pwm v1 (y_live st).
Proof.
  intros ops p w st t s h He E. destruct (exec_inv c load ops _ _ (initial_inv c load p w) He) as (_ & Hl & _). rewrite E in Hl. exact Hl.
Qed.
(** how many instants a schedule can have on record: every run adds at most round(T/dt) instants (one more when it starts a fresh
    simulation), a reset empties the history, nothing else touches it *)
Definition run_budget (o : @sop A) : nat :=
  match o with
  | SRun dt T _ _ => match q_ratio T dt with Ok x => S (Z.to_nat (round_half_even x)) | Err _ => 0 end
  | _ => 0
  end.
Definition budget (ops : list (@sop A)) : nat := fold_right (fun o acc => run_budget o + acc) 0 ops.
Lemma run_length_bound_ ctl stop dt T st st' : run c load ctl stop dt T st = Ok st' ->
  length (y_hist st') <= length (y_hist st) + run_budget (SRun dt T ctl stop).
Proof.
  intros H. destruct (run_spec _ _ _ _ _ _ H) as (t0 & x & new & Hx & Hap & Hh). cbn [run_budget]. rewrite Hx.
  assert (Hl := ap_len _ _ _ Hap). rewrite grid_from_length in Hl.
  destruct (y_hist st) as [|[tl sl] h].
  - destruct Hh as (_ & s0 & -> & _). rewrite app_length. cbn. lia.
  - destruct Hh as (_ & ->). rewrite app_length. cbn [length]. lia.
Qed.
Theorem exec_length_bound_ ops : forall st st', exec c load ops st = Ok st' -> length (y_hist st') <= length (y_hist st) + budget ops.
Proof.
  induction ops as [|o ops IH]; intros st st' H; cbn [exec] in H.
  - injection H as <-. cbn. lia.
  - unfold bind in H. destruct (step_op c load st o) as [st1|] eqn:E; [|discriminate].
    specialize (IH _ _ H). cbn [budget fold_right]. fold (budget ops).
    assert (H1 : length (y_hist st1) <= length (y_hist st) + run_budget o).
    { destruct o as [dt T ctl stop| | |p w|x]; cbn [step_op] in E.
      - apply run_length_bound_. exact E.
      - unfold reset in E. destruct (rev (y_hist st)) as [|[t s] r]; [discriminate|]. unfold bind in E.
        destruct (live_of s); [|discriminate]. injection E as <-. cbn. lia.
      - injection E as <-. cbn. lia.
      - destruct (y_hist st) eqn:Eh; [|discriminate]. injection E as <-. cbn. lia.
      - unfold bind in E. destruct (set_pwm x) as [pw|]; [|discriminate]. injection E as <-. cbn. lia. }
    lia.
Qed.
End Run.
Definition run_records_grid := @run_records_grid_.
Definition reachable_lengths := @reachable_lengths_.
Definition reachable_last_sample := @reachable_last_sample_.
Definition exec_length_bound := @exec_length_bound_.
