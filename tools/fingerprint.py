#!/usr/bin/env python3
"""tools/fingerprint.py: record the sha256 of every source and data file of gearpy at the pinned tree (fingerprints.json, committed).
The checks read it; they never write it.  A check whose property is anchored in a file that differs from its fingerprint runs its
correspondence and its search at a multiple of the quick volume (the code changed: look harder)."""
import hashlib
import json
import os
import sys

repo = sys.argv[1] if len(sys.argv) > 1 else '/repo'
out = {}
for d, _, fs in os.walk(os.path.join(repo, 'gearpy')):
    for f in sorted(fs):
        if f.endswith(('.py', '.csv')):
            p = os.path.join(d, f)
            out[os.path.relpath(p, repo)] = hashlib.sha256(open(p, 'rb').read()).hexdigest()
json.dump(dict(note='sha256 of gearpy source/data files at the tree the models were written against; read-only for the checks', files=out),
          open(os.path.join(os.path.dirname(os.path.abspath(__file__)), '..', 'fingerprints.json'), 'w'), indent=1, sort_keys=True)
print(len(out), 'files')
