#!/bin/sh
# tools/benign.sh <Bk> <check>...: run the given checks against the behaviour-preserving refactoring in /tmp/benign/<Bk> from a scratch copy
b=$1; shift
d=/tmp/bn/$b; rm -rf $d; mkdir -p $d; rsync -a --exclude .git --exclude violations /verif/ $d/
out=/tmp/bn/$b.txt; : > $out
for p in "$@"; do
  r=$(GEARPY_REPO=/tmp/benign/$b timeout 3000 $d/check $p 2>&1); rc=$?
  echo "$p rc=$rc $(echo "$r" | grep -c '^VIOLATION') | $(echo "$r" | grep -A2 '^VIOLATION' | head -3 | tr '\n' ' ' | cut -c1-500) | $(echo "$r" | tail -n1 | cut -c1-170)" >> $out
done
rm -rf $d
