#!/bin/sh
# tools/matrix.sh <seed-id>...: run every property's quick check against the scratch worktree /tmp/seed/<id> (patch applied) from a scratch copy of /verif
for s in "$@"; do
  d=/tmp/vm/$s; rm -rf $d; mkdir -p $d; rsync -a --exclude .git --exclude violations ${SRC:-/verif}/ $d/
  out=/tmp/vm/$s.txt; : > $out
  for p in C01 C02 C03 C04 C05 C06 C07 C08 C09 C10 C11 C12 C13 C14 C15 C16 C17 C18 C19 C20; do
    r=$(GEARPY_REPO=${SEEDDIR:-/tmp/seed}/$s timeout 1500 $d/check $p 2>&1); rc=$?
    echo "$p rc=$rc $(echo "$r" | grep -c '^VIOLATION') $(echo "$r" | grep '^VIOLATION' | grep -c no-failing) | $(echo "$r" | grep -A2 '^VIOLATION' | grep -v '^VIOLATION' | head -2 | tr '\n' ' ' | cut -c1-260)" >> $out
  done
  rm -rf $d
done
