#!/bin/sh
# tools/verify_seed2.sh <Cxx>...: confirm a second-batch seeded change made by a sub-agent in ${SEEDROOT:-/tmp/seed2}/<Cxx>:
# the demonstration passes on the clean tree and fails on the changed one, and the unedited test suite passes with the change.
# Keeps patch.diff, demo.py and the outcomes under /verif/seeded/<Cxx>b/.
for s in "$@"; do
  w=${SEEDROOT:-/tmp/seed2}/$s; o=/verif/seeded/${s}${SEEDSUFFIX:-b}; mkdir -p $o
  git -C $w diff -- gearpy > $o/patch.diff
  cp $w/demo.py $o/demo.py 2>/dev/null
  [ -s $o/patch.diff ] || { echo "$s: empty patch"; continue; }
  git -C $w checkout -q -- gearpy
  (cd $w && PYTHONPATH=$w timeout 900 /venv/bin/python demo.py > $o/demo_clean.txt 2>&1); c=$?
  git -C $w apply $o/patch.diff
  (cd $w && PYTHONPATH=$w timeout 900 /venv/bin/python demo.py > $o/demo_mut.txt 2>&1); m=$?
  (cd $w && PYTHONPATH=$w timeout 3000 /venv/bin/python -m pytest -q -p no:cacheprovider -x -n 6 tests > ${SEEDROOT:-/tmp/seed2}/suite_$s.txt 2>&1); t=$?
  echo "$s demo_clean=$c demo_mut=$m suite_exit=$t $(tail -n1 ${SEEDROOT:-/tmp/seed2}/suite_$s.txt)" | tee $o/verified.txt
done
