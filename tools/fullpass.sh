#!/bin/sh
# tools/fullpass.sh <seed>...: every property's quick check on the unchanged tree with VERIF_SEED=<seed>, from a scratch copy of /verif
for s in "$@"; do
  d=/tmp/fp/$s; rm -rf $d; mkdir -p $d; rsync -a --exclude .git --exclude violations /verif/ $d/
  out=/tmp/fp/seed$s.txt; : > $out
  for p in C01 C02 C03 C04 C05 C06 C07 C08 C09 C10 C11 C12 C13 C14 C15 C16 C17 C18 C19 C20; do
    r=$(VERIF_SEED=$s timeout 3000 $d/check $p 2>&1); rc=$?
    echo "$p rc=$rc $(echo "$r" | grep -c '^VIOLATION') | $(echo "$r" | grep -A2 '^VIOLATION' | head -3 | tr '\n' ' ' | cut -c1-400) | $(echo "$r" | tail -n1 | cut -c1-160)" >> $out
  done
  rm -rf $d
done
