import ast, sys
src = open(sys.argv[1]).read()
tree = ast.parse(src)
for node in ast.walk(tree):
    if isinstance(node, (ast.FunctionDef, ast.ClassDef, ast.Module)):
        b = node.body
        if b and isinstance(b[0], ast.Expr) and isinstance(b[0].value, ast.Constant) and isinstance(b[0].value.value, str):
            node.body = b[1:] or [ast.Pass()]
print(ast.unparse(tree))
