#!/bin/sh
# tools/thoroughpass.sh <lane> <seed> <Cxx>...: the thorough tier of the named properties on the unchanged tree, from a scratch copy of /verif
lane=$1; seed=$2; shift 2
d=/tmp/tp/$lane; rm -rf $d; mkdir -p $d; rsync -a --exclude .git --exclude violations /verif/ $d/
out=/tmp/tp/lane$lane.txt; : > $out
for p in "$@"; do
  r=$(VERIF_SEED=$seed timeout 7200 $d/check $p --tier thorough 2>&1); rc=$?
  echo "$p rc=$rc $(echo "$r" | grep -c '^VIOLATION') | $(echo "$r" | grep -A2 '^VIOLATION' | head -3 | tr '\n' ' ' | cut -c1-500) | $(echo "$r" | tail -n1 | cut -c1-170)" >> $out
done
rm -rf $d
