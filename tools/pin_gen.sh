#!/bin/sh
# tools/pin_gen.sh: record the description generated from the pinned tree (used only when the translator fails, and only by properties
# that are not about the units source; see harness/check.py)
cd "$(dirname "$0")/.." && PYTHONPATH=${GEARPY_REPO:-/repo} PYTHONHASHSEED=0 /venv/bin/python harness/translate.py && \
cp coq/gen/UnitsGen.v coq/gen_pinned/UnitsGen.v.txt && cp coq/gen/TablesGen.v coq/gen_pinned/TablesGen.v.txt
