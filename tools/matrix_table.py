#!/usr/bin/env python3
"""tools/matrix_table.py <dir>: markdown table of seeds x checks from the files written by tools/matrix.sh
(W = VIOLATION with a concrete failing input, n = VIOLATION ... no-failing-input-found, . = exit 0)"""
import glob
import os
import sys

d = sys.argv[1] if len(sys.argv) > 1 else '/tmp/vm'
props = ['C%02d' % i for i in range(1, 21)]
print('| seed \\ check | ' + ' | '.join(p[1:] for p in props) + ' |')
print('|---|' + '---|' * len(props))
for f in sorted(glob.glob(os.path.join(d, 'C*.txt'))):
    s = os.path.basename(f)[:-4]
    cells = {}
    for l in open(f):
        w = l.split()
        if len(w) < 4:
            continue
        p, rc, v, nf = w[0], w[1], int(w[2]), int(w[3])
        cells[p] = '.' if rc == 'rc=0' else ('n' if nf else 'W')
    print(f'| {s}a | ' + ' | '.join(('**' + cells.get(p, '?') + '**') if p == s and cells.get(p) == 'W' else cells.get(p, '?') for p in props) + ' |')
