#!/bin/sh
# tools/regress.sh <lane> <seed-id>...: every named seeded change (seeded/<id>/patch.diff) applied to its own scratch worktree of /repo,
# its own property's quick check run against it from a scratch copy of /verif; one line per seed in /tmp/reg/lane<lane>.txt:
# W = concrete witness, n = VIOLATION ... no-failing-input-found, MISSED = exit 0.  Worktrees and the copy are removed at the end.
lane=$1; shift
d=/tmp/reg/verif$lane; mkdir -p /tmp/reg; rm -rf $d; rsync -a --exclude .git --exclude violations /verif/ $d/
out=/tmp/reg/lane$lane.txt; : > $out
for id in "$@"; do
  p=$(echo $id | cut -c1-3); w=/tmp/reg/wt_$id
  git -C /repo worktree add -q --detach $w HEAD && git -C $w apply /verif/seeded/$id/patch.diff || { echo "$id APPLY-FAILED" >> $out; git -C /repo worktree remove --force $w 2>/dev/null; continue; }
  r=$(GEARPY_REPO=$w timeout 3000 $d/check $p 2>&1); rc=$?
  if echo "$r" | grep -q '^VIOLATION.*no-failing-input-found'; then v=n; elif echo "$r" | grep -q '^VIOLATION'; then v=W; else v=MISSED; fi
  echo "$id $v rc=$rc | $(echo "$r" | grep -A1 '^VIOLATION' | head -2 | tr '\n' ' ' | cut -c1-260) | $(echo "$r" | tail -n1 | cut -c1-140)" >> $out
  git -C /repo worktree remove --force $w
done
rm -rf $d
