#!/usr/bin/env python3
"""tools/mkmeta.py <suffix> <seedroot> : write seeded/Cxx<suffix>/meta.json from the batch table in DESIGN.md (| Cxx<suffix> | change | needs | result |)
and the verification record verified.txt written by tools/verify_seed2.sh."""
import json, os, re, sys
suffix, root = sys.argv[1], sys.argv[2]
props = {json.loads(l)['id']: json.loads(l) for l in open('/verif/properties.jsonl')}
rows = {}
for l in open('/verif/DESIGN.md'):
    m = re.match(r'\| (C\d\d)' + suffix + r' \| (.*?) \| (.*?) \| (.*?) \|\s*$', l)
    if m:
        rows[m.group(1)] = m.groups()[1:]
head = os.popen('git -C /repo rev-parse --short HEAD').read().strip()
for pid, (change, needs, result) in sorted(rows.items()):
    d = f'/verif/seeded/{pid}{suffix}'
    vf = os.path.join(d, 'verified.txt')
    if not os.path.exists(vf):
        print(pid, 'not verified yet'); continue
    meta = dict(property=pid, breaks=props[pid]['title'], change=change, needs_to_manifest=needs,
                author=f'independent sub-agent given only the property text, a scratch worktree of /repo at {head} and the list of ideas earlier seeded changes had used',
                verified_by_me=dict(command=f'SEEDROOT={root} SEEDSUFFIX={suffix} tools/verify_seed2.sh {pid}', result=open(vf).read().strip()),
                own_check=dict(command=f'GEARPY_REPO={root}/{pid} ./check {pid}', result=result))
    json.dump(meta, open(os.path.join(d, 'meta.json'), 'w'), indent=1)
    print(pid, 'meta written')
