"""Failing-input search for C05, C06, C19 on the IMPLEMENTATION (gearpy.units), against the independent tables of si.py.

These oracles never decide a passing run; they are run when a proof obligation or the correspondence broke (and, cheaply,
on every run as a sanity net whose findings are reported like any other witness).  Every oracle is sound: it reports only
inputs on which the property statement is definitely false, and classifies witnesses that fall in a recorded finding."""
import math
import random
from fractions import Fraction as F

import gearpy.units as U
import si as S

TOL = F(1, 10 ** 12)


def mk(k, v, u):
    return getattr(U, k)(v, u)


def mk_inplace(rng, k, v, u):
    """the quantity (v, u) reached by constructing it in ANOTHER unit and converting it in place: an object's arithmetic must not
    depend on how it came to its present value and unit.  Returns (object, unit it was constructed in or None)"""
    us = [x for x in S.units(k) if x != u]
    if not us or rng.random() > 0.35:
        return mk(k, v, u), None
    u0 = rng.choice(us)
    try:
        o = mk(k, v * S.ffactor(k, u) / S.ffactor(k, u0), u0)
        o.to(u, inplace=True)
        return o, u0
    except Exception:  # noqa
        return mk(k, v, u), None


def sample_values(rng, k, n):
    vals = [1.0, 0.25, 7.5, 120.0, 3, 1e-3, 2.5e4]
    vals += [rng.uniform(1, 10) * 10.0 ** rng.randint(-4, 5) for _ in range(n)]
    if k not in S.POSITIVE and k not in S.NONNEG:
        vals += [-v for v in vals[:4]] + [0.0]
    if k in S.NONNEG:
        vals += [0.0]
    return vals


# ------------------------------------------------------------------ C05
def c05_search(rng, budget):
    """returns list of witnesses (dict with 'what', 'case', 'class')"""
    out = []
    n = 0
    for k in S.KINDS:
        us = S.units(k)
        try:
            impl_units = list(getattr(getattr(U, S.base(k)), f'_{S.base(k)}__UNITS'))
        except AttributeError:
            impl_units = None
        if impl_units is not None and impl_units != us:
            out.append(dict(what=f'unit list of {k} is {impl_units}, SI table has {us}', case=dict(kind=k), cls='units'))
        for u1 in us:
            for u2 in us:
                for v in sample_values(rng, k, max(1, budget // 400)):
                    n += 1
                    try:
                        a = mk(k, v, u1)
                        c = a.to(u2)
                    except Exception as e:  # noqa
                        out.append(dict(what=f'{k}({v!r},{u1!r}).to({u2!r}) raised {type(e).__name__}', case=dict(kind=k, v=v, u1=u1, u2=u2), cls='to-raises'))
                        continue
                    want = S.si(k, v, u1)
                    got = S.si(k, c.value, u2)
                    if type(c).__name__ != k or c.unit != u2 or abs(got - want) > abs(want) * F(1, 10 ** 12):
                        out.append(dict(what=f'{k}({v!r},{u1!r}).to({u2!r}) = {c!r}: SI magnitude {float(got)!r}, expected {float(want)!r}',
                                        case=dict(kind=k, v=v, u1=u1, u2=u2), cls='to-si'))
                        continue
                    b = mk(k, v, u1)
                    r = b.to(u2, inplace=True)
                    if r is not b or b.value != c.value or b.unit != c.unit:
                        out.append(dict(what=f'in-place conversion of {k}({v!r},{u1!r}) to {u2!r} gives {b!r}, copy gives {c!r}', case=dict(kind=k, v=v, u1=u1, u2=u2), cls='inplace'))
                    # the object that was converted in place must go on behaving like the copy
                    try:
                        back_b = b.to(u1)
                        same = (b == c, b != c, b <= c, b >= c, b < c, b > c)
                        if abs(F(back_b.value) - F(v)) > abs(F(v)) * F(1, 10 ** 12) or back_b.unit != u1 or same != (True, False, True, True, False, False):
                            out.append(dict(what=f'{k}({v!r},{u1!r}) converted in place to {u2!r} then behaves differently from its copy {c!r}: '
                                                 f'back-conversion {back_b!r}, (==,!=,<=,>=,<,>) against the copy {same}', case=dict(kind=k, v=v, u1=u1, u2=u2), cls='inplace-state'))
                    except Exception as e:  # noqa
                        if S.valid_value(k, c.value):
                            out.append(dict(what=f'{k}({v!r},{u1!r}) converted in place to {u2!r}: further use raised {type(e).__name__}', case=dict(kind=k, v=v, u1=u1, u2=u2), cls='inplace-state'))
                    try:
                        back = c.to(u1)
                        if abs(F(back.value) - F(v)) > abs(F(v)) * F(1, 10 ** 12):
                            out.append(dict(what=f'{k}({v!r},{u1!r}) there and back via {u2!r} gives {back!r}', case=dict(kind=k, v=v, u1=u1, u2=u2), cls='roundtrip'))
                    except Exception as e:  # noqa
                        if S.valid_value(k, c.value):
                            out.append(dict(what=f'back-conversion raised {type(e).__name__}', case=dict(kind=k, v=v, u1=u1, u2=u2), cls='roundtrip'))
                    # comparisons across the unit pair
                    if u1 != u2:
                        out += cmp_check(k, v, u1, c.value, u2)
                        for scale in (0.5, 2.0, 1 + 1e-6, 1 + 4e-10, 1 - 4e-10, 1 + 3e-12):   # far apart, and close but beyond rounding
                            w = c.value * scale
                            if S.valid_value(k, w):
                                out += cmp_check(k, v, u1, w, u2)
                if len(out) > 50:
                    return out, n
    return out, n


OPS = {'==': lambda a, b: a == b, '!=': lambda a, b: a != b, '<': lambda a, b: a < b, '<=': lambda a, b: a <= b,
       '>': lambda a, b: a > b, '>=': lambda a, b: a >= b}
EXACT = {'==': lambda d: d == 0, '!=': lambda d: d != 0, '<': lambda d: d < 0, '<=': lambda d: d <= 0,
         '>': lambda d: d > 0, '>=': lambda d: d >= 0}
EQUALISH = {'==': True, '!=': False, '<': False, '<=': True, '>': False, '>=': True}


def cmp_expect(k, va, ua, vb, ub, op):
    """what `a op b` must be, or None when the statement leaves it open / when it falls in finding D5's band"""
    sa, sb = S.si(k, va, ua), S.si(k, vb, ub)
    d = sa - sb
    fa, fb = S.factor(k, ua), S.factor(k, ub)
    slack = F(8, 10 ** 16) * max(abs(sa), abs(sb))
    if abs(d) > TOL * max(fa, fb) * (1 + F(1, 10 ** 6)) + slack:
        return EXACT[op](d)
    if abs(d) + slack < TOL * min(fa, fb) * (1 - F(1, 10 ** 6)):
        return EQUALISH[op]
    return None


def cmp_check(k, va, ua, vb, ub, kb=None):
    out = []
    kb = kb or k
    try:
        a, b = mk(k, va, ua), mk(kb, vb, ub)
    except Exception:  # noqa
        return out
    for op, f in OPS.items():
        for (x, y, vx, ux, vy, uy) in ((a, b, va, ua, vb, ub), (b, a, vb, ub, va, ua)):
            want = cmp_expect(k, vx, ux, vy, uy, op)
            if want is None:
                continue
            try:
                got = f(x, y)
            except Exception as e:  # noqa
                out.append(dict(what=f'{x!r} {op} {y!r} raised {type(e).__name__}', case=dict(kind=k, a=[vx, ux], b=[vy, uy], op=op), cls='cmp-raises'))
                continue
            if got is not want:
                out.append(dict(what=f'({x!r}) {op} ({y!r}) is {got}, SI magnitudes {float(S.si(k, vx, ux))!r} vs {float(S.si(k, vy, uy))!r} require {want}',
                                case=dict(kind=k, a=[vx, ux], b=[vy, uy], op=op), cls='cmp'))
    return out


def d5_replay():
    """the recorded finding: equality depends on which operand is on the left"""
    a, b = U.Length(1e-13, 'm'), U.Length(2e-10, 'mm')
    r1, r2 = (a == b), (b == a)
    return r1 != r2, f'Length(1e-13 m) == Length(2e-10 mm) is {r1} but reversed is {r2} (absolute 1e-12 band in the left operand\'s unit)'


# ------------------------------------------------------------------ C06
def is_d6(op, ka, kb):
    return op == '-' and (ka, kb) in (('Angle', 'AngularPosition'), ('TimeInterval', 'Time'))


def c06_search(rng, budget):
    out, n = [], 0
    classes = S.KINDS + ['float', 'int']
    reps = max(1, budget // 2000)
    for ka in S.KINDS:
        for kb in classes:
            for _ in range(reps):
                ua = rng.choice(S.units(ka))
                va = abs(rng.uniform(0.5, 20.0)) * (1 if ka in S.POSITIVE or ka in S.NONNEG or rng.random() < 0.7 else -1)
                a, a_from = mk_inplace(rng, ka, va, ua)
                va = a.value
                if kb in ('float', 'int'):
                    vb = rng.uniform(0.5, 4.0) if kb == 'float' else rng.randint(1, 4)
                    b, ub = vb, None
                else:
                    ub = rng.choice(S.units(kb))
                    vb = abs(rng.uniform(0.5, 20.0)) * (1 if kb in S.POSITIVE or kb in S.NONNEG or rng.random() < 0.7 else -1)
                    b, b_from = mk_inplace(rng, kb, vb, ub)
                    vb = b.value
                sa = S.si(ka, va, ua)
                sb = S.si(kb, vb, ub) if ub else F(vb)
                disturbed = ''
                if rng.random() < 0.35:
                    # the user took copies of the operands with to() -- in the units the operations convert to -- and re-scaled those
                    # COPIES in place: the operands themselves must be unaffected
                    for q_, kq_, other_u in ((a, ka, ub if ub and S.base(ka) == S.base(kb) else None), (b, kb if ub else None, ua if ub and S.base(ka) == S.base(kb) else None)):
                        if kq_ is None:
                            continue
                        for u1_ in {S.units(kq_)[0], rng.choice(S.units(kq_))} | ({other_u} if other_u in S.units(kq_) else set()) | ({'Nm'} if kq_ == 'Torque' else set()):
                            try:
                                c_ = q_.to(u1_)
                                c_.to(rng.choice([x_ for x_ in S.units(kq_) if x_ != u1_] or [u1_]), inplace=True)
                            except Exception:  # noqa
                                pass
                    disturbed = ' [copies of the operands had been taken with to() and re-scaled in place]'
                for op in '+-*/':
                    n += 1
                    try:
                        r = {'+': lambda: a + b, '-': lambda: a - b, '*': lambda: a * b, '/': lambda: a / b}[op]()
                    except (TypeError, ValueError, ZeroDivisionError):
                        continue
                    except Exception as e:  # noqa
                        out.append(dict(what=f'({a!r}) {op} ({b!r}) raised {type(e).__name__}', case=dict(op=op, a=[ka, va, ua], b=[kb, vb, ub]), cls='raises'))
                        continue
                    note = (f' [left operand constructed in {a_from!r} and converted in place]' if a_from else '') + disturbed
                    if ub is None:
                        wantk = ka if op in '*/' else None
                        wants = {'*': sa * sb, '/': sa / sb}.get(op)
                    elif op == '*':
                        wantk, wants = S.mul_kind(ka, kb), sa * sb
                    elif op == '/':
                        wantk, wants = S.div_kind(ka, kb), sa / sb
                    else:
                        wantk, wants = S.addsub_kind(ka, kb), (sa + sb if op == '+' else sa - sb)
                    case = dict(op=op, a=[ka, va, ua], b=[kb, vb, ub], a_constructed_in=a_from)
                    if wantk is None:
                        out.append(dict(what=f'({a!r}) {op} ({b!r}) returned {r!r}; dimensional analysis gives no such operation', case=case, cls='kind'))
                        continue
                    if wantk == 'number':
                        gotk, gots = ('number', F(r)) if isinstance(r, (int, float)) and not isinstance(r, bool) else (type(r).__name__, None)
                    else:
                        gotk = type(r).__name__
                        gots = S.si(gotk, r.value, r.unit) if isinstance(r, U.UnitBase) and gotk in S.KINDS and r.unit in S.units(gotk) else None
                    if gotk != wantk:
                        out.append(dict(what=f'({a!r}) {op} ({b!r}) is a {gotk}, dimensional analysis dictates {wantk}', case=case, cls='kind'))
                    elif gots is None or abs(gots - wants) > max(abs(wants), abs(sa), abs(sb) if op in '+-' else 0) * F(1, 10 ** 9):
                        cls = 'D6' if is_d6(op, ka, kb) else 'si'
                        out.append(dict(what=f'({a!r}) {op} ({b!r}) = {r!r}: SI magnitude {float(gots) if gots is not None else None!r}, expected {float(wants)!r}' + note, case=case, cls=cls))
                # the number on the LEFT: number * quantity is the quantity's kind; number + / - / divided-by quantity is no operation of
                # the dimensional table (Python reaches the quantity's reflected method, if the class has one)
                if ub is None:
                    for op in '+-*/':
                        n += 1
                        try:
                            r = {'+': lambda: b + a, '-': lambda: b - a, '*': lambda: b * a, '/': lambda: b / a}[op]()
                        except (TypeError, ValueError, ZeroDivisionError):
                            continue
                        except Exception as e:  # noqa
                            out.append(dict(what=f'({b!r}) {op} ({a!r}) raised {type(e).__name__}', case=dict(op=op, a=[kb, vb, None], b=[ka, va, ua]), cls='raises'))
                            continue
                        case = dict(op=op, a=[kb, vb, None], b=[ka, va, ua], number_on_the_left=True)
                        if op != '*':
                            out.append(dict(what=f'({b!r}) {op} ({a!r}) returned {r!r}; dimensional analysis gives no such operation (TypeError expected)', case=case, cls='kind'))
                            continue
                        gotk = type(r).__name__
                        gots = S.si(gotk, r.value, r.unit) if isinstance(r, U.UnitBase) and gotk in S.KINDS and r.unit in S.units(gotk) else None
                        if gotk != ka:
                            out.append(dict(what=f'({b!r}) * ({a!r}) is a {gotk}, dimensional analysis dictates {ka}', case=case, cls='kind'))
                        elif gots is None or abs(gots - sa * sb) > abs(sa * sb) * F(1, 10 ** 9):
                            out.append(dict(what=f'({b!r}) * ({a!r}) = {r!r}: SI magnitude {float(gots) if gots is not None else None!r}, expected {float(sa * sb)!r}', case=case, cls='si'))
                # inverse laws
                if ub is not None and S.base(ka) == S.base(kb):
                    n += 1
                    case = dict(a=[ka, va, ua], b=[kb, vb, ub])
                    try:
                        back = (a + b) - b
                        gs = S.si(type(back).__name__, back.value, back.unit)
                        if abs(gs - sa) > max(abs(sa), abs(sb)) * F(1, 10 ** 9):
                            out.append(dict(what=f'(({a!r}) + ({b!r})) - ({b!r}) = {back!r}, expected the magnitude of {a!r}', case=case, cls='inverse'))
                    except (TypeError, ValueError):
                        pass
                    try:
                        l = a - b
                        r2 = -(b - a)
                        ls, rs = S.si(type(l).__name__, l.value, l.unit), S.si(type(r2).__name__, r2.value, r2.unit)
                        if abs(ls - rs) > max(abs(sa), abs(sb)) * F(1, 10 ** 9):
                            cls = 'D6' if (is_d6('-', ka, kb) or is_d6('-', kb, ka)) else 'antisym'
                            out.append(dict(what=f'({a!r}) - ({b!r}) = {l!r} but -(({b!r}) - ({a!r})) = {r2!r}', case=case, cls=cls))
                    except (TypeError, ValueError):
                        pass
            if len([w for w in out if w['cls'] != 'D6']) > 50:
                return out, n
    return out, n


def d6_replay():
    r = U.Angle(5, 'rad') - U.AngularPosition(1, 'rad')
    r2 = U.TimeInterval(5, 'sec') - U.Time(1, 'sec')
    bad = (r.value == 6) or (r2.value == 6)
    return bad, f'Angle(5 rad) - AngularPosition(1 rad) = {r!r}; TimeInterval(5 sec) - Time(1 sec) = {r2!r} (the code adds)'


# ------------------------------------------------------------------ C19
def obj_invalid(o):
    k = type(o).__name__
    v = o.value
    if isinstance(v, float) and math.isnan(v):
        return False
    return not S.valid_value(k, v)


def c19_search(rng, budget):
    out, n = [], 0
    progs = max(5, budget // 40)
    for p in range(progs):
        heap = []
        trace = []
        for stepi in range(40):
            n += 1
            r = rng.random()
            try:
                if r < 0.25 or len(heap) < 2:
                    k = rng.choice(S.KINDS)
                    v = rng.choice([0.0, 1.0, -1.0, rng.uniform(-50, 50), rng.uniform(0, 1e-3), rng.randint(-3, 3), 1e-13, -1e-13, 5e-13, -3e-17, 0.1, 0.2, 0.3, 1e-20])
                    u = rng.choice(S.units(k))
                    trace.append(('ctor', k, v, u))
                    heap.append(mk(k, v, u))
                elif r < 0.60:
                    i, j = rng.randrange(len(heap)), rng.randrange(len(heap))
                    if rng.random() < 0.7:  # steer towards compatible operands
                        same = [x for x in range(len(heap)) if S.base(type(heap[x]).__name__) == S.base(type(heap[i]).__name__)]
                        j = rng.choice(same)
                    op = rng.choice('+-*/')
                    trace.append((op, i, j))
                    res = {'+': lambda: heap[i] + heap[j], '-': lambda: heap[i] - heap[j], '*': lambda: heap[i] * heap[j],
                           '/': lambda: heap[i] / heap[j]}[op]()
                    if isinstance(res, U.UnitBase):
                        heap.append(res)
                elif r < 0.75:
                    i = rng.randrange(len(heap))
                    x = rng.choice([0, 0.0, -1, -0.5, 2, 0.5, rng.uniform(-3, 3), -1e-3, 1e-9])
                    op = rng.choice(['*n', 'n*', '/n'])
                    trace.append((op, i, x))
                    res = {'*n': lambda: heap[i] * x, 'n*': lambda: x * heap[i], '/n': lambda: heap[i] / x}[op]()
                    if isinstance(res, U.UnitBase):
                        heap.append(res)
                elif r < 0.85:
                    i = rng.randrange(len(heap))
                    op = rng.choice(['abs', 'neg'])
                    trace.append((op, i))
                    heap.append(abs(heap[i]) if op == 'abs' else -heap[i])
                else:
                    i = rng.randrange(len(heap))
                    u = rng.choice(S.units(type(heap[i]).__name__))
                    inplace = rng.random() < 0.5
                    trace.append(('to', i, u, inplace))
                    res = heap[i].to(u, inplace=inplace)
                    if not inplace:
                        heap.append(res)
            except (TypeError, ValueError, ZeroDivisionError, KeyError):
                pass
            bad = [o for o in heap if obj_invalid(o)]
            if bad:
                out.append(dict(what=f'after {trace[-1]} a live {type(bad[0]).__name__} has value {bad[0].value!r} {bad[0].unit}', case=dict(program=trace), cls='invalid-object'))
                break
        if len(out) > 10:
            break
    return out, n
