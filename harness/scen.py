"""Solver-family scenarios: generation, execution on gearpy, emission as Coq [scase] literals (see coq/SolverCorr.v)."""
import math
import zlib
import random
import signal

import numpy as np

import gearpy.units as U
from gearpy.mechanical_objects import DCMotor, SpurGear, HelicalGear, Flywheel, WormGear, WormWheel
from gearpy.utils import add_fixed_joint, add_gear_mating, add_worm_gear_mating, StopCondition
from gearpy.powertrain import Powertrain
from gearpy.solver import Solver
from gearpy.motor_control import PWMControl
from gearpy.motor_control.rules import ConstantPWM, ReachAngularPosition, StartLimitCurrent, StartProportionalToAngularPosition
from gearpy.sensors import AbsoluteRotaryEncoder, Tachometer, Timer, Amperometer

from lib import flit, coq_str
import si as S

EXN = {'TypeError', 'ValueError', 'KeyError', 'ZeroDivisionError', 'NameError', 'IndexError', 'AttributeError'}
VARS = [('angular position', 'pos'), ('angular speed', 'spd'), ('angular acceleration', 'acc'), ('torque', 'tq'),
        ('driving torque', 'dtq'), ('load torque', 'ltq')]


class Timeout(Exception):
    pass


def _alarm(signum, frame):
    raise Timeout()


def Q(kind, v, u):
    return [kind, v, u]


def mkq(q):
    v = q[1]
    h = zlib.crc32(repr(q).encode())
    # one integral value in three is handed over as a Python int (deterministically, so that a replay builds the same objects)
    if isinstance(v, float) and v != 0 and v.is_integer() and abs(v) < 2 ** 31 and h % 3 == 0:
        v = int(v)
    cls = getattr(U, q[0])
    if h % 5 == 1 and isinstance(v, float) and v == v and abs(v) != float('inf'):
        # one object in five was declared in another unit and re-expressed IN PLACE before use (only when that reproduces the value
        # bit for bit, so that the model sees the very same quantity)
        us = S.units(q[0])
        for j in range(len(us)):
            u0 = us[(h // 5 + j) % len(us)]
            if u0 == q[2]:
                continue
            try:
                o = cls(v * S.ffactor(q[0], q[2]) / S.ffactor(q[0], u0), u0)
                o.to(q[2], inplace=True)
            except Exception:  # noqa
                continue
            if o.unit == q[2] and o.value == v and (v != 0 or math.copysign(1, o.value) == math.copysign(1, v)):
                return o
    return cls(v, q[2])


def in_unit(rng, kind, si_value, unit=None):
    """the quantity of SI magnitude si_value expressed in a (random) unit of the kind"""
    u = unit or rng.choice(S.units(kind))
    return Q(kind, si_value / S.ffactor(kind, u), u)


# ------------------------------------------------------------------ generation
def module_pair(rng, a, b):
    """one mating in three: both gears get a module of the same magnitude, half of the time written in two different units (exactly
    representable in both: the mating's equality test is tolerance based across units)"""
    if rng.random() > 0.33:
        return
    mm = rng.choice([1.0, 2.0, 0.5, 4.0])
    ua, ub = ('mm', 'mm') if rng.random() < 0.5 else rng.sample(['mm', 'cm', 'm', 'dm'], 2)
    conv = {'mm': 1.0, 'cm': 0.1, 'dm': 0.01, 'm': 0.001}
    a['opt'] = dict(a.get('opt', {}), module=['Length', mm * conv[ua], ua])
    b['opt'] = dict(b.get('opt', {}), module=['Length', mm * conv[ub], ub])


def gen_chain(rng, worm=None, max_stages=3, currents=None):
    """motor + stages.  Each element dict: kind, J, and how it is attached to the previous one."""
    currents = rng.random() < 0.7 if currents is None else currents
    Tmax = 10 ** rng.uniform(-1.5, 0.5)
    w0 = 10 ** rng.uniform(1.5, 2.8)          # rad/s
    imax = 10 ** rng.uniform(-0.3, 1.0)
    i0 = imax * rng.choice([0.02, 0.05, 0.1, 0.2]) if rng.random() < 0.9 else 0.0
    motor = dict(J=in_unit(rng, 'InertiaMoment', 10 ** rng.uniform(-5.5, -3.5)),
                 w0=in_unit(rng, 'AngularSpeed', w0), Tmax=in_unit(rng, 'Torque', Tmax),
                 i0=in_unit(rng, 'Current', i0) if currents else None,
                 imax=in_unit(rng, 'Current', imax) if currents else None)
    if not currents and rng.random() < 0.3:        # exactly one of the two currents given: still a motor without current data
        if rng.random() < 0.5:
            motor['i0'] = in_unit(rng, 'Current', i0)
        else:
            motor['imax'] = in_unit(rng, 'Current', imax)
    elems = []
    n_stages = rng.randint(1, max_stages)
    kinds = []
    for s in range(n_stages):
        r = rng.random()
        if worm is True and (s == 0 or (s == 1 and rng.random() < 0.5)):
            kinds.append('worm')
        elif r < 0.2:
            kinds.append('fly')
        elif r < 0.55:
            kinds.append('spur')
        elif r < 0.75:
            kinds.append('helical')
        elif r < 0.9 and worm is not False:
            kinds.append('worm')
        elif worm is not False:
            kinds.append('wheelworm')
        else:
            kinds.append('spur')
    if all(k == 'fly' for k in kinds):
        kinds.append('spur')
    for k in kinds:
        J = lambda: in_unit(rng, 'InertiaMoment', 10 ** rng.uniform(-5.5, -3.0))  # noqa
        if k == 'fly':
            elems.append(dict(kind='fly', J=J(), link='joint'))
        elif k == 'spur':
            z1, z2 = rng.randint(10, 40), rng.randint(10, 90)
            elems.append(dict(kind='spur', z=z1, J=J(), link='joint'))
            elems.append(dict(kind='spur', z=z2, J=J(), link='gear', eff=rng.choice([1, 1.0, 0.95, 0.9, 0.8, rng.uniform(0.5, 1)])))
            module_pair(rng, elems[-2], elems[-1])
        elif k == 'helical':
            z1, z2 = rng.randint(10, 40), rng.randint(10, 90)
            h = Q('Angle', rng.choice([10, 15, 20, 30, rng.uniform(1, 45)]), 'deg')
            elems.append(dict(kind='helical', z=z1, J=J(), helix=h, link='joint'))
            elems.append(dict(kind='helical', z=z2, J=J(), helix=h, link='gear', eff=rng.choice([1, 0.97, 0.9, rng.uniform(0.5, 1)])))
            module_pair(rng, elems[-2], elems[-1])
        elif k in ('worm', 'wheelworm'):
            pa = rng.choice([14.5, 20, 25, 30])
            hmax = {14.5: 15, 20: 25, 25: 35, 30: 45}[pa]
            helix = rng.uniform(2, hmax)
            h = Q('Angle', helix, 'deg')
            p = Q('Angle', pa, 'deg')
            thr = math.cos(math.radians(pa)) * math.tan(math.radians(helix))
            if k == 'worm':
                f = rng.choice([thr * rng.uniform(1.05, 2.5), thr * rng.uniform(0.1, 0.95)])
                f = min(f, math.cos(math.radians(pa)) / math.tan(math.radians(helix)) * 0.9, 0.98)
                elems.append(dict(kind='worm', starts=rng.randint(1, 4), J=J(), helix=h, pa=p, link='joint'))
                elems.append(dict(kind='wheel', z=rng.randint(20, 60), J=J(), helix=h, pa=p, link='worm', f=f))
            else:
                f = min(thr * rng.uniform(0.05, 0.9), 0.98)
                elems.append(dict(kind='wheel', z=rng.randint(20, 60), J=J(), helix=h, pa=p, link='joint'))
                elems.append(dict(kind='worm', starts=rng.randint(1, 4), J=J(), helix=h, pa=p, link='worm', f=f))
    if elems[-1]['kind'] in ('fly', 'worm'):          # the external load must sit on a gear
        elems.append(dict(kind='spur', z=rng.randint(10, 40), J=in_unit(rng, 'InertiaMoment', 10 ** rng.uniform(-5, -3)), link='joint'))
    return dict(motor=motor, elems=elems)


def gen_time(rng):
    """dt = m*10^-e in some unit, n steps, T as product or as decimal literal"""
    u = rng.choice(['sec', 'ms', 'min', 'hour'])
    target_dt = 10 ** rng.uniform(-4, -2.3)           # seconds
    e = rng.randint(0, 3)
    dtv_u = target_dt / S.ffactor('Time', u)
    m = rng.choice([1, 2, 5, 7, 25, 3])
    exp10 = round(math.log10(dtv_u / m))
    dtv = float(f'{m}e{exp10}')
    n = rng.randint(2, 24)
    if rng.random() < 0.5:
        Tv = dtv * n
    else:
        Tv = float(f'{m * n}e{exp10}')
    Tq = Q('TimeInterval', Tv, u)
    if rng.random() < 0.2:                          # the simulation time written in another unit than the step
        u2 = rng.choice([x for x in ['sec', 'ms', 'min', 'hour'] if x != u])
        Tq = Q('TimeInterval', Tv * S.ffactor('Time', u) / S.ffactor('Time', u2), u2)
    return Q('TimeInterval', dtv, u), Tq, n


def gen_scenario(rng, flavour='plain'):
    """flavour: plain | lock | control | stop | schedule"""
    worm = True if flavour == 'lock' else (None if rng.random() < 0.5 else False)
    sc = gen_chain(rng, worm=worm, currents=True if flavour in ('control', 'rules') else None)
    m = sc['motor']
    Tm_si = m['Tmax'][1] * S.ffactor('Torque', m['Tmax'][2])
    w0_si = m['w0'][1] * S.ffactor('AngularSpeed', m['w0'][2])
    scale = Tm_si * 3
    lu = rng.choice(S.units('Torque'))
    f = S.ffactor('Torque', lu)
    r = rng.random()
    c0 = rng.uniform(-1.5, 1.5) * scale if flavour != 'lock' else rng.choice([-1, 1]) * rng.uniform(0.5, 30) * scale
    ct = rng.uniform(-1, 1) * scale * 5 if r < 0.3 else 0.0
    cp = rng.uniform(-1, 1) * scale if 0.2 < r < 0.5 else 0.0
    cs = rng.uniform(0, 1) * scale / max(w0_si / 10, 1) if r > 0.4 else 0.0
    if rng.random() < 0.15:
        cs = -cs
    sc['load'] = dict(c0=c0 / f, ct=ct / f, cp=cp / f, cs=cs / f, u=lu)
    sc['pos0'] = in_unit(rng, 'AngularPosition', rng.choice([0.0, rng.uniform(-3, 3)]))
    sc['spd0'] = in_unit(rng, 'AngularSpeed', rng.choice([0.0, 0.0, rng.uniform(-1, 1) * w0_si / 20]))
    ops = []
    n_el = len(sc['elems']) + 1
    has_cur = m['i0'] is not None and m['imax'] is not None

    def const_rule(start, dur, v=None):
        tu = rng.choice(S.units('Time'))
        if v is None:
            v = rng.choice([0, 0.0, 1, -1, 0.5, -0.5, rng.uniform(-1, 1)])
        return dict(r='const', start=Q('Time', start / S.ffactor('Time', tu), tu), dur=in_unit(rng, 'TimeInterval', dur), v=v)

    def pos_rule(k):
        if k == 'reach':
            return dict(r='reach', enc=rng.randrange(n_el), target=in_unit(rng, 'AngularPosition', rng.uniform(0.0, 3.0)),
                        brake=in_unit(rng, 'Angle', rng.uniform(0.05, 2.0)))
        if k == 'prop':
            return dict(r='prop', enc=rng.randrange(n_el), target=in_unit(rng, 'AngularPosition', rng.uniform(0.01, 2.0)),
                        mult=rng.choice([2, 1.5, 3.0, rng.uniform(1.01, 5)]), pmin=rng.choice([None, 0.1, 0.3]))
        imax_si = m['imax'][1] * S.ffactor('Current', m['imax'][2])
        i0_si = m['i0'][1] * S.ffactor('Current', m['i0'][2])
        lim = rng.uniform(max(i0_si * 1.1, imax_si * 0.15), imax_si * 1.2)
        return dict(r='lim', enc=rng.randrange(n_el), tach=rng.randrange(n_el),
                    target=in_unit(rng, 'AngularPosition', rng.uniform(0.01, 2.0)), ilim=in_unit(rng, 'Current', lim))

    def ctl():
        if flavour not in ('control', 'lock', 'rules') and rng.random() < 0.8:
            return None
        mode = rng.random() if flavour != 'rules' else rng.uniform(0.3, 0.8)
        if mode < 0.45 or not has_cur or flavour == 'lock':      # disjoint time windows
            rules, t = [], rng.choice([0.0, 0.0, rng.uniform(0, 0.01)])
            for _ in range(rng.randint(1, 3)):
                dur = rng.uniform(0.002, 0.03)
                rules.append(const_rule(t, dur, rng.choice([0, 1, -1, 0.5, -0.5, 0.0]) if flavour == 'lock' else None))
                t += dur * rng.choice([1.0, 1.3, 2.0])         # 1.0: the next window starts exactly where this one ends
            return rules
        if mode < 0.8:                                          # one position-based rule
            return [pos_rule(rng.choice(['reach', 'prop', 'lim']))]
        rules = []                                              # anything goes (often conflicting)
        for _ in range(rng.choice([0, 1, 2, 2, 3, 4])):
            k = rng.random()
            rules.append(const_rule(rng.choice([0.0, rng.uniform(0, 0.03)]), rng.uniform(0.002, 0.05)) if k < 0.5
                         else pos_rule(rng.choice(['reach', 'prop', 'lim'])))
        return rules

    def stop():
        if flavour != 'stop' and rng.random() < 0.85:
            return None
        k = rng.random()
        op = rng.choice(['GT', 'GE', 'EQ', 'LT', 'LE'])
        if k < 0.45:
            return dict(sensor=['enc', rng.randrange(n_el)], thr=in_unit(rng, 'AngularPosition', rng.uniform(-1, 1) * 0.5), op=op)
        if k < 0.85 or not has_cur:
            return dict(sensor=['tach', rng.randrange(n_el)], thr=in_unit(rng, 'AngularSpeed', rng.uniform(-0.3, 1) * w0_si / 3), op=op)
        imax_si = m['imax'][1] * S.ffactor('Current', m['imax'][2])
        return dict(sensor=['amp'], thr=in_unit(rng, 'Current', rng.uniform(0, 1) * imax_si), op=op)

    dt, T, n = gen_time(rng)
    c = ctl()
    if rng.random() < 0.25 and flavour in ('lock', 'control', 'schedule'):
        ops.append(['setpwm', rng.choice([0, -1, 0.5, -0.5, 1, 0.0])])
    st0 = stop()
    ops.append(['run', dt, T, c, st0])
    if flavour in ('schedule', 'lock', 'rules', 'stop') or rng.random() < 0.3:
        for _ in range(rng.randint(1, 3)):
            k = rng.random() if flavour != 'rules' else rng.uniform(0.3, 0.8)
            if k < 0.5:                                    # continuation, maybe in another unit / other step
                if rng.random() < 0.6:
                    u2 = rng.choice(S.units('Time'))
                    dt2 = Q('TimeInterval', dt[1] * S.ffactor('Time', dt[2]) / S.ffactor('Time', u2), u2)
                    n2 = rng.randint(2, 12)
                    T2 = Q('TimeInterval', dt2[1] * n2, u2)
                    if rng.random() < 0.3:
                        u3 = rng.choice([x for x in S.units('Time') if x != u2])
                        T2 = Q('TimeInterval', T2[1] * S.ffactor('Time', u2) / S.ffactor('Time', u3), u3)
                else:
                    dt2, T2, _ = gen_time(rng)
                if rng.random() < 0.3:
                    ops.append(['setpwm', rng.choice([0, -1, 0.5, 1, -0.3])])
                # the same stop condition (the same object: see run_impl) is often handed to the continuation
                ops.append(['run', dt2, T2, c if rng.random() < 0.8 else ctl(), st0 if (st0 is not None and rng.random() < 0.6) else stop()])
            elif k < 0.8:
                ops.append(['reset'])
                if rng.random() < (0.3 if flavour != 'rules' else 0.7):
                    l2 = dict(sc['load'])
                    l2['c0'] = l2['c0'] * rng.choice([0.5, 2.0, 0.0, -1.0, 1.5]) + rng.choice([0.0, 1e-3 * scale / f])
                    ops.append(['setload', l2])
                geared = [j for j, e in enumerate(sc['elems']) if e['link'] == 'gear']
                if geared and rng.random() < 0.25:
                    # a mating re-declared with another efficiency between two simulations (an efficiency sweep on the same objects)
                    ops.append(['seteff', rng.choice(geared), rng.choice([1.0, 0.5, rng.uniform(0.3, 1.0)])])
                if rng.random() < 0.4:
                    ops.append(['newsolver'])
                if rng.random() < 0.3:
                    ops.append(['setinit', sc['pos0'], sc['spd0']])
                ops.append(['run', dt, T, c, st0 if (st0 is not None and rng.random() < 0.5) else None])
            else:
                ops.append(['newsolver'])
                dt2, T2, _ = gen_time(rng)
                ops.append(['run', dt2, T2, c, stop()])
    sc['ops'] = ops
    sc['flavour'] = flavour
    return sc


# ------------------------------------------------------------------ execution on gearpy
def make_load(l):
    c0, ct, cp, cs, u = l['c0'], l['ct'], l['cp'], l['cs'], l['u']

    def ext(time, angular_position, angular_speed):
        return U.Torque(c0 + ct * time.to('sec').value + cp * angular_position.to('rad').value + cs * angular_speed.to('rad/s').value, u)
    return ext


def build(sc):
    m = sc['motor']
    kw = {}
    if m['i0'] is not None:
        kw['no_load_electric_current'] = mkq(m['i0'])
    if m['imax'] is not None:
        kw['maximum_electric_current'] = mkq(m['imax'])
    motor = DCMotor(name='motor', inertia_moment=mkq(m['J']), no_load_speed=mkq(m['w0']), maximum_torque=mkq(m['Tmax']), **kw)
    els = [motor]
    for i, e in enumerate(sc['elems']):
        name = f'e{i + 1}'
        k = e['kind']
        if k == 'fly':
            o = Flywheel(name=name, inertia_moment=mkq(e['J']))
        elif k == 'spur':
            o = SpurGear(name=name, n_teeth=e['z'], inertia_moment=mkq(e['J']), **optkw(e))
        elif k == 'helical':
            o = HelicalGear(name=name, n_teeth=e['z'], inertia_moment=mkq(e['J']), helix_angle=mkq(e['helix']), **optkw(e))
        elif k == 'worm':
            o = WormGear(name=name, n_starts=e['starts'], inertia_moment=mkq(e['J']), helix_angle=mkq(e['helix']), pressure_angle=mkq(e['pa']), **optkw(e))
        elif k == 'wheel':
            o = WormWheel(name=name, n_teeth=e['z'], inertia_moment=mkq(e['J']), helix_angle=mkq(e['helix']), pressure_angle=mkq(e['pa']), **optkw(e))
        prev = els[-1]
        if e['link'] == 'joint':
            add_fixed_joint(master=prev, slave=o)
        elif e['link'] == 'gear':
            add_gear_mating(master=prev, slave=o, efficiency=e['eff'])
        else:
            add_worm_gear_mating(master=prev, slave=o, friction_coefficient=e['f'])
        els.append(o)
    # the order of the three assignments and of the assembly is the user's: it varies with the scenario (deterministically)
    order = zlib.crc32(repr((sc['pos0'], sc['spd0'], len(sc['elems']))).encode()) % 4

    def pos0():                     # one initial position in four holds a numpy scalar (every later position then does too)
        o = mkq(sc['pos0'])
        if zlib.crc32(repr(sc['pos0']).encode()) % 4 == 2 and o.value != 0:
            o = type(o)(np.float64(o.value), o.unit)
        return o
    if order in (0, 1):
        els[-1].external_torque = make_load(sc['load'])
    if order in (1, 2):
        els[-1].angular_speed = mkq(sc['spd0'])
        els[-1].angular_position = pos0()
    pt = Powertrain(motor=motor)
    if order in (2, 3):
        els[-1].external_torque = make_load(sc['load'])
    if order in (0, 3):
        els[-1].angular_position = pos0()
        els[-1].angular_speed = mkq(sc['spd0'])
    return pt, els


def optkw(e):
    return {k: (mkq(v) if isinstance(v, list) and len(v) == 3 and isinstance(v[0], str) else v) for k, v in e.get('opt', {}).items()}


def sensor(sens, cls, el):
    """one sensor object per (kind, element) in a scenario, shared by rules and stop conditions, as in a user script"""
    if sens is None:
        return cls(el)
    key = (cls.__name__, id(el))
    if key not in sens:
        sens[key] = cls(el)
    return sens[key]


def make_control(pt, els, rules, sens=None):
    if rules is None:
        return None
    AbsoluteRotaryEncoder_ = lambda el: sensor(sens, AbsoluteRotaryEncoder, el)  # noqa
    Tachometer_ = lambda el: sensor(sens, Tachometer, el)  # noqa
    c = PWMControl(powertrain=pt)
    for r in rules:
        if r['r'] == 'const':
            c.add_rule(ConstantPWM(timer=Timer(start_time=mkq(r['start']), duration=mkq(r['dur'])), powertrain=pt, target_pwm_value=r['v']))
        elif r['r'] == 'reach':
            c.add_rule(ReachAngularPosition(encoder=AbsoluteRotaryEncoder_(els[r['enc']]), powertrain=pt,
                                            target_angular_position=mkq(r['target']), braking_angle=mkq(r['brake'])))
        elif r['r'] == 'prop':
            c.add_rule(StartProportionalToAngularPosition(encoder=AbsoluteRotaryEncoder_(els[r['enc']]), powertrain=pt,
                                                          target_angular_position=mkq(r['target']), pwm_min_multiplier=r['mult'], pwm_min=r['pmin']))
        elif r['r'] == 'lim':
            c.add_rule(StartLimitCurrent(encoder=AbsoluteRotaryEncoder_(els[r['enc']]), tachometer=Tachometer_(els[r['tach']]), motor=els[0],
                                         target_angular_position=mkq(r['target']), limit_electric_current=mkq(r['ilim'])))
    return c


OPS = {'GT': 'greater_than', 'GE': 'greater_than_or_equal_to', 'EQ': 'equal_to', 'LT': 'less_than', 'LE': 'less_than_or_equal_to'}


def make_stop(els, s, sens=None):
    if s is None:
        return None
    if s['sensor'][0] == 'enc':
        sn = sensor(sens, AbsoluteRotaryEncoder, els[s['sensor'][1]])
    elif s['sensor'][0] == 'tach':
        sn = sensor(sens, Tachometer, els[s['sensor'][1]])
    else:
        sn = sensor(sens, Amperometer, els[0])
    # one threshold in three holds a numpy scalar (a value taken from an array: numpy.float64 is a float)
    thr_ = mkq(s['thr'])
    if zlib.crc32(repr(s['thr']).encode()) % 3 == 0:
        thr_ = type(thr_)(np.float64(thr_.value), thr_.unit)
    return StopCondition(sensor=sn, threshold=thr_, operator=getattr(StopCondition, OPS[s['op']]))


def static_of(pt, els):
    out = []
    for e in els[1:]:
        out.append(dict(ratio=float(e.master_gear_ratio), eff=float(e.master_gear_efficiency),
                        J=[e.inertia_moment.value, e.inertia_moment.unit], spur=isinstance(e, SpurGear)))
    return dict(elems=out, selflock=bool(pt.self_locking))


def fu(q):
    if q is None or not hasattr(q, 'value'):
        return [float('nan'), 'missing:' + type(q).__name__]      # never equal to a model value
    return [float(q.value), q.unit]


def at(lst, k):
    """the k-th sample, or None when the list is too short (a history that is not one sample per instant)"""
    return lst[k] if k < len(lst) else None


def num_or_nan(x):
    if isinstance(x, (int, float)) and not isinstance(x, bool):
        return float(x)
    return float('nan')                       # not a number (never equal to a model value)


def private_flag(solver):
    """the solver's private lock flag, when an attribute of that meaning can be found (it is not part of the public interface)"""
    v = getattr(solver, '_Solver__powertrain_is_locked', None)
    if isinstance(v, bool):
        return v
    cands = [x for k, x in vars(solver).items() if 'lock' in k.lower() and isinstance(x, bool)]
    return cands[0] if len(cands) == 1 else None


def complete_instants(pt, els):
    """number of instants every list holds a sample for (an exception in the middle of an instant leaves ragged lists)"""
    n = len(pt.time)
    for e in els:
        for v in e.time_variables.values():
            n = min(n, len(v))
    return n


def history(pt, els, n=None):
    rows = []
    for k, t in enumerate(pt.time if n is None else pt.time[:n]):
        row = dict(time=fu(t))
        for name, short in VARS:
            row[short] = [fu(at(e.time_variables[name], k)) for e in els]
        row['pwm'] = num_or_nan(at(els[0].time_variables['pwm'], k))
        row['cur'] = fu(at(els[0].time_variables['electric current'], k)) if 'electric current' in els[0].time_variables else None
        rows.append(row)
    return rows


def allowed_instants(sc):
    """an upper bound of the instants a powertrain can hold at any moment of the scenario: the sum over its runs of round(T/dt) + 1"""
    from fractions import Fraction as F
    tot = 0
    for op in sc['ops']:
        if op[0] == 'run':
            dt = F(op[1][1]) * S.factor('Time', op[1][2])
            T = F(op[2][1]) * S.factor('Time', op[2][2])
            tot += (round(T / dt) if dt > 0 else 0) + 2
    return tot


def run_impl(sc, timeout=20, keep_objects=False):
    """returns dict(static=..., rows=[...], locked=bool, err=None|class, marks=[len(time) after each op], oracle=[...])"""
    signal.signal(signal.SIGALRM, _alarm)
    signal.alarm(timeout)
    res = dict(err=None, rows=None, locked=None, marks=[], oracle=[], flags=[], pre=[], part=[])
    pt = None
    try:
        try:
            pt, els = build(sc)
        except Timeout:
            raise
        except Exception as e:  # noqa
            n = type(e).__name__
            res['err'] = n if n in EXN else 'Other:' + n
            res['errmsg'] = 'construction: ' + str(e)[:200]
            res['build_failed'] = True
            return res
        res['static'] = static_of(pt, els)
        solver = Solver(pt)
        lim_rules = []
        seen = set()

        def harvest():
            # libm oracle: the squares StartLimitCurrent may have taken (from every recorded speed sample and the live one)
            for r in lim_rules:
                w0 = els[0].no_load_speed
                e = mkq(r['ilim']) / els[0].maximum_electric_current
                tach = els[r['tach']]
                samples = list(tach.time_variables['angular speed']) + ([tach.angular_speed] if tach.angular_speed is not None else [])
                for x in [e] + [sp / w0 for sp in samples]:
                    x = float(x)
                    if x not in seen and not math.isnan(x):
                        seen.add(x)
                        res['oracle'].append(['LSquare', x, x ** 2])
        ctl_cache = {}
        stop_cache = {}
        sens = {}
        try:
            for op in sc['ops']:
                if op[0] == 'run':
                    import json as _json
                    key = _json.dumps(op[3], sort_keys=True, default=str)
                    if key not in ctl_cache:                 # the same rule set is the same PWMControl object across runs, as in a user script
                        ctl_cache[key] = make_control(pt, els, op[3], sens)
                    ctl = ctl_cache[key]
                    if op[3]:
                        lim_rules += [r for r in op[3] if r['r'] == 'lim']
                    try:
                        skey = _json.dumps(op[4], sort_keys=True, default=str)
                        if skey not in stop_cache:           # the same stop condition is the same object across runs, as in a user script
                            stop_cache[skey] = make_stop(els, op[4], sens)
                        solver.run(time_discretization=mkq(op[1]), simulation_time=mkq(op[2]), motor_control=ctl, stop_condition=stop_cache[skey])
                    finally:
                        harvest()
                elif op[0] == 'reset':
                    before = history(pt, els)
                    pt.reset()
                    res['pre'].append(before)
                elif op[0] == 'newsolver':
                    solver = Solver(pt)
                elif op[0] == 'setinit':
                    els[-1].angular_position = mkq(op[1])
                    els[-1].angular_speed = mkq(op[2])
                elif op[0] == 'setpwm':
                    els[0].pwm = op[1]
                elif op[0] == 'setload':
                    els[-1].external_torque = make_load(op[1])
                elif op[0] == 'seteff':
                    add_gear_mating(master=els[op[1]], slave=els[op[1] + 1], efficiency=op[2])
                res['marks'].append(len(pt.time))
        except Timeout:
            raise
        except Exception as e:  # noqa
            n = type(e).__name__
            res['err'] = n if n in EXN else 'Other:' + n
            res['errmsg'] = str(e)[:200]
            import traceback as _tb
            res['errwhere'] = [f.name for f in _tb.extract_tb(e.__traceback__) if 'gearpy' in f.filename][-4:]
            try:
                res['part'] = history(pt, els, complete_instants(pt, els))
            except Exception:  # noqa
                res['part'] = []
        if res['err'] is None:
            res['rows'] = history(pt, els)
            res['locked'] = private_flag(solver)
        if keep_objects:
            res['objects'] = (pt, els, solver)
    except Timeout:
        res['err'] = 'Other:Timeout'
        # not an outcome of the code -- except that a run which has already recorded more instants than all its grids allow is a fact
        try:
            res['timeout_instants'] = len(pt.time) if pt is not None else 0
            res['allowed_instants'] = allowed_instants(sc)
        except Exception:  # noqa
            pass
    finally:
        signal.alarm(0)
    return res


# ------------------------------------------------------------------ emission
def cq(q):
    return f'(Qm K{q[0]} {flit(q[1])} {coq_str(q[2])})'


def cfu(x):
    return f'({flit(x[0])}, {coq_str(x[1])})'


def clist(xs):
    return '[' + '; '.join(xs) + ']'


def copt(x, f):
    return 'None' if x is None else f'(Some {f(x)})'


def crule(r):
    if r['r'] == 'const':
        return f'(@RConst FX {cq(r["start"])} {cq(r["dur"])} {flit(r["v"])})'
    if r['r'] == 'reach':
        return f'(@RReach FX {r["enc"]}%nat {cq(r["target"])} {cq(r["brake"])})'
    if r['r'] == 'prop':
        return f'(@RProp FX {r["enc"]}%nat {cq(r["target"])} {flit(r["mult"])} {copt(r["pmin"], flit)})'
    return f'(@RLim FX {r["enc"]}%nat {r["tach"]}%nat {cq(r["target"])} {cq(r["ilim"])})'


def cstop(s):
    sens = {'enc': lambda: f'(SEncoder {s["sensor"][1]}%nat)', 'tach': lambda: f'(STacho {s["sensor"][1]}%nat)', 'amp': lambda: 'SAmpere'}[s['sensor'][0]]()
    return f'(@Build_stopcond FX {sens} {cq(s["thr"])} Op{s["op"]})'


def cop(op):
    if op[0] == 'run':
        ctl = 'None' if op[3] is None else f'(Some {clist([crule(r) for r in op[3]])})'
        return f'(@SRun FX {cq(op[1])} {cq(op[2])} {ctl} {copt(op[4], cstop)})'
    if op[0] == 'reset':
        return '(@SReset FX)'
    if op[0] == 'newsolver':
        return '(@SNewSolver FX)'
    if op[0] == 'setinit':
        return f'(@SSetInit FX {cq(op[1])} {cq(op[2])})'
    return f'(@SSetPwm FX {flit(op[1])})'


def crow(r):
    cur = copt(r['cur'], cfu)
    return ('{| r_time := %s; r_pos := %s; r_spd := %s; r_acc := %s; r_tq := %s; r_dtq := %s; r_ltq := %s; r_pwm := %s; r_cur := %s |}'
            % (cfu(r['time']), *[clist([cfu(x) for x in r[k]]) for k in ('pos', 'spd', 'acc', 'tq', 'dtq', 'ltq')], flit(r['pwm']), cur))


def scales_of(res, n, sc=None, st=None):
    """per element and recorded variable, the largest finite magnitude gearpy recorded anywhere in the scenario; a net torque is a
    difference of driving and load torque and takes the larger of the three scales"""
    rows = list(res.get('rows') or []) + list(res.get('part') or [])
    for h in res.get('pre') or []:
        rows += h
    z = {k: [0.0] * n for k in ('pos', 'spd', 'acc', 'tq', 'dtq', 'ltq')}
    zc = 0.0
    for r in rows:
        for k in z:
            for i, x in enumerate(r[k][:n]):
                v = abs(x[0])
                if v == v and v != float('inf') and v > z[k][i]:
                    z[k][i] = v
        if r.get('cur') is not None:
            v = abs(r['cur'][0])
            if v == v and v != float('inf'):
                zc = max(zc, v)
    if sc is not None and st is not None:
        # the driving torque is (1 - w/w0) x maximum torque: near the no-load speed it is a small difference of large numbers, exact only
        # to rounding of the maximum torque (carried down the chain by efficiency x ratio); it is recorded in the maximum torque's unit
        g = abs(sc['motor']['Tmax'][1])
        gains = [g]
        for e in st['elems']:
            g = g * abs(e['eff'] * e['ratio'])
            gains.append(g)
        z['dtq'] = [max(a, b) for a, b in zip(z['dtq'], gains[:n])]
    z['tq'] = [max(a, b, c) for a, b, c in zip(z['tq'], z['dtq'], z['ltq'])]
    fl = lambda l: clist([flit(x) for x in l])  # noqa
    return (f'{{| z_pos := {fl(z["pos"])}; z_spd := {fl(z["spd"])}; z_acc := {fl(z["acc"])}; z_tq := {fl(z["tq"])}; '
            f'z_dtq := {fl(z["dtq"])}; z_ltq := {fl(z["ltq"])}; z_cur := {flit(zc)} |}}')


def case_coq(sc, res):
    m = sc['motor']
    st = res['static']
    motor = f'(@Build_motor FX {cq(m["w0"])} {cq(m["Tmax"])} {copt(m["i0"], cq)} {copt(m["imax"], cq)})'
    def cchain(elems_):
        el = clist([f'(@Build_elem FX {flit(e["ratio"])} {flit(e["eff"])} {cq(["InertiaMoment"] + e["J"])} {"true" if e["spur"] else "false"})' for e in elems_])
        return f'(@Build_chain FX {motor} {cq(m["J"])} {el} {"true" if st["selflock"] else "false"})'
    cur_elems = [dict(e) for e in st['elems']]
    chain = cchain(cur_elems)
    def cload(l):
        return f'(@LoadAffine FX {flit(l["c0"])} {flit(l["ct"])} {flit(l["cp"])} {flit(l["cs"])} {coq_str(l["u"])})'
    load = cload(sc['load'])
    cur_load = sc['load']
    segs, cur = [], []              # a new segment whenever the user re-declares the external torque or a mating's efficiency
    first_ops = None
    for o in sc['ops']:
        if o[0] in ('setload', 'seteff'):
            if first_ops is None:
                first_ops = cur
            else:
                segs[-1][2].extend(cur)
            if o[0] == 'setload':
                cur_load = o[1]
            else:
                cur_elems = [dict(e) for e in cur_elems]
                cur_elems[o[1]]['eff'] = float(o[2])
            segs.append([cchain(cur_elems), cur_load, []])
            cur = []
        else:
            cur.append(o)
    if first_ops is None:
        first_ops = cur
    else:
        segs[-1][2].extend(cur)
    more = clist([f'({c_}, {cload(l)}, {clist([cop(o) for o in ops])})' for c_, l, ops in segs])
    if res['err'] is None:
        exp = f'(EHist {clist([crow(r) for r in res["rows"]])} {"None" if res["locked"] is None else ("(Some true)" if res["locked"] else "(Some false)")})'
    elif res['err'].startswith('Other'):
        exp = f'(EErr OracleMiss {clist([crow(r) for r in res["part"]])})'
    else:
        exp = f'(EErr {res["err"]} {clist([crow(r) for r in res["part"]])})'
    zs = scales_of(res, len(sc['elems']) + 1, sc, st)
    return (f'{{| k_chain := {chain}; k_load := {load}; k_pos0 := {cq(sc["pos0"])}; k_spd0 := {cq(sc["spd0"])}; '
            f'k_ops := {clist([cop(o) for o in first_ops])}; k_more := {more}; '
            f'k_pre := {clist([clist([crow(r) for r in h]) for h in res["pre"]])}; k_scales := {zs}; k_expect := {exp} |}}')


HEADER = """From Coq Require Import ZArith String List PrimFloat.
From GP Require Import ArithDef FloatUtil UnitsCore PyUnits QOps Motor Solver SolverCorr.
Import ListNotations. Open Scope string_scope."""


def header_with_oracle(entries):
    o = clist([f'({fn}, {flit(a)}, {flit(r)})' for fn, a, r in entries])
    return HEADER + f"""
Definition O : oracle := {o}.
Notation FX := (FA O).
Definition Qm (k : kind) (v : float) (u : string) : qty FX := @Build_qty FX k v u."""


DEFINE = "Definition cases : list (scase O) :="
EVALUATOR = "failing O cases"
