#!/usr/bin/env python3
"""Writes MANIFEST.json from the table below (kept in one place so that the manifest is always valid)."""
import json, os
HERE = os.path.dirname(os.path.abspath(__file__))
VERIF = os.path.dirname(HERE)
BASE = json.load(open('/root/.vp/BASELINE.json'))['cmd'].replace('--junitxml=<file>', '').strip()

CLAIMED = {
 'C05': dict(
   text='Machine-checked theorems (Coq 8.16) about the description of gearpy/units REGENERATED from the source on every run: every unit factor equals its hand-written SI definition (reflection over all 75 table entries), conversion keeps the SI magnitude for every kind/unit pair/value, copy = in-place, round trip is the identity, and the closed form of all six comparisons as a function of SI magnitudes (exact outside the tolerance band, symmetric well inside it). The full unit-blindness clause is refuted on the unchanged tree (finding D5) and kept as _partial + _refuted.',
   note='Theorems are over the reals (rounding of the binary64 run is not bounded, only measured by the bit-exact correspondence of the generated description against the real classes on ~6500 cases per run). Trusted: Coq kernel + vm_compute, translate.py, PyUnits.v (Python semantics of the generated description), stdlib real-number axioms and Classical_Prop.classic as listed by Print Assumptions.',
   technique='Coq proof over translator-regenerated model (reflection + field); bit-exact vm_compute correspondence', ref='6 C05'),
 'C06': dict(
   text='Machine-checked sweep over all 13x13 kind pairs (and numbers) of the regenerated description, units and values symbolic: every operation that returns has the kind of the hand-written dimension table and an SI magnitude equal to the product/quotient/sum/difference of the operands; (a+b)-b = a for every pair; a-b = -(b-a) and the subtraction rule for every pair except the two call sites of finding D6 (proved to add), kept as _partial + _refuted.',
   note='Real-number theorems; SI magnitude is defined through the code\'s own factors, identified with the SI definitions by C06_si_is_SI. Float rounding is covered only by the bit-exact correspondence. Same trusted base as C05.',
   technique='Coq proof by uniform tactic sweep over translator-regenerated method tables; bit-exact correspondence', ref='6 C06'),
 'C19': dict(
   text='Machine-checked: every quantity any method returns is built by the constructor (generic in the arithmetic and in the description), the regenerated constructor enforces exactly the hand-written sign constraints, in-place conversion preserves validity because every generated factor is positive, hence after any straight-line program of construct/+/-/*/ / /abs/neg/to/to-in-place of any length every live object is valid. Component-constructor clause: see level_note.',
   note='Quantity part proved over the reals (binary64 underflow of an in-place conversion to 0.0 is outside the theorem and stated). The component-constructor clause (motor/gear parameter validation) is covered by the constructor model when claimed there; until then it is exercised only by the search oracle. Same trusted base as C05.',
   technique='Coq proof (structural induction over programs) over translator-regenerated model; bit-exact correspondence', ref='6 C19'),
}
PENDING = {}
ALL = ['C%02d' % i for i in range(1, 21)]

def main():
    checks = []
    for pid in ALL:
        if pid not in CLAIMED:
            continue
        c = CLAIMED[pid]
        checks.append(dict(
            property_id=pid,
            quick_cmd=f'./check {pid} --tier quick',
            thorough_cmd=f'./check {pid} --tier thorough',
            evidence_file=f'/verif/evidence/{pid}.json',
            replay_cmd_template=f'./check {pid} --replay {{path}}',
            engine='coq-proofs+correspondence',
            level_claimed=dict(category='proof', text=c['text'], design_ref='DESIGN.md section ' + c['ref']),
            level_note=c['note'], technique=c['technique']))
    na = [dict(property_id=p, reason=PENDING.get(p, 'not yet claimed: the model part for this property is still being built (see DESIGN.md section 10); no technique other than Coq proof is used')) for p in ALL if p not in CLAIMED]
    m = dict(
        version=1,
        setup_cmd='./setup.sh',
        hooks=dict(guard='GEARPY_VERIF', enable='none needed: all observations go through public attributes', baseline_off_cmd=BASE, source_commits=[], add_only=True),
        engines=[dict(name='coq-proofs+correspondence', path='coq/ harness/', serves_properties=sorted(CLAIMED), kind_free_text='Coq 8.16 development (model + theorems); Python translator regenerating coq/gen from /repo; bit-exact differential harness evaluating the model with vm_compute')],
        checks=checks,
        notes='See DESIGN.md. Known findings: known_findings.json. Seeded changes: seeded/.',
        not_applicable=na)
    json.dump(m, open(os.path.join(VERIF, 'MANIFEST.json'), 'w'), indent=1)
    print('claimed', sorted(CLAIMED), 'not claimed', [x['property_id'] for x in na])

if __name__ == '__main__':
    main()
