#!/usr/bin/env python3
"""Writes MANIFEST.json from the table below (kept in one place so that the manifest is always valid)."""
import json, os
HERE = os.path.dirname(os.path.abspath(__file__))
VERIF = os.path.dirname(HERE)
BASE = json.load(open('/root/.vp/BASELINE.json'))['cmd'].replace('--junitxml=<file>', '').strip()

CLAIMED = {
 'C05': dict(
   text='Machine-checked theorems (Coq 8.16) about the description of gearpy/units REGENERATED from the source on every run: every unit factor equals its hand-written SI definition (reflection over all 75 table entries), conversion keeps the SI magnitude for every kind/unit pair/value, copy = in-place, round trip is the identity, and the closed form of all six comparisons as a function of SI magnitudes (exact outside the tolerance band, symmetric well inside it). The full unit-blindness clause is refuted on the unchanged tree (finding D5) and kept as _partial + _refuted.',
   note='Theorems are over the reals (rounding of the binary64 run is not bounded, only measured by the bit-exact correspondence of the generated description against the real classes on ~6500 cases per run). Trusted: Coq kernel + vm_compute, translate.py, PyUnits.v (Python semantics of the generated description), stdlib real-number axioms and Classical_Prop.classic as listed by Print Assumptions.',
   technique='Coq proof over translator-regenerated model (reflection + field); bit-exact vm_compute correspondence', ref='6 C05'),
 'C06': dict(
   text='Machine-checked sweep over all 13x13 kind pairs (and numbers) of the regenerated description, units and values symbolic: every operation that returns has the kind of the hand-written dimension table and an SI magnitude equal to the product/quotient/sum/difference of the operands; (a+b)-b = a for every pair; a-b = -(b-a) and the subtraction rule for every pair except the two call sites of finding D6 (proved to add), kept as _partial + _refuted.',
   note='Real-number theorems; SI magnitude is defined through the code\'s own factors, identified with the SI definitions by C06_si_is_SI. Float rounding is covered only by the bit-exact correspondence. Same trusted base as C05.',
   technique='Coq proof by uniform tactic sweep over translator-regenerated method tables; bit-exact correspondence', ref='6 C06'),
 'C19': dict(
   text='Machine-checked: every quantity any method returns is built by the constructor (generic in the arithmetic and in the description), the regenerated constructor enforces exactly the hand-written sign constraints, in-place conversion preserves validity because every generated factor is positive, hence after any straight-line program of construct/+/-/*/ / /abs/neg/to/to-in-place of any length every live object is valid. Component-constructor clause: see level_note.',
   note='Quantity part proved over the reals (binary64 underflow of an in-place conversion to 0.0 is outside the theorem and stated). The component-constructor clause (motor/gear parameter validation) is covered by the constructor model when claimed there; until then it is exercised only by the search oracle. Same trusted base as C05.',
   technique='Coq proof (structural induction over programs) over translator-regenerated model; bit-exact correspondence', ref='6 C19'),
}

SOLVER_NOTE = ('Theorems are about the hand-written Gallina model coq/Solver.v (generic in the arithmetic record, so they hold of the binary64 '
  'instance too); the model is tied to gearpy by evaluating that instance with vm_compute on generated scenarios (chains of 2-8 elements, all units, '
  'loads in time/position/speed, rule sets, stop conditions, run/continue/reset/new-solver schedules) and comparing every recorded value bit for bit; '
  'the first differing field decides which properties a disagreement concerns. Modelled, not verified: exceptions raised mid-run leave no partial state '
  '(only the exception class is compared); external load on the last element only; libm pow as an oracle table. SI-level ("up to rounding") readings of the '
  'generic equations follow from the C06 theorems; rounding of the binary64 run is measured, not bounded.')
CLAIMED.update({
 'C01': dict(text='Machine-checked invariant over every reachable state of the solver model (any chain, load function, rule set, schedule of run/continue/early stop/reset/new solver/duty-cycle change): at every recorded instant positions of adjacent elements are linked by ratio * downstream, and speeds and accelerations are either linked the same way or the instant is held and all are the zero constants.', note=SOLVER_NOTE,
   technique='Coq proof (invariant by induction over operation sequences, generic in arithmetic); bit-exact vm_compute correspondence', ref='6 C01'),
 'C02': dict(text='Machine-checked for every reachable recorded instant: the motor driving torque is the motor law at the RECORDED speed and duty cycle, downstream driving torques are (driver * efficiency) * ratio, the last load torque is the load function at that instant\'s time and the recorded position/speed, upstream load torques are (follower / efficiency) / ratio, net = driving - load element by element.', note=SOLVER_NOTE,
   technique='Coq proof (order-of-sub-steps inversion of the instant pipeline + induction over histories); bit-exact correspondence', ref='6 C02'),
 'C03': dict(text='Machine-checked: at every non-held reachable instant the last element\'s acceleration is net torque / equivalent inertia (the documented left-fold reduction); any two consecutive recorded instants are related by speed += previous acceleration * dt, position += advanced speed * dt, recorded speed = advanced speed unless the newer instant is held (then the zero constant); across continued runs, never spanning a reset.', note=SOLVER_NOTE,
   technique='Coq proof (history invariant with ghost provenance, induction over operation sequences); bit-exact correspondence', ref='6 C03'),
 'C11': dict(text='Machine-checked: a run appends exactly the instants t0 + k*dt, k = 1..round(T/dt) (a prefix with a stop condition), t0 = 0 for a fresh simulation and the previous final instant in dt\'s unit for a continued one; over the reals consecutive instants are exactly dt apart, the last is t0 + n*dt and none exceeds it, and round of an exact integer quotient is that integer. Long decimal grids (thousands of steps) are compared with gearpy through run_grid.', note=SOLVER_NOTE + ' The theorem is about the count-based grid introduced by the fix commits for D1/D2; binary64 rounding of T/dt near a half-integer is outside the real-number statement and covered by the exact-rational search oracle.',
   technique='Coq proof (loop/run specification, grid lemmas over R); bit-exact correspondence incl. long grids', ref='6 C11'),
 'C12': dict(text='Machine-checked: stepping over concatenated grids equals stepping over them in sequence, hence run(T1); continue(T2) with the same step equals run(T1+T2) as whole states whenever the grids concatenate; reset, optionally a new Solver, re-applying the initial position and speed, and the same run reproduce the original history in every observable field of every instant together with the live values and the lock flag, for every chain, load, rule set, stop condition, dt and T, provided the duty cycle recorded at instant 0 (which reset restores) is the one the run started from; without that proviso the statement is refuted by finding D4 (witness evaluated in the model). Cross-unit continuation is _partial (correspondence + exact metamorphic search).', note=SOLVER_NOTE,
   technique='Coq proof (fold concatenation, state equality, simulation relation between run and rerun) + refuted witness by vm_compute; bit-exact correspondence on schedules incl. the histories at every reset; metamorphic search', ref='6 C12'),
 'C13': dict(text='Machine-checked for every reachable recorded instant: without a self-locking mating the flag is never set; duty cycle in force zero => held; held => all speeds and accelerations are the zero constants; not held => motor speed not below (above) zero for positive (negative) duty cycle in force; a release happens only when the previously recorded motor net torque has the strict sign of the duty cycle in force; over the reals, the instant following a held instant records the same output position in SI (positions stay constant while held), for any units and step.', note=SOLVER_NOTE + ' "Duty cycle in force" is the motor attribute at the lock test (previous recorded value or the user-set one), the reading under which the property can hold. The self-locking flag of the powertrain is an input of this model; its derivation from friction and geometry is C10/C20.',
   technique='Coq proof (case analysis of the lock decision + history invariant); bit-exact correspondence incl. the private flag', ref='6 C13'),
 'C14': dict(text='Machine-checked: arbitration returns the default 1 with no proposal, the saturated proposal with exactly one, ValueError with two or more; the duty cycle recorded at a controlled instant is that arbitration of the proposals at that instant; every recorded duty cycle of every reachable state passes the setter\'s range test -1 <= p <= 1 (so in binary64 it is not NaN).', note=SOLVER_NOTE + ' About the setter as repaired by the D10 fix commit.',
   technique='Coq proof (case analysis + invariant over operation sequences); bit-exact correspondence on rule sets', ref='6 C14'),
 'C16': dict(text='Machine-checked by induction over the stepping loop with early exit: the comparison is false at every earlier computed instant, true at the last recorded one whenever fewer instants than the grid were recorded, nothing is recorded after it, and the first instant of a fresh simulation is not tested; the comparison is the generated quantity comparison of the sensor reading of the just-recorded instant with the threshold.', note=SOLVER_NOTE,
   technique='Coq proof (induction over the grid fold with exit); bit-exact correspondence with stop conditions', ref='6 C16'),
})

CLAIMED.update({
 'C08': dict(text='Machine-checked over the reals, for motor constants in any units: the model of compute_torque returns a Torque in Tmax\'s unit whose SI magnitude is exactly the documented characteristic (three branches, exactly 0 in the dead zone; Tmax(1-w/w0) without current data); the model of compute_electric_current returns D*imax inside the dead zone and (imax-i0)T/Tmax +- i0 outside, proved equal to the documented (D*imax-i0)T/Tmax(D)+i0; corollaries: standstill and no-load values at D=1, exact odd symmetry, continuity across the dead-zone boundary for i0>0 (explicit Lipschitz bound).',
   note='Model = coq/Motor.v (hand-written, generic in the arithmetic), tied to DCMotor by bit-exact comparison on 3000 (quick) generated (motor, speed, duty cycle) cases incl. the dead-zone boundary and its +-1..3-ulp neighbours. Real-number theorems; the binary64 overflow at subnormal duty cycles with i0 = 0 is recorded as finding D15. For i0 = 0 the documented law itself is discontinuous at D = 0 (remark in Properties/C08.v).',
   technique='Coq proof over R (algebra through the regenerated quantity layer); bit-exact vm_compute correspondence', ref='6 C08'),
 'C10': dict(text='Machine-checked, generic in the arithmetic: what an accepted gear mating / worm mating / fixed joint sets (mutual links, roles, ratio = slave count / master count or exactly 1, efficiency given or the friction formula of the driving side, self-locking flag = f > cos(alpha)*tan(beta)), that acceptance implies efficiency within [0,1] and ratio > 0, and the frame property (other elements and all constructor data unchanged, for any sequence of calls). Over the reals: cos/tan are those of the angle in radians whatever its unit; the worm efficiency is in range iff f*tan(beta) <= cos(alpha).',
   note='Model = coq/Relations.v, tied to gearpy.utils.relations by bit-exact comparison of the full public link state of every element after every call of generated declaration histories, failing calls included (that is what checks "a rejected call leaves both elements unmodified": in the functional model a raising call returns no state). libm cos/tan as oracle tables. About add_worm_gear_mating as repaired by the D9 fix commit.',
   technique='Coq proof (inversion of the declaration functions, frame lemmas); bit-exact state correspondence on call histories', ref='6 C10'),
 'C20': dict(text='Machine-checked, generic in the arithmetic: a successful construction returns exactly the drives-path from the motor in order, of length >= 2, with pairwise distinct names, and the flag existsb(worm with self-locking flag); conversely every finite acyclic drive chain with unique names is accepted and returned as it is; the motor driving nothing gives ValueError, a repeated name NameError. A cyclic drives graph exhausts the model\'s fuel (the Python loop does not terminate): excluded by hypothesis, as the property quantifies over chains.',
   note='Model = assemble in coq/Relations.v over the link state produced by the declaration model; tied to Powertrain.__init__ on declaration histories that re-route the chain, with duplicate names and several worm stages. Immutability of the Python attributes is checked on the implementation by the driver.',
   technique='Coq proof (fuelled walk: soundness and completeness, pigeonhole for the fuel bound); bit-exact correspondence on histories', ref='6 C20'),
})

CLAIMED.update({
 'C17': dict(text='Machine-checked: every run appends one recorded snapshot per computed grid instant and nothing else; in every recorded snapshot of every reachable state (any schedule of runs, continuations, early stops, resets, new solvers) each per-element variable has exactly one sample per element; the finite model of which optional keys (tangential force, bending/contact stress, electric current, pwm) an element advertises and which ones an instant appends to agree for every element kind, optional-data subset, role and mate data except the single cell of finding D13 (proved to differ: _partial + _refuted).',
   note='History layer: coq/Solver.v tied by the bit-exact solver correspondence. Key layer: coq/Keys.v (finite, no arithmetic) tied by comparing, for ~1400 element configurations per quick run, the keys after construction, the keys after a run and the keys holding one sample per instant, and whether the run raises. Sample kinds and "last sample equals the live attribute", snapshot and export are checked on the implementation by the search oracle after every operation of generated schedules (not modelled). Runs that raise mid-instant leave time one longer than the samples: outside the statement (it quantifies over runs that return), remarked in DESIGN.md.',
   technique='Coq proof (history invariant + exhaustive case analysis of the finite key model); bit-exact correspondence; implementation oracle', ref='6 C17'),
})

CLAIMED.update({
 'C09': dict(text='Machine-checked over the reals: the regenerated Lewis table is strictly increasing; on such a table the interpolation equals the tabulated value at every knot, lies on the chord between adjacent knots and is clamped outside, for EVERY real argument (hence every teeth number, without bound); the model\'s tangential force is |reference torque|/(d/2) with d = teeth*module, load torque for the master and driving torque for the slave, for any units; the code\'s bending, contact (Hertz) and virtual-teeth expressions are proved algebraically equal to the documented ones. The bending stress of spur and helical gears and the contact stress of a spur gear are carried step by step through the regenerated quantity layer (inputs in any units; result a Stress of the documented SI magnitude). _partial: the worm wheel\'s bending stress and the helical gear\'s contact stress (bit-exact correspondence + documented-formula oracle).',
   note='Model = coq/Gears.v over the REGENERATED CSV tables (translator), tied to gearpy by bit-exact comparison of ~2500 formula evaluations per quick run (all teeth numbers 10..559, every optional-data subset, both roles, the four worm pressure angles, helix angles in [0,90), torques of either sign; libm sin/cos/tan/atan/pow as oracle tables whose ARGUMENTS are computed by the model). Flags and the mate-lacks-data ValueError: Keys.v (C17) and Gears.contact_stress, compared in the same runs.',
   technique='Coq proof over R (interpolation lemmas on the regenerated table, algebra through the regenerated quantity layer); bit-exact correspondence', ref='6 C09'),
})

CLAIMED.update({
 'C15': dict(text='Machine-checked over the reals, for rule parameters in any units: ConstantPWM proposes its constant exactly while t >= start and t - start <= duration (as the quantity comparisons see it); ReachAngularPosition proposes 1 - (theta - theta_s)/theta_b with theta_s = target - theta_b + (T_load/T_max)/eta_t*theta_b; StartLimitCurrent, while theta <= target, proposes D = (s + e + sqrt(s^2 + e^2 + 2s(ilim - 2 i0)/imax))/2, proved to be a root of imax D^2 - (imax s + ilim) D + i0 s = 0, from which the documented motor law (C08) yields exactly the limit current at (D, w) outside the dead zone. StartProportionalToAngularPosition, while theta <= target, proposes pm + (1 - pm) theta/target with pm = multiplier*((1/eta_t)(T_l/T_max)((imax - i0)/imax) + i0/imax) computed from the FIRST instant\'s motor load torque, the user\'s fallback being used exactly when that value is zero.',
   note=SOLVER_NOTE + ' Rules are stateless functions of the instant\'s view in the model; the correspondence runs controlled simulations that reuse one controller object across reset with a re-declared load, so hidden state in a rule object shows up as a disagreement. eta_t multiplies the efficiencies of SpurGear instances only (a worm driven by its wheel is skipped), as the code does; the documentation is ambiguous there (remark D12 in DESIGN.md).',
   technique='Coq proof over R (algebra through the regenerated quantity layer, quadratic-root identity); bit-exact correspondence on controlled runs', ref='6 C15'),
})

CLAIMED.update({
 'C18': dict(text='Machine-checked: a snapshot\'s columns are exactly the requested variables (all recorded ones when none is given), each once, in the fixed order, labelled with the requested units; a filled cell is the interpolation over the instants in seconds of the element\'s recorded samples converted to the requested unit and an empty cell is a variable the element does not record (generic in the arithmetic); over the reals the interpolation returns the recorded converted sample at every recorded instant and the chord of the two neighbouring samples in between; the exported table has the time column in the requested unit and one column per recorded key in dictionary order with one value per recorded instant.',
   note='Model = coq/Report.v, run on the history gearpy itself recorded (the recorded data is the common input) and compared with gearpy\'s own snapshot DataFrame and re-read CSV: column names, row names, every cell bit for bit, exception classes; histories include self-locking runs whose speed samples are recorded in mixed units, and the requested unit is often the unit of the first sample. scipy interp1d (= numpy.interp for this data) is re-implemented and compared, not verified; pandas only carries the values (CSV re-read with the round-trip float parser). About snapshot as repaired by the D14 fix commit; export of the D13 configuration raises (known finding).',
   technique='Coq proof (inversion of the report functions; interpolation lemmas over R); bit-exact correspondence on recorded histories', ref='6 C18'),
})

CLAIMED.update({
 'C04': dict(text='Machine-checked in three layers: (1) 0 <= e^{-kx} - (1-x)^k <= (2/5)x for every k and 0 < x <= 1/5 (mean-value theorem via Coquelicot, no interval arithmetic); (2) the explicit recurrence the solver performs on w\' = A - kap w stays within (2/5) kap dt |w0 - w_inf| in speed and dt |w0 - w_inf| in position of the exponential closed form at every instant, for every step count; (3) refinement: every never-held history of the solver model at constant duty cycle above the dead zone (motor with current data), constant step and constant load has the SI speed and position of its output element EQUAL to that recurrence, with A and kap explicit in ratios, efficiencies, inertias, motor constants and load, for chains of any length and any units - hence the model\'s own trajectory satisfies the bound.',
   note=SOLVER_NOTE + ' Not covered by the refinement (partial there, left to the correspondence and to the dt/2, dt/4 search on the implementation): motors without current data, negative duty cycles, and the two-sided "error roughly halves" statement (only the O(dt) upper bound is a theorem; the halving ratio is measured by the search). Axioms: the standard real-number axioms and Classical_Prop.classic (Coquelicot).',
   technique='Coq proof (real analysis with Coquelicot + refinement of the solver model to the linear recurrence by induction over histories); bit-exact correspondence; convergence search on the implementation', ref='6 C04'),
})

CLAIMED.update({
 'C07': dict(text='_partial by design of what could be mechanised: machine-checked over the reals that every operation of the regenerated quantity layer the models use (number*quantity, quantity*number, /number, +, -, quantity*quantity, quantity/quantity, same-kind ratio, conversion) is a congruence for "same kind family and same SI magnitude", that every comparison gives the same answer for re-expressed operands whenever the SI magnitudes differ by more than the tolerance band of the larger unit (the formal content of the property\'s exclusion clause), and that the motor law, the step count of a run and the cos/tan of an angle depend on SI magnitudes only. Whole runs: in the regime where the solver model is proved to be the Euler recurrence (never held, constant duty cycle above the dead zone, constant step and load; any chain, units and schedule) two descriptions of the same system record output speeds and positions of equal SI magnitude at every instant (C07_whole_run_partial). Outside that regime the lifting through a whole run is not mechanised.',
   note='Whole-run coverage comes from (a) the bit-exact correspondences of all four model families (solver, motor, relations, gears), whose generators draw every input quantity in a random unit of its kind (so unit-dependent behaviour of the code that the unit-faithful models do not share is a disagreement; this is how D1/D2/D7 were found before they were repaired), and (b) the metamorphic search on the implementation: all input quantities of a scenario re-expressed in other units (unit lists cycled), SI outputs compared at 1e-6 relative, pairs with a discrete decision within rounding of its threshold skipped. Known finding D5 (absolute comparison tolerance in the left unit) makes equal helix angles / modules in different units compare as different: reported as KNOWN-FINDING, not repaired.',
   technique='Coq proof of SI-congruence of the regenerated quantity layer and of formula-level components; bit-exact correspondences with random units; metamorphic search', ref='6 C07'),
})

PENDING = {}
ALL = ['C%02d' % i for i in range(1, 21)]

def main():
    checks = []
    for pid in ALL:
        if pid not in CLAIMED:
            continue
        c = CLAIMED[pid]
        checks.append(dict(
            property_id=pid,
            quick_cmd=f'./check {pid} --tier quick',
            thorough_cmd=f'./check {pid} --tier thorough',
            evidence_file=f'/verif/evidence/{pid}.json',
            replay_cmd_template=f'./check {pid} --replay {{path}}',
            engine='coq-proofs+correspondence',
            level_claimed=dict(category='proof', text=c['text'], design_ref='DESIGN.md section ' + c['ref']),
            level_note=c['note'], technique=c['technique']))
    na = [dict(property_id=p, reason=PENDING.get(p, 'not yet claimed: the model part for this property is still being built (see DESIGN.md section 10); no technique other than Coq proof is used')) for p in ALL if p not in CLAIMED]
    m = dict(
        version=1,
        setup_cmd='./setup.sh',
        hooks=dict(guard='GEARPY_VERIF', enable='none needed: all observations go through public attributes', baseline_off_cmd=BASE, source_commits=[], add_only=True),
        engines=[dict(name='coq-proofs+correspondence', path='coq/ harness/', serves_properties=sorted(CLAIMED), kind_free_text='Coq 8.16 development (model + theorems); Python translator regenerating coq/gen from /repo; bit-exact differential harness evaluating the model with vm_compute')],
        checks=checks,
        notes='See DESIGN.md. Known findings: known_findings.json. Seeded changes: seeded/.',
        not_applicable=na)
    json.dump(m, open(os.path.join(VERIF, 'MANIFEST.json'), 'w'), indent=1)
    print('claimed', sorted(CLAIMED), 'not claimed', [x['property_id'] for x in na])

if __name__ == '__main__':
    main()
