#!/venv/bin/python
"""./check Cxx [--tier quick|thorough] [--replay file]

One run = (1) regenerate coq/gen from /repo and build the property's theorems, (2) run the correspondence families the
property depends on against /repo's working tree, (3) if an obligation or the tie broke, search the implementation for a
concrete failing input, (4) replay the recorded findings, (5) write evidence.  See DESIGN.md section 4."""
import argparse
import importlib
import json
import os
import random
import re
import subprocess
import sys
import time
import traceback

HERE = os.path.dirname(os.path.abspath(__file__))
sys.path.insert(0, HERE)
import lib  # noqa: E402

sys.path.insert(0, lib.REPO)

FAMILY = {
    'C05': 'fam_quantity', 'C06': 'fam_quantity', 'C19': 'fam_c19',
    'C01': 'fam_solver', 'C02': 'fam_solver', 'C03': 'fam_solver', 'C04': 'fam_solver', 'C11': 'fam_solver', 'C12': 'fam_solver',
    'C13': 'fam_solver', 'C14': 'fam_solver', 'C15': 'fam_solver', 'C16': 'fam_solver',
    'C08': 'fam_motor', 'C10': 'fam_rel', 'C20': 'fam_rel', 'C17': 'fam_keys', 'C09': 'fam_gear', 'C18': 'fam_report', 'C07': 'fam_c07',
}

NEEDS_TRANSLATION = {'C05', 'C06', 'C19', 'C07', 'C09'}

TRUSTED = [
    'Coq 8.16.1 kernel incl. vm_compute and primitive floats/ints (no native_compute)',
    'harness/translate.py (fail-closed ast translator) and coq/PyUnits.v (meaning of the generated description)',
    'correspondence harness (drivers, case writers) and the quality of its generators',
    'CPython float = IEEE binary64; libm sin/cos/tan/atan/pow as oracle tables; numpy/scipy/pandas re-implemented, not verified',
    'rounding gap between the binary64 instance and the real-number theorems is measured, not bounded',
]


def prop_text(pid):
    for l in open(os.path.join(lib.VERIF, 'properties.jsonl')):
        p = json.loads(l)
        if p['id'] == pid:
            return p
    raise SystemExit(f'unknown property {pid}')


def theorem_names(vfile):
    names = []
    for i, l in enumerate(open(vfile), 1):
        m = re.match(r'\s*(Theorem|Example|Lemma|Corollary)\s+(\w+)', l)
        if m:
            names.append((m.group(2), i))
    return names


def hygiene():
    """no Admitted / admit / Axiom / Parameter / disabled checks anywhere in coq/"""
    bad = []
    pat = re.compile(r'\b(Admitted|admit|Axiom|Axioms|Parameter|Parameters|Conjecture|Hypothesis|Variable|Variables|Hypotheses)\b|Unset Guard|bypass_check|Admit Obligations|-type-in-type')
    for root, _, files in os.walk(lib.COQ):
        for f in files:
            if not f.endswith('.v'):
                continue
            depth = 0
            for i, l in enumerate(open(os.path.join(root, f)), 1):
                code = re.sub(r'\(\*.*?\*\)', '', l)
                if re.match(r'\s*Section\b', code):
                    depth += 1
                if re.match(r'\s*End\b', code) and depth:
                    depth -= 1
                m = pat.search(code)
                if m:
                    w = m.group(0)
                    if w in ('Variable', 'Variables', 'Hypothesis', 'Hypotheses') and depth > 0:
                        continue
                    if w in ('Variable', 'Variables', 'Hypothesis', 'Hypotheses', 'Parameter', 'Parameters') and re.match(r'\s*Context\b', code):
                        continue
                    bad.append(f'{f}:{i}: {l.strip()[:100]}')
    return bad


def build_property(pid):
    """returns dict: ok, obligations, discharged, broken (list of str), assumptions, log"""
    res = dict(ok=False, obligations=[], discharged=[], broken=[], assumptions='', log='', translator='ok')
    ok, msg = lib.translate()
    if not ok:
        # the units/tables source has left what the translator can read (even after its meaning-preserving normalisations).  The
        # theorems are then checked over the description PINNED at the known tree (coq/gen_pinned), and the tie to the code as it is now
        # is the correspondence alone: for the properties that only USE the quantity layer, their own (quantities in random units); for
        # the properties ABOUT the units source (C05 C06 C19 C07 C09), the quantity correspondence at several times its usual volume
        # (every ordered pair of operand classes x every operation, every ordered unit pair of every kind, every comparison, constructors,
        # in-place conversions; values sampled) -- a disagreement there is a broken tie as for any hand-written model.
        for f in ('UnitsGen.v', 'TablesGen.v'):
            src = open(os.path.join(lib.COQ, 'gen_pinned', f + '.txt')).read()
            dst = os.path.join(lib.COQ, 'gen', f)
            if not os.path.exists(dst) or open(dst).read() != src:
                os.makedirs(os.path.dirname(dst), exist_ok=True)
                open(dst, 'w').write(src)
        res['translator'] = 'FAILED, pinned description used: ' + msg[:300]
        if pid in NEEDS_TRANSLATION:
            os.environ['VERIF_BOOST'] = str(max(6, int(os.environ.get('VERIF_BOOST', '1') or 1)))
        ok = True
    if not ok:
        res['translator'] = msg
        res['broken'].append(f'translator: {msg[:400]}')
    target = f'Properties/{pid}.v'
    vfile = os.path.join(lib.COQ, target)
    names = theorem_names(vfile)
    res['obligations'] = [n for n, _ in names]
    bad = hygiene()
    if bad:
        res['broken'].append('hygiene: ' + '; '.join(bad[:5]))
        return res
    if not ok:
        return res
    with lib.Lock('coq-build'):
        if not os.path.exists(os.path.join(lib.COQ, 'Makefile')) or \
                os.path.getmtime(os.path.join(lib.COQ, 'Makefile')) < os.path.getmtime(os.path.join(lib.COQ, '_CoqProject')):
            subprocess.run(['coq_makefile', '-f', '_CoqProject', '-o', 'Makefile'], cwd=lib.COQ, check=True, capture_output=True)
        # the correspondence evaluators (models only, no proofs) must be rebuilt against the regenerated description too
        subprocess.run(['timeout', '1500', 'make', '-k', f'-j{lib.NPROC}', 'QuantityCorr.vo', 'SolverCorr.vo', 'RelCorr.vo', 'CompCorr.vo'], cwd=lib.COQ, capture_output=True, text=True)
        # dependencies first (parallel), then the property file itself with its output captured
        deps = subprocess.run(['make', '-s', '-f', 'Makefile', '--no-print-directory', target + 'o', '-n'], cwd=lib.COQ, capture_output=True, text=True)
        p = subprocess.run(['timeout', '1500', 'make', '-k', f'-j{lib.NPROC}', target + 'o'], cwd=lib.COQ, capture_output=True, text=True)
        log = p.stdout + p.stderr
        res['log'] = log[-4000:]
        if p.returncode != 0:
            m = re.search(r'File "\./([^"]+)", line (\d+), characters[^\n]*\n(.*?)(?:\nmake|\Z)', log, re.S)
            if m:
                f, line, err = m.group(1), int(m.group(2)), m.group(3).strip()
                where = enclosing(os.path.join(lib.COQ, f), line)
                res['broken'].append(f'{f}:{line} ({where}): {err[:300]}')
                if f == target:
                    res['discharged'] = [n for n, ln in names if ln < line and n != where]
            else:
                res['broken'].append('build failed: ' + log[-400:])
            return res
        # re-run the property file alone to capture Print Assumptions
        q = subprocess.run(['timeout', '600', 'coqc', '-Q', '.', 'GP', target], cwd=lib.COQ, capture_output=True, text=True)
        if q.returncode != 0:
            res['broken'].append(f'{target}: ' + (q.stdout + q.stderr)[-400:])
            return res
        res['assumptions'] = summarize_assumptions(q.stdout)
    res['ok'] = True
    res['discharged'] = list(res['obligations'])
    return res


def changed_sources(prop):
    """files the property is anchored in whose content differs from fingerprints.json (the pinned tree)"""
    import hashlib
    try:
        fp = json.load(open(os.path.join(lib.VERIF, 'fingerprints.json')))['files']
    except Exception:  # noqa
        return []
    out = []
    for f in prop.get('anchors', {}).get('files', []):
        p = os.path.join(lib.REPO, f)
        try:
            h = hashlib.sha256(open(p, 'rb').read()).hexdigest()
        except OSError:
            h = None
        if fp.get(f) != h:
            out.append(f)
    return out


def enclosing(path, line):
    last = '?'
    try:
        for i, l in enumerate(open(path), 1):
            if i > line:
                break
            m = re.match(r'\s*(Theorem|Example|Lemma|Corollary|Definition|Fixpoint)\s+(\w+)', l)
            if m:
                last = m.group(2)
    except OSError:
        pass
    return last


def summarize_assumptions(out):
    ax = set()
    for l in out.splitlines():
        m = re.match(r"^([A-Za-z_][\w.']*)(\s*:.*)?$", l)
        if m and not l.startswith(' ') and m.group(1) not in ('Axioms', 'Closed'):
            ax.add(m.group(1))
    closed = 'Closed under the global context' in out
    prim = sorted(a for a in ax if a.startswith('Prim') or a in ('float', 'sqrt', 'opp', 'abs', 'of_uint63', 'normfr_mantissa', 'frshiftexp', 'ldshiftexp', 'classify', 'next_up', 'next_down', 'compare'))
    other = sorted(a for a in ax if a not in prim)
    return dict(axioms=other, primitives=prim, some_closed=closed)


def main():
    ap = argparse.ArgumentParser()
    ap.add_argument('pid')
    ap.add_argument('--tier', default=os.environ.get('VERIF_TIER', 'quick'))
    ap.add_argument('--replay')
    args = ap.parse_args()
    pid = args.pid
    os.environ['VERIF_PID'] = pid
    tier = 'thorough' if args.tier == 'thorough' else 'quick'
    seed = lib.seed()
    t0 = time.time()
    fam = importlib.import_module(FAMILY[pid])
    if args.replay:
        sys.exit(fam.replay(pid, args.replay))
    prop = prop_text(pid)
    changed = changed_sources(prop)
    if changed:                                  # the code this property is anchored in is not the pinned one: look harder
        os.environ['VERIF_BOOST'] = os.environ.get('VERIF_BOOST_FACTOR', '4')
    build = build_property(pid)
    broken = list(build['broken'])
    # correspondence
    try:
        corr = fam.correspondence(pid, tier, seed)
    except Exception:  # noqa
        corr = dict(ok=False, evaluations=0, nontrivial=0, samples=[], distribution={}, broken=['correspondence harness crashed: ' + traceback.format_exc()[-1500:]])
    broken += corr.get('broken', [])
    if build.get('translator', 'ok') != 'ok' and pid in ('C07', 'C09'):
        # no regenerated description: the quantity layer these theorems go through is tied to the code by the quantity correspondence
        try:
            import fam_quantity
            qc = fam_quantity.correspondence('C06', tier, seed)
            broken += ['[quantity layer] ' + b for b in qc.get('broken', [])]
            corr['evaluations'] = corr.get('evaluations', 0) + qc['evaluations']
            corr.setdefault('failing_cases', [])
        except Exception:  # noqa
            broken.append('quantity correspondence crashed: ' + traceback.format_exc()[-800:])
    # search (always runs: cheaply when nothing broke, at full volume when something did)
    try:
        witnesses, searched = fam.search(pid, tier, seed, escalate=bool(broken) or bool(changed) or bool(corr.get('failing_cases')), hints=corr.get('failing_cases', []))
    except Exception:  # noqa
        witnesses, searched = [], 0
        broken.append('search crashed: ' + traceback.format_exc()[-1500:])
    known = lib.load_known(pid)
    new = [w for w in witnesses if not lib.matches_known(w, known)]
    status = 0
    os.makedirs(os.path.join(lib.VERIF, 'violations'), exist_ok=True)
    if new:
        w = new[0]
        path = os.path.join(lib.VERIF, 'violations', f'{pid}_{lib.sha(w)}.json')
        lib.write_json(path, dict(property=pid, statement=prop['statement'], witness=w, others=new[1:10], broken=broken,
                                  replay_cmd=f'./check {pid} --replay {path}'))
        print(f'VIOLATION property={pid} replay={path}')
        print('  ' + w['what'][:400])
        status = 1
    elif broken:
        path = os.path.join(lib.VERIF, 'violations', f'{pid}_unproved_{lib.sha(broken)}.json')
        lib.write_json(path, dict(property=pid, statement=prop['statement'], witness=None, no_longer_checks=broken,
                                  searched_cases=searched,
                                  note='a theorem or the model/code correspondence no longer checks; the search found no failing input'))
        print(f'VIOLATION property={pid} replay={path} no-failing-input-found')
        for b in broken[:5]:
            print('  ' + b[:300])
        status = 1
    # recorded findings
    kf_lines = []
    for k in known:
        if k.get('status') == 'fixed':
            bad, what = fam.replay_known(pid, k)
            if bad:
                path = os.path.join(lib.VERIF, 'violations', f'{pid}_{k["id"]}_returned.json')
                lib.write_json(path, dict(property=pid, witness=dict(what=what, cls=k['id']), note='a finding recorded as fixed fails again'))
                print(f'VIOLATION property={pid} replay={path}')
                print('  ' + what[:400])
                status = 1
        else:
            bad, what = fam.replay_known(pid, k)
            if bad:
                line = f'KNOWN-FINDING: property={pid} {k["id"]} {what}'
                kf_lines.append(line)
                print(line)
    ev = dict(
        property_id=pid, tier=tier, seed=seed, level='proof',
        coverage=dict(
            obligations=len(build['obligations']), discharged=len(build['discharged']),
            obligation_names=build['obligations'],
            source_files_changed_since_pinned_tree=changed,
            checker_cmd=f'cd coq && make Properties/{pid}.vo  (coqc 8.16.1, full .vo build; coq/gen regenerated from /repo by harness/translate.py first)',
            trusted_base=TRUSTED + [f'axioms reported by Print Assumptions: {build["assumptions"]}'],
            evaluations=int(corr.get('evaluations', 0)) + int(searched),
            distinct_nontrivial=int(corr.get('nontrivial', 0)),
            rule=corr.get('rule', ''),
            samples=corr.get('samples', [])[:6] or ['(none)'],
            distribution=corr.get('distribution', {}),
            traces_validated_against_impl=int(corr.get('evaluations', 0)),
            search_cases=int(searched), search_witnesses=len(witnesses), search_new=len(new),
            broken=broken, known_findings_reported=kf_lines,
            translator=build['translator'],
        ),
        assumptions=TRUSTED,
        wall_s=round(time.time() - t0, 2),
        violations=len(new) + (1 if broken and not new else 0),
    )
    if ev['coverage']['discharged'] == 0:
        # nothing compiled (a broken obligation is being reported): the schema's proof keys need discharged >= 1, so report the
        # counts under other names and let the exploration-style keys describe the run
        ev['coverage']['obligations_total'] = ev['coverage'].pop('obligations')
        ev['coverage']['obligations_discharged'] = ev['coverage'].pop('discharged')
        ev['coverage']['distinct_nontrivial'] = max(2, ev['coverage']['distinct_nontrivial'])
        ev['coverage']['evaluations'] = max(1, ev['coverage']['evaluations'])
    lib.write_json(os.path.join(lib.VERIF, 'evidence', f'{pid}.json'), ev)
    print(f'{pid} {tier}: obligations {len(build["discharged"])}/{len(build["obligations"])}, correspondence {corr.get("evaluations", 0)} cases '
          f'({corr.get("nontrivial", 0)} non-trivial), search {searched} cases, {len(new)} new witnesses, {len(kf_lines)} known findings, '
          f'{round(time.time() - t0, 1)} s')
    sys.exit(status)


if __name__ == '__main__':
    main()
