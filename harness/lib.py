"""Shared machinery of the checks: building the Coq development, running case files, evidence, reporting."""
import fcntl
import hashlib
import json
import math
import os
import re
import subprocess
import sys
import time

VERIF = os.path.abspath(os.path.join(os.path.dirname(os.path.abspath(__file__)), '..'))
REPO = os.environ.get('GEARPY_REPO', '/repo')
COQ = os.path.join(VERIF, 'coq')
BUILD = os.path.join(VERIF, 'build')
PY = '/venv/bin/python'
NPROC = int(os.environ.get('VERIF_NPROC', '16'))

ENV = dict(os.environ, PYTHONPATH=REPO, PYTHONHASHSEED='0', GEARPY_REPO=REPO, MPLBACKEND='Agg')


def size(quick, thorough, tier):
    """number of cases of a correspondence: the quick size is multiplied by VERIF_BOOST (set by check.py when a source file the
    property is anchored in differs from the pinned fingerprint), never above the thorough size"""
    if tier != 'quick':
        return thorough
    try:
        b = int(os.environ.get('VERIF_BOOST', '1'))
    except ValueError:
        b = 1
    return min(thorough, quick * max(1, b))


def seed():
    try:
        return int(os.environ.get('VERIF_SEED', '0'))
    except ValueError:
        return 0


def flit(x):
    """A Python float/int as a Coq PrimFloat literal (bit exact)."""
    x = float(x)
    if math.isnan(x):
        return 'nan'
    if math.isinf(x):
        return 'infinity' if x > 0 else 'neg_infinity'
    h = x.hex()
    return f'({h})%float' if h.startswith('-') else f'{h}%float'


def coq_str(s):
    assert '"' not in s and '\\' not in s
    return '"' + s + '"'


class Lock:
    def __init__(self, name):
        os.makedirs(BUILD, exist_ok=True)
        self.path = os.path.join(BUILD, name + '.lock')

    def __enter__(self):
        self.f = open(self.path, 'w')
        fcntl.flock(self.f, fcntl.LOCK_EX)
        return self

    def __exit__(self, *a):
        fcntl.flock(self.f, fcntl.LOCK_UN)
        self.f.close()


def translate():
    """Regenerate coq/gen from /repo.  Returns (ok, message)."""
    p = subprocess.run([PY, os.path.join(VERIF, 'harness', 'translate.py')], env=ENV, capture_output=True, text=True)
    return p.returncode == 0, (p.stdout + p.stderr).strip()


def make(targets, timeout=1500):
    """Full .vo build of the given targets (relative to coq/).  Returns dict target -> (ok, log tail)."""
    out = {}
    with Lock('coq-build'):
        if not os.path.exists(os.path.join(COQ, 'Makefile')) or \
                os.path.getmtime(os.path.join(COQ, 'Makefile')) < os.path.getmtime(os.path.join(COQ, '_CoqProject')):
            subprocess.run(['coq_makefile', '-f', '_CoqProject', '-o', 'Makefile'], cwd=COQ, check=True, capture_output=True)
        # one make for everything first (parallel), then per-target status
        p = subprocess.run(['timeout', str(timeout), 'make', '-k', f'-j{NPROC}'] + list(targets), cwd=COQ, capture_output=True, text=True)
        log = p.stdout + p.stderr
        for t in targets:
            ok = os.path.exists(os.path.join(COQ, t)) and subprocess.run(
                ['make', '-q', t], cwd=COQ, capture_output=True).returncode == 0
            out[t] = (ok, '' if ok else log[-3000:])
    return out


def print_assumptions(vfile_text_or_log):
    pass


_INT = re.compile(r'-?\d+')


def run_case_files(name, header, define, items, per_shard=400, timeout=900, evaluator='failing cases'):
    """Write shards `Definition cases := [items]` and evaluate `evaluator` with vm_compute in each.
    Returns (list of failing global indices, list of shard errors)."""
    # one directory per (property being checked, family): checks of different properties may run at the same time
    d = os.path.join(BUILD, 'cases', os.environ.get('VERIF_PID', 'x') + '-' + name)
    os.makedirs(d, exist_ok=True)
    for f in os.listdir(d):
        os.unlink(os.path.join(d, f))
    shards = [items[i:i + per_shard] for i in range(0, len(items), per_shard)]
    paths = []
    for si, sh in enumerate(shards):
        path = os.path.join(d, f'{name}_{si}.v')
        with open(path, 'w') as f:
            f.write(header + '\n')
            f.write(define + ' [\n' + ';\n'.join(sh) + '\n].\n')
            f.write(f'Definition answer := {evaluator}.\n')
            f.write('Eval vm_compute in answer.\n')
        paths.append(path)
    procs = []
    failing, errors = [], []

    def launch(path):
        return subprocess.Popen(['timeout', str(timeout), 'coqc', '-Q', COQ, 'GP', '-o', path + 'o', path],
                                stdout=subprocess.PIPE, stderr=subprocess.STDOUT, text=True, cwd=d)
    pending = list(enumerate(paths))
    running = []
    while pending or running:
        while pending and len(running) < NPROC:
            si, path = pending.pop(0)
            running.append((si, path, launch(path)))
        si, path, p = running.pop(0)
        outp, _ = p.communicate()
        if p.returncode != 0:
            errors.append((si, outp[-2000:]))
            continue
        m = re.search(r'=\s*(\[.*?\]|nil)\s*:\s*list', outp, re.S)
        if not m:
            errors.append((si, 'unparsable: ' + outp[-500:]))
            continue
        for tok in _INT.findall(m.group(1)):
            failing.append(si * per_shard + int(tok))
        for ext in ('o', 'ok', 'os', '.glob'):
            pass
    for f in os.listdir(d):
        if f.endswith('.vo') or f.endswith('.glob') or f.endswith('.vok') or f.endswith('.vos') or f.startswith('.'):
            try:
                os.unlink(os.path.join(d, f))
            except OSError:
                pass
    return sorted(failing), errors


def sha(obj):
    return hashlib.sha256(json.dumps(obj, sort_keys=True, default=str).encode()).hexdigest()[:16]


def write_json(path, obj):
    os.makedirs(os.path.dirname(path), exist_ok=True)
    tmp = path + '.tmp'
    with open(tmp, 'w') as f:
        json.dump(obj, f, indent=1, sort_keys=True, default=str)
    os.replace(tmp, path)


def assumptions_of(vo_target_log):
    return vo_target_log


def load_known(pid):
    """entries of known_findings.json for one property (the file is never written at run time)"""
    path = os.path.join(VERIF, 'known_findings.json')
    if not os.path.exists(path):
        return []
    with open(path) as f:
        data = json.load(f)
    return [k for k in data.get('findings', []) if pid in k.get('properties', [])]


def matches_known(witness, known):
    """a witness is covered by a recorded finding only when its class is one that finding lists (status 'known' only)"""
    for k in known:
        if k.get('status') == 'known' and witness.get('cls') in k.get('witness_classes', []):
            return True
    return False


def run_shards(name, shards, define, evaluator, timeout=900):
    """shards: list of (header_text, [item strings]).  Each shard is one coqc run ending in `Eval vm_compute in answer`.
    Returns (list of raw answer strings per shard (None on error), list of (shard, error text))."""
    # one directory per (property being checked, family): checks of different properties may run at the same time
    d = os.path.join(BUILD, 'cases', os.environ.get('VERIF_PID', 'x') + '-' + name)
    os.makedirs(d, exist_ok=True)
    for f in os.listdir(d):
        try:
            os.unlink(os.path.join(d, f))
        except OSError:
            pass
    paths = []
    for si, (header, items) in enumerate(shards):
        path = os.path.join(d, f'{name}_{si}.v')
        with open(path, 'w') as f:
            f.write(header + '\n')
            f.write(define + ' [\n' + ';\n'.join(items) + '\n].\n')
            f.write(f'Definition answer := {evaluator}.\n')
            f.write('Eval vm_compute in answer.\n')
        paths.append(path)
    answers = [None] * len(paths)
    errors = []
    pending = list(enumerate(paths))
    running = []
    while pending or running:
        while pending and len(running) < NPROC:
            si, path = pending.pop(0)
            p = subprocess.Popen(['timeout', str(timeout), 'coqc', '-Q', COQ, 'GP', '-o', path + 'o', path],
                                 stdout=subprocess.PIPE, stderr=subprocess.STDOUT, text=True, cwd=d)
            running.append((si, p))
        si, p = running.pop(0)
        outp, _ = p.communicate()
        if p.returncode != 0 and p.returncode in (124, 137, -9, -15, 143) or (p.returncode != 0 and not outp.strip()):
            # killed or timed out without a word from Coq (a loaded machine, the OOM killer): once more, alone, with twice the time
            while running:
                rj, pj = running.pop(0)
                pending.insert(0, (rj, paths[rj]))
                pj.kill()
                pj.communicate()
            q_ = subprocess.run(['timeout', str(2 * timeout), 'coqc', '-Q', COQ, 'GP', '-o', paths[si] + 'o', paths[si]],
                                stdout=subprocess.PIPE, stderr=subprocess.STDOUT, text=True, cwd=d)
            outp = q_.stdout
            if q_.returncode != 0:
                errors.append((si, f'coqc exit status {q_.returncode} (after a retry): ' + outp[-2000:]))
                continue
        elif p.returncode != 0:
            errors.append((si, outp[-2000:]))
            continue
        m = re.search(r'=\s*(.*?)\s*:\s*list', outp, re.S)
        if not m:
            errors.append((si, 'unparsable: ' + outp[-500:]))
            continue
        answers[si] = m.group(1)
    for f in os.listdir(d):
        if not f.endswith('.v'):
            try:
                os.unlink(os.path.join(d, f))
            except OSError:
                pass
    return answers, errors


def parse_triples(ans):
    """'[(3, (2, 0)); ...]' or '[]'/'nil' -> list of (i, code, instant)"""
    out = []
    for m in re.finditer(r'\((\d+)(?:%N)?,\s*\((\d+)(?:%N)?,\s*(\d+)(?:%N)?\)\)', ans or ''):
        out.append((int(m.group(1)), int(m.group(2)), int(m.group(3))))
    return out
