"""Failing-input search for the solver family (C01 C02 C03 C11 C12 C13 C14 C16 C17) on the IMPLEMENTATION's recorded histories.

Each oracle evaluates the property statement directly on what gearpy recorded, using formulas written here from the
documentation (SI magnitudes, relative tolerance), never the model.  They are sound: a witness is reported only when the
statement is definitely false on that history."""
import copy
import math
from fractions import Fraction as F

import si as S
import scen

REL = 1e-9


def sv(kind, x):
    """SI magnitude of a recorded [value, unit] sample (NaN for a missing or foreign sample)"""
    try:
        return x[0] * S.ffactor(kind, x[1])
    except Exception:  # noqa
        return float('nan')


def close(a, b, abs_tol=0.0, rel=REL):
    """|a - b| <= rel * max(|a|, |b|) + abs_tol"""
    if math.isnan(a) or math.isnan(b):
        return False
    return abs(a - b) <= rel * max(abs(a), abs(b)) + abs_tol + 1e-300


# ------------------------------------------------------------------ expected static data from the declared parameters
def deg(q):
    return q[1] * S.ffactor('Angle', q[2])


def expected_static(sc):
    """ratio, efficiency of each element >= 1 and the self-locking flag, from teeth numbers / starts / friction (documentation)"""
    out = []
    selflock = False
    prev = None
    for e in sc['elems']:
        if e['link'] == 'joint':
            ratio, eff = 1.0, 1.0
        elif e['link'] == 'gear':
            ratio, eff = e['z'] / prev['z'], float(e['eff'])
        else:
            f = e['f']
            if prev['kind'] == 'worm':          # the worm drives the wheel
                a, b = deg(prev['pa']), deg(prev['helix'])
                ratio = e['z'] / prev['starts']
                eff = (math.cos(a) - f * math.tan(b)) / (math.cos(a) + f / math.tan(b))
            else:                               # the wheel drives the worm
                a, b = deg(prev['pa']), deg(prev['helix'])
                ratio = e['starts'] / prev['z']
                eff = (math.cos(a) - f / math.tan(b)) / (math.cos(a) + f * math.tan(b))
            if f > math.cos(a) * math.tan(b):
                selflock = True
        out.append(dict(ratio=ratio, eff=eff, J=e['J'][1] * S.ffactor('InertiaMoment', e['J'][2])))
        prev = e
    for op in sc.get('ops', []):
        if op[0] == 'seteff':                 # a mating re-declared with another efficiency (right after a reset: see scen.gen_scenario)
            out[op[1]]['eff'] = float(op[2])
    return out, selflock


def motor_si(sc):
    m = sc['motor']
    return dict(w0=sv('AngularSpeed', m['w0'][1:]), Tmax=sv('Torque', m['Tmax'][1:]),
                i0=sv('Current', m['i0'][1:]) if m['i0'] else None, imax=sv('Current', m['imax'][1:]) if m['imax'] else None,
                J=sv('InertiaMoment', m['J'][1:]))


def motor_law(m, w, D):
    """documented characteristic: (torque, current or None); None for torque when the statement leaves it open (on the boundary)"""
    if m['i0'] is None or m['imax'] is None:
        return m['Tmax'] * (1 - w / m['w0']), None
    pmin = m['i0'] / m['imax']
    if abs(abs(D) - pmin) <= 1e-12:
        return None, None
    if abs(D) < pmin:
        return 0.0, D * m['imax']
    if D > 0:
        TD = m['Tmax'] * (D * m['imax'] - m['i0']) / (m['imax'] - m['i0'])
        T = TD * (1 - w / (D * m['w0']))
        return T, (D * m['imax'] - m['i0']) * T / TD + m['i0']
    TD = m['Tmax'] * (D * m['imax'] + m['i0']) / (m['imax'] - m['i0'])
    T = TD * (1 - w / (D * m['w0']))
    return T, (D * m['imax'] + m['i0']) * T / TD - m['i0']


def rows_si(rows):
    out = []
    for r in rows:
        out.append(dict(t=sv('Time', r['time']), pos=[sv('AngularPosition', x) for x in r['pos']], spd=[sv('AngularSpeed', x) for x in r['spd']],
                        acc=[sv('AngularAcceleration', x) for x in r['acc']], tq=[sv('Torque', x) for x in r['tq']],
                        dtq=[sv('Torque', x) for x in r['dtq']], ltq=[sv('Torque', x) for x in r['ltq']], pwm=r['pwm'],
                        cur=sv('Current', r['cur']) if r['cur'] else None))
    return out


def held(row):
    return all(x == 0 for x in row['spd']) and all(x == 0 for x in row['acc'])


def held_last(row):
    """held, as far as the last element's recorded values tell (C03 speaks of the last element only)"""
    return all(x == 0 for x in row['spd']) and row['acc'][-1] == 0


def load_in_force(sc):
    l = sc['load']
    for op in sc.get('ops', []):
        if op[0] == 'setload':
            l = op[1]
    return l


def load_si(sc, t, pos, spd):
    l = load_in_force(sc)
    return (l['c0'] + l['ct'] * t + l['cp'] * pos + l['cs'] * spd) * S.ffactor('Torque', l['u'])


def W(cls, what, sc, **kw):
    return dict(cls=cls, what=what, case=dict(scenario=sc, **kw))


# ------------------------------------------------------------------ per-history oracles
def check_history(pid, sc, res):
    """witnesses for one property on one executed scenario (res from scen.run_impl, no exception)"""
    out = []
    rows = rows_si(res['rows'])
    st, selflock = expected_static(sc)
    m = motor_si(sc)
    n = len(st) + 1
    scale_spd = max([abs(x) for r in rows for x in r['spd']] + [1e-9])
    scale_pos = max([abs(x) for r in rows for x in r['pos']] + [1e-9])
    scale_acc = max([abs(x) for r in rows for x in r['acc']] + [1e-9])
    scale_tq = max([abs(x) for r in rows for x in r['tq'] + r['dtq'] + r['ltq']] + [1e-12])
    if pid == 'C01':
        for k, r in enumerate(res['rows']):
            for key in ('pos', 'spd', 'acc'):
                for i, x in enumerate(r[key]):
                    if isinstance(x[1], str) and x[1].startswith('missing'):
                        out.append(W('missing-sample', f'instant {k}: element {i} has no recorded {key} ({x[1]})', sc, instant=k))
                        return out
    used = {'C01': ('pos', 'spd', 'acc'), 'C02': ('pos', 'spd', 'tq', 'dtq', 'ltq'), 'C03': ('pos', 'spd', 'tq'), 'C13': ('pos', 'spd', 'tq')}[pid]
    if any(math.isnan(x) or math.isinf(x) for r in rows for key in used for x in (r[key] if pid in ('C01', 'C02') else r[key][-1:] + r[key][:1])):
        return out            # overflowed physics or samples another property is about: outside this statement's scope
    if pid == 'C01':
        for k, r in enumerate(rows):
            for i in range(n - 1):
                ratio = st[i]['ratio']
                for key, sc_ in (('pos', scale_pos), ('spd', scale_spd), ('acc', scale_acc)):
                    if not close(r[key][i], ratio * r[key][i + 1], 1e-12 * sc_):
                        out.append(W('kin', f'instant {k}: {key} of element {i} is {r[key][i]!r}, ratio {ratio!r} x {key} of element {i + 1} is {ratio * r[key][i + 1]!r}', sc, instant=k))
                        return out
    elif pid == 'C02':
        for k, r in enumerate(rows):
            T, _ = motor_law(m, r['spd'][0], r['pwm'])
            if T is not None and not close(r['dtq'][0], T, 1e-9 * m['Tmax']):
                out.append(W('motor-torque', f'instant {k}: motor driving torque {r["dtq"][0]!r} Nm, characteristic at speed {r["spd"][0]!r} rad/s and duty cycle {r["pwm"]!r} gives {T!r}', sc, instant=k))
                return out
            for i in range(1, n):
                want = r['dtq'][i - 1] * st[i - 1]['eff'] * st[i - 1]['ratio']
                if not close(r['dtq'][i], want, 1e-300):
                    out.append(W('drive', f'instant {k}: driving torque of element {i} is {r["dtq"][i]!r}, driver\'s x efficiency x ratio is {want!r}', sc, instant=k))
                    return out
            want = load_si(sc, r['t'], r['pos'][-1], r['spd'][-1])
            l = load_in_force(sc)
            terms = (abs(l['c0']) + abs(l['ct'] * r['t']) + abs(l['cp'] * r['pos'][-1]) + abs(l['cs'] * r['spd'][-1])) * S.ffactor('Torque', l['u'])
            if not close(r['ltq'][-1], want, 1e-9 * scale_tq + 1e-9 * terms):
                out.append(W('load', f'instant {k}: load torque of the last element is {r["ltq"][-1]!r}, the load function at (t={r["t"]!r}, pos={r["pos"][-1]!r}, spd={r["spd"][-1]!r}) gives {want!r}', sc, instant=k))
                return out
            for i in range(n - 1, 0, -1):
                want = r['ltq'][i] / st[i - 1]['eff'] / st[i - 1]['ratio']
                if not close(r['ltq'][i - 1], want, 1e-300):
                    out.append(W('load-prop', f'instant {k}: load torque of element {i - 1} is {r["ltq"][i - 1]!r}, follower\'s / efficiency / ratio is {want!r}', sc, instant=k))
                    return out
            for i in range(n):
                if not close(r['tq'][i], r['dtq'][i] - r['ltq'][i], 1e-9 * max(abs(r['dtq'][i]), abs(r['ltq'][i]))):
                    out.append(W('net', f'instant {k}: net torque of element {i} is {r["tq"][i]!r}, driving - load is {r["dtq"][i] - r["ltq"][i]!r}', sc, instant=k))
                    return out
    elif pid in ('C03', 'C13'):
        J = m['J']
        for e in st:
            J = J * e['ratio'] + e['J']
        for k, r in enumerate(rows):
            h = held_last(r) if pid == 'C03' else held(r)
            if pid == 'C03' and not (h and selflock):
                want = r['tq'][-1] / J
                if not close(r['acc'][-1], want, 1e-300):
                    out.append(W('eom', f'instant {k}: acceleration of the last element {r["acc"][-1]!r}, net torque / equivalent inertia = {r["tq"][-1]!r} / {J!r} = {want!r}', sc, instant=k))
                    return out
            if pid == 'C13' and not selflock and h and (abs(r['tq'][-1]) > 1e-9 * scale_tq):
                out.append(W('clamped-without-selflock', f'instant {k}: all speeds and accelerations are zero although no mating is self-locking and the net torque is {r["tq"][-1]!r}', sc, instant=k))
                return out
        for k in range(1, len(rows)):           # consecutive rows of the final history always belong to one continuous simulation
            r, p = rows[k], rows[k - 1]
            dt = r['t'] - p['t']
            if not dt > 0:
                continue
            w_ = p['spd'][-1] + p['acc'][-1] * dt
            pos_ = p['pos'][-1] + w_ * dt
            tol_w = 1e-9 * scale_spd + abs(p['acc'][-1] * dt) * 1e-6
            if pid == 'C03':
                if not close(r['pos'][-1], pos_, 1e-9 * scale_pos + abs(w_ * dt) * 1e-6):
                    out.append(W('step-pos', f'instant {k}: position {r["pos"][-1]!r}, previous position + advanced speed x dt = {pos_!r}', sc, instant=k))
                    return out
                ok = abs(r['spd'][-1] - w_) <= tol_w + REL * abs(w_) or (selflock and r['spd'][-1] == 0)
                if not ok:
                    out.append(W('step-spd', f'instant {k}: speed {r["spd"][-1]!r}, previous speed + previous acceleration x dt = {w_!r} (self-locking powertrain: {selflock})', sc, instant=k))
                    return out
            if pid == 'C13' and not selflock and r['spd'][-1] == 0 and abs(w_) > tol_w + REL * abs(w_) + 1e-12:
                out.append(W('clamped-without-selflock', f'instant {k}: speed clamped to zero (advanced speed {w_!r}) although no mating is self-locking', sc, instant=k))
                return out
        if pid == 'C13' and selflock:
            pw = pwm_in_force(sc, res, rows)
            fresh_flag = new_solver_rows(sc, res)
            for k, r in enumerate(rows):
                D = pw[k]
                if D is None:
                    continue
                tolw = 1e-12 * max(1.0, scale_spd)
                if D == 0 and not held(r):
                    out.append(W('moving-at-zero-duty', f'instant {k}: duty cycle in force 0 but speeds {r["spd"]!r}, accelerations {r["acc"]!r}', sc, instant=k))
                    return out
                if D > 0 and r['spd'][0] < -tolw:
                    out.append(W('driven-by-load', f'instant {k}: duty cycle in force {D!r} > 0 but motor speed {r["spd"][0]!r} < 0', sc, instant=k))
                    return out
                if D < 0 and r['spd'][0] > tolw:
                    out.append(W('driven-by-load', f'instant {k}: duty cycle in force {D!r} < 0 but motor speed {r["spd"][0]!r} > 0', sc, instant=k))
                    return out
                if k > 0 and held(rows[k - 1]) and held(r) and rows[k].get('t', 0) > rows[k - 1]['t'] and not close(r['pos'][-1], rows[k - 1]['pos'][-1], 1e-12 * scale_pos):
                    out.append(W('moves-while-held', f'instants {k - 1},{k}: held but position changed from {rows[k - 1]["pos"][-1]!r} to {r["pos"][-1]!r}', sc, instant=k))
                    return out
                if k > 0 and k not in fresh_flag and held(rows[k - 1]) and not held(r) and rows[k]['t'] > rows[k - 1]['t'] and rows[k - 1]['spd'][0] == 0:
                    tq0 = rows[k - 1]['tq'][0]
                    if not ((tq0 > 0 and D > 0) or (tq0 < 0 and D < 0)):
                        out.append(W('bad-release', f'instant {k}: motion resumes with duty cycle in force {D!r} while the motor net torque at instant {k - 1} was {tq0!r}', sc, instant=k))
                        return out
                    # ... the motor's net torque AT STANDSTILL, evaluated independently of what was recorded: the characteristic at speed 0
                    # and the duty cycle of that instant, minus the recorded load torque on the motor
                    T0, _ = motor_law(m, 0.0, rows[k - 1]['pwm'])
                    if T0 is not None:
                        ind = T0 - rows[k - 1]['ltq'][0]
                        if abs(ind) > 1e-6 * max(scale_tq, m['Tmax']) and not ((ind > 0 and D > 0) or (ind < 0 and D < 0)):
                            out.append(W('bad-release', f'instant {k}: motion resumes with duty cycle in force {D!r} while the motor net torque at standstill at instant {k - 1} '
                                                        f'(characteristic at speed 0 and duty cycle {rows[k - 1]["pwm"]!r}, minus the load torque {rows[k - 1]["ltq"][0]!r}) was {ind!r}', sc, instant=k))
                            return out
    return out


def new_solver_rows(sc, res):
    """row indices (final history) computed first by a Solver object created after the previous row: its lock flag starts clear"""
    out = set()
    lr = last_reset_index(sc)
    hist_len = 0
    pending = False
    for i, (op, mlen) in enumerate(zip(sc['ops'], res['marks'])):
        if i < lr:
            continue
        if op[0] == 'reset':
            hist_len = 0
        elif op[0] == 'newsolver':
            pending = True
        elif op[0] == 'run':
            if pending:
                out.add(hist_len)
                pending = False
            hist_len = mlen
    return out


def last_reset_index(sc):
    idx = -1
    for i, op in enumerate(sc['ops']):
        if op[0] == 'reset':
            idx = i
    return idx


def pwm_in_force(sc, res, rows):
    """for each row of the final history: the duty cycle the motor held when the instant was computed, or None if unknown"""
    out = [None] * len(rows)
    marks = res['marks']
    cur_pwm = 1
    hist_len = 0
    lr = last_reset_index(sc)
    for i, (op, mlen) in enumerate(zip(sc['ops'], marks)):
        if i < lr:
            continue
        if op[0] == 'setpwm':
            cur_pwm = op[1]
        elif op[0] == 'reset':
            hist_len = 0
            cur_pwm = None          # restored to the first recorded value of the emptied history: not tracked here
        elif op[0] == 'run':
            for k in range(hist_len, mlen):
                out[k] = cur_pwm
                cur_pwm = rows[k]['pwm']
            hist_len = mlen
    return out


# ------------------------------------------------------------------ C11: the time axis
def c11_check(sc, res):
    out = []
    rows = res['rows']
    marks = res['marks']
    hist_len = 0
    t_start = F(0)
    lr = last_reset_index(sc)
    for i_op, (op, mlen) in enumerate(zip(sc['ops'], marks)):
        if i_op < lr:
            continue
        if op[0] == 'reset':
            hist_len = 0
            t_start = F(0)
        elif op[0] == 'run':
            dt, T = op[1], op[2]
            dts = F(dt[1]) * S.factor('Time', dt[2])
            Ts = F(T[1]) * S.factor('Time', T[2])
            q = Ts / dts
            nq = q.numerator // q.denominator
            frac = q - nq
            if abs(frac - F(1, 2)) < F(1, 10 ** 6):
                hist_len = mlen
                continue                     # a tie: round() is not pinned by the statement
            n = nq + (1 if frac > F(1, 2) else 0)
            new = rows[hist_len:mlen]
            fresh = hist_len == 0
            times = [F(r['time'][0]) * S.factor('Time', r['time'][1]) for r in new]
            if fresh:
                if not times or times[0] != 0:
                    out.append(W('grid', f'fresh run does not start at time 0: {new[:1]}', sc))
                    return out
                steps = times[1:]
            else:
                steps = times
            stopped = op[4] is not None
            if len(steps) > n or (not stopped and len(steps) != n):
                out.append(W('grid-count', f'run(dt={dt[1]!r} {dt[2]}, T={T[1]!r} {T[2]}) recorded {len(steps)} further instants, round(T/dt) = {n}; last recorded time {new[-1]["time"] if new else None}', sc))
                return out
            for i, t in enumerate(steps, 1):
                want = t_start + i * dts
                if abs(t - want) > dts * F(1, 10 ** 6):
                    out.append(W('grid-spacing', f'instant {i} of the run is at {float(t)!r} s, expected {float(want)!r} s', sc))
                    return out
            if steps:
                t_start = t_start + len(steps) * dts
            hist_len = mlen
    return out


# ------------------------------------------------------------------ C16: stop condition
CMP = {'GT': lambda a, b: a > b, 'GE': lambda a, b: a >= b, 'EQ': lambda a, b: a == b, 'LT': lambda a, b: a < b, 'LE': lambda a, b: a <= b}


def c16_check(sc, res):
    out = []
    rows = res['rows']
    marks = res['marks']
    hist_len = 0
    lr = last_reset_index(sc)
    for i_op, (op, mlen) in enumerate(zip(sc['ops'], marks)):
        if i_op < lr:
            continue
        if op[0] == 'reset':
            hist_len = 0
        elif op[0] == 'run':
            stop = op[4]
            if stop is not None:
                dts = F(op[1][1]) * S.factor('Time', op[1][2])
                Ts = F(op[2][1]) * S.factor('Time', op[2][2])
                n = round(Ts / dts)
                new = rows[hist_len:mlen]
                steps = new[1:] if hist_len == 0 else new
                kind = {'enc': 'AngularPosition', 'tach': 'AngularSpeed', 'amp': 'Current'}[stop['sensor'][0]]
                thr = F(stop['thr'][1]) * S.factor(kind, stop['thr'][2])
                band = F(1, 10 ** 9) * max(abs(thr), 1)

                def reading(r):
                    x = {'enc': lambda: r['pos'][stop['sensor'][1]], 'tach': lambda: r['spd'][stop['sensor'][1]], 'amp': lambda: r['cur']}[stop['sensor'][0]]()
                    return F(x[0]) * S.factor(kind, x[1])
                if not steps and n >= 1:
                    # the condition is tested at each COMPUTED instant after the initial one: a run that computes none has ended on the
                    # state it started from (the first instant of a fresh simulation / the last instant of the history is not tested)
                    out.append(W('stop-before-first-step', f'the run with stop condition ({stop["sensor"]} {stop["op"]} {stop["thr"]}) computed none of its {n} steps: '
                                 f'it ended on the instant it started from', sc))
                    return out
                for i, r in enumerate(steps):
                    v = reading(r)
                    if abs(v - thr) <= band:
                        continue                # within rounding of the threshold: the comparison is not pinned
                    truth = CMP[stop['op']](v, thr)
                    last = i == len(steps) - 1
                    if truth and not last:
                        out.append(W('stop-late', f'the stop condition ({stop["sensor"]} {stop["op"]} {stop["thr"]}) already holds at step {i + 1} (reading {float(v)!r}) but {len(steps)} steps were recorded', sc))
                        return out
                    if last and len(steps) < n and not truth:
                        out.append(W('stop-early', f'the run ended after {len(steps)} of {n} steps although the stop condition is false there (reading {float(v)!r}, threshold {float(thr)!r})', sc))
                        return out
            hist_len = mlen
    return out


# ------------------------------------------------------------------ C14: arbitration
def c14_check(sc, res):
    out = []
    rows = res['rows']
    for k, r in enumerate(rows):
        p = r['pwm']
        if math.isnan(p) or p < -1 or p > 1:
            out.append(W('pwm-range', f'instant {k}: recorded duty cycle {p!r} outside [-1, 1]', sc, instant=k))
            return out
    # rule sets made of time windows only: the expected duty cycle is computable from the instant's time alone
    marks = res['marks']
    hist_len = 0
    lr = last_reset_index(sc)
    for i_op, (op, mlen) in enumerate(zip(sc['ops'], marks)):
        if i_op < lr:
            continue
        if op[0] == 'reset':
            hist_len = 0
        elif op[0] == 'run':
            rules = op[3]
            if rules is not None and all(x['r'] == 'const' for x in rules):
                for k in range(hist_len, mlen):
                    t = F(rows[k]['time'][0]) * S.factor('Time', rows[k]['time'][1])
                    act, open_ = [], False
                    for x in rules:
                        s0 = F(x['start'][1]) * S.factor('Time', x['start'][2])
                        d = F(x['dur'][1]) * S.factor('TimeInterval', x['dur'][2])
                        band = F(1, 10 ** 9) * max(abs(s0), d, F(1, 1000))
                        if abs(t - s0) <= band or abs(t - s0 - d) <= band:
                            open_ = True
                        elif s0 < t < s0 + d:
                            act.append(x['v'])
                    if open_:
                        continue
                    if len(act) >= 2:
                        out.append(W('two-rules-silent', f'instant {k} (t={float(t)!r} s): {len(act)} rules applicable but the simulation went on', sc, instant=k))
                        return out
                    want = min(max(act[0], -1), 1) if act else 1
                    if rows[k]['pwm'] != want:
                        out.append(W('arbitration', f'instant {k} (t={float(t)!r} s): duty cycle {rows[k]["pwm"]!r}, the applicable rules propose {act!r} (expected {want!r})', sc, instant=k))
                        return out
            hist_len = mlen
    return out


def c14_check_error(sc, res):
    """the run raised: a ValueError for two applicable rules must correspond to two applicable rules"""
    return []


# ------------------------------------------------------------------ C12: metamorphic (re-runs the implementation)
def hist_equal(a, b, exact):
    if len(a) != len(b):
        return f'{len(a)} instants vs {len(b)}'
    ra, rb = rows_si(a), rows_si(b)
    for k, (x, y) in enumerate(zip(ra, rb)):
        for key in ('t', 'pwm'):
            if (x[key] != y[key]) if exact else not close(x[key], y[key], 1e-9 * max(abs(x[key]), 1e-6)):
                return f'instant {k}: {key} {x[key]!r} vs {y[key]!r}'
        if (x['cur'] is None) != (y['cur'] is None):
            return f'instant {k}: electric current recorded on one side only'
        if x['cur'] is not None and not (x['cur'] != x['cur'] and y['cur'] != y['cur']):
            cm = max(abs(r_['cur']) for r_ in ra + rb if r_['cur'] is not None and r_['cur'] == r_['cur']) if any(r_['cur'] is not None and r_['cur'] == r_['cur'] for r_ in ra + rb) else 0.0
            if (x['cur'] != y['cur']) if exact else not close(x['cur'], y['cur'], 1e-6 * max(cm, 1e-12), rel=1e-6):
                return f'instant {k}: electric current {x["cur"]!r} vs {y["cur"]!r}'
        for key in ('pos', 'spd', 'acc', 'tq', 'dtq', 'ltq'):
            sc_ = max([abs(v) for v in x[key] + y[key]] + [1e-12])
            sc_ = max([abs(v) for v in x[key] + y[key] if v == v] + [1e-12])
            for i, (u, v) in enumerate(zip(x[key], y[key])):
                if u != u and v != v:
                    continue              # not a number on both sides: the same (missing) sample
                if (u != v) if exact else not close(u, v, 1e-6 * sc_, rel=1e-6):
                    return f'instant {k}: {key} of element {i}: {u!r} vs {v!r}'
    return None


def c12_check(sc, rng):
    """(i) run T1 then continue T2 (possibly in another unit) == one run of T1+T2;  (ii) reset + re-apply the initial conditions +
    same schedule == the original history, exactly, with the same and with a new solver"""
    out = []
    base = copy.deepcopy(sc)
    runs = [op for op in base['ops'] if op[0] == 'run']
    if not runs:
        return out
    first = runs[0]
    dt, T, ctl = first[1], first[2], first[3]
    pre = []
    for op in base['ops']:
        if op[0] == 'run':
            break
        pre.append(op)
    dts = F(dt[1])
    n = round(F(T[1]) / dts)
    if n < 5:
        return out
    # (ii) reset / rerun: the scenario as it is, and one variant whose run ENDS in another state than it started in (the duty cycle
    # switched off or reversed in the second half by a rule, the motor with or without current data): what reset forgets to
    # restore shows only then
    variants = [(base, ctl)]
    half = ['Time', F2(dt[1]) * (n // 2), dt[2]]
    late = [dict(r='const', start=half, dur=['TimeInterval', F2(T[1]) * 10, T[2]], v=rng.choice([0, 0, -0.5, 0.3]))]
    vb = copy.deepcopy(base)
    if rng.random() < 0.5 and vb['motor'].get('i0') is not None:
        vb['motor']['i0'] = None
        vb['motor']['imax'] = None
    if ctl is None or all(x['r'] == 'const' for x in ctl):
        variants.append((vb, late))
    for vbase, vctl in variants:
        for newsolver in (False, True):
            a = dict(vbase, ops=pre + [['run', dt, T, vctl, None]])
            b = dict(vbase, ops=pre + [['run', dt, T, vctl, None], ['reset']] + ([['newsolver']] if newsolver else []) +
                     [['setinit', vbase['pos0'], vbase['spd0']]] + [['run', dt, T, vctl, None]])
            ra, rb = scen.run_impl(a), scen.run_impl(b)
            if 'Timeout' in (ra['err'] or '') + (rb['err'] or ''):
                continue                # the harness's own wall-clock limit (a loaded machine), not an outcome of the code
            if ra['err'] or rb['err']:
                if ra['err'] != rb['err']:
                    out.append(W('rerun-raises', f'original run: {ra["err"]}, reset + rerun ({"new" if newsolver else "same"} solver): {rb["err"]} {rb.get("errmsg")}', b))
                continue
            d = hist_equal(ra['rows'], rb['rows'], exact=True)
            if d:
                pwm_changed_at_0 = ra['rows'][0]['pwm'] != initial_pwm(pre)
                cls = 'D4' if pwm_changed_at_0 else 'rerun'
                out.append(W(cls, f'reset + same schedule ({"new" if newsolver else "same"} solver) differs from the original: {d}', b))
                if cls != 'D4':
                    return out
    # (i) continuation
    k1 = rng.randint(2, n - 2)
    u2 = rng.choice(S.units('Time'))
    f1, f2 = S.ffactor('Time', dt[2]), S.ffactor('Time', u2)
    T1 = ['TimeInterval', dt[1] * k1, dt[2]]
    dt2 = ['TimeInterval', dt[1] * f1 / f2, u2]
    T2 = ['TimeInterval', dt2[1] * (n - k1), u2]
    if rng.random() < 0.5:                       # ... and the continuation's simulation time in yet another unit than its step
        u3 = rng.choice([x for x in S.units('Time') if x != u2])
        T2 = ['TimeInterval', T2[1] * f2 / S.ffactor('Time', u3), u3]
    Tall = ['TimeInterval', dt[1] * n, dt[2]]
    a = dict(base, ops=pre + [['run', dt, Tall, ctl, None]])
    b = dict(base, ops=pre + [['run', dt, T1, ctl, None], ['run', dt2, T2, ctl, None]])
    ra, rb = scen.run_impl(a), scen.run_impl(b)
    if 'Timeout' in (ra['err'] or '') + (rb['err'] or ''):
        return out
    if ra['err'] or rb['err']:
        if bool(ra['err']) != bool(rb['err']):
            out.append(W('continue-raises', f'single run: {ra["err"]}, split run: {rb["err"]} {rb.get("errmsg")}', b))
        return out
    if fragile(ra['rows']) or fragile(rb['rows']) or (ctl is not None and (any(x['r'] != 'const' for x in ctl) or time_fragile(ctl, ra['rows']))):
        return out
    d = hist_equal(ra['rows'], rb['rows'], exact=False)
    if d:
        out.append(W('continue', f'run({k1} steps) + continue({n - k1} steps, dt in {u2}) differs from one run of {n} steps: {d}', b))
    return out


def F2(x):
    return float(x)


def initial_pwm(pre):
    p = 1
    for op in pre:
        if op[0] == 'setpwm':
            p = op[1]
    return p


def fragile(rows):
    """a discrete decision within rounding of its threshold: motor speed or torque almost zero somewhere (lock test)"""
    r = rows_si(rows)
    ms = max([abs(x['spd'][0]) for x in r] + [1e-12])
    mt = max([abs(x['tq'][0]) for x in r] + [1e-12])
    return any(0 < abs(x['spd'][0]) < 1e-6 * ms or 0 < abs(x['tq'][0]) < 1e-6 * mt for x in r)


def time_fragile(rules, rows):
    for r in rows:
        t = r['time'][0] * S.ffactor('Time', r['time'][1])
        for x in rules:
            s0 = x['start'][1] * S.ffactor('Time', x['start'][2])
            d = x['dur'][1] * S.ffactor('TimeInterval', x['dur'][2])
            if abs(t - s0) <= 1e-9 * max(abs(s0), d, 1e-3) or abs(t - s0 - d) <= 1e-9 * max(abs(s0), d, 1e-3):
                return True
    return False


# ------------------------------------------------------------------ C15: each rule's window and value, from the recorded state
def c15_check(sc, res):
    out = []
    rows = rows_si(res['rows'])
    st, _ = expected_static(sc)
    m = motor_si(sc)
    eta = 1.0
    for e, x in zip(sc['elems'], st):
        if e['kind'] in ('spur', 'helical', 'wheel'):
            eta *= x['eff']
    marks = res['marks']
    hist_len = 0
    lr = last_reset_index(sc)
    for i_op, (op, mlen) in enumerate(zip(sc['ops'], marks)):
        if i_op < lr:
            continue
        if op[0] == 'reset':
            hist_len = 0
        elif op[0] == 'run':
            rules = op[3]
            if rules:
                for k in range(hist_len, mlen):
                    r = rows[k]
                    props, open_ = [], False
                    for x in rules:
                        if x['r'] == 'const':
                            t = F(res['rows'][k]['time'][0]) * S.factor('Time', res['rows'][k]['time'][1])
                            s0 = F(x['start'][1]) * S.factor('Time', x['start'][2])
                            d = F(x['dur'][1]) * S.factor('TimeInterval', x['dur'][2])
                            band = F(1, 10 ** 9) * max(abs(s0), d, F(1, 1000))
                            if abs(t - s0) <= band or abs(t - s0 - d) <= band:
                                open_ = True
                            elif s0 < t < s0 + d:
                                props.append(('const', float(x['v'])))
                            continue
                        p = r['pos'][x['enc']]
                        TG = sv('AngularPosition', x['target'][1:])
                        if x['r'] == 'reach':
                            BA = sv('Angle', x['brake'][1:])
                            th = TG - BA + r['ltq'][0] / m['Tmax'] / eta * BA
                            if abs(p - th) <= 1e-9 * max(abs(th), abs(p), 1e-9):
                                open_ = True
                            elif p > th:
                                props.append(('reach', 1 - (p - th) / BA))
                        else:
                            if abs(p - TG) <= 1e-9 * max(abs(TG), 1e-9):
                                open_ = True
                                continue
                            if p > TG:
                                continue
                            if x['r'] == 'prop':
                                l = rows[0]['ltq'][0] if k > 0 else r['ltq'][0]
                                cand = 1 / eta * (l / m['Tmax']) * ((m['imax'] - m['i0']) / m['imax']) + m['i0'] / m['imax']
                                pm = x['mult'] * cand
                                if pm == 0:
                                    if x['pmin'] is None:
                                        open_ = True
                                        continue
                                    pm = x['pmin']
                                props.append(('prop', (1 - pm) * p / TG + pm))
                            else:
                                s_ = r['spd'][x['tach']] / m['w0']
                                IL = sv('Current', x['ilim'][1:])
                                e_ = IL / m['imax']
                                rad = s_ * s_ + e_ * e_ + 2 * s_ * ((IL - 2 * m['i0']) / m['imax'])
                                if rad < 0:
                                    open_ = True
                                    continue
                                v = 0.5 * (s_ + e_ + math.sqrt(rad))
                                # the formula cancels when |speed ratio| is large (a run that has blown up numerically):
                                # binary64 evaluation of it is only good to a few ulps of its largest term
                                cond = 16 * 2.0 ** -52 * (abs(s_) + abs(e_) + math.sqrt(rad))
                                props.append(('lim', v, IL, x['tach'], cond))
                    if open_ or len(props) >= 2:
                        continue
                    want = min(max(props[0][1], -1), 1) if props else 1
                    cond = props[0][4] if props and props[0][0] == 'lim' else 0.0
                    if not close(r['pwm'], want, 1e-9 + cond):
                        out.append(W('rule-value', f'instant {k}: recorded duty cycle {r["pwm"]!r}; the rules {[x["r"] for x in rules]} propose {[(q[0], q[1]) for q in props]} (expected {want!r})', sc, instant=k))
                        return out
                    if props and props[0][0] == 'lim' and props[0][3] == 0 and m['i0'] / m['imax'] + 1e-9 < props[0][1] < 1 - 1e-9 and r['cur'] is not None:
                        # the duty cycle is known to `cond` (absolute); the current law i = (D imax - i0)(1 - s/D) + i0, s = w/w0, amplifies
                        # that by |di/dD| (large on a run that has blown up numerically)
                        D_, s_m = props[0][1], r['spd'][0] / m['w0']
                        didD = m['imax'] * (1 + abs(s_m / D_)) + abs(D_ * m['imax'] - m['i0']) * abs(s_m) / D_ ** 2
                        if not close(r['cur'], props[0][2], 1e-9 * m['imax'] + 4 * (cond + 2.0 ** -52 * abs(D_)) * didD):
                            out.append(W('limit-current', f'instant {k}: StartLimitCurrent in force and unclipped (duty cycle {r["pwm"]!r}) but the recorded current is {r["cur"]!r} A, limit {props[0][2]!r} A', sc, instant=k))
                            return out
            hist_len = mlen
    return out
