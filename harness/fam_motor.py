"""C08: DCMotor.compute_torque / compute_electric_current against the model (bit for bit) and against the documented law (search)."""
import json
import math
import random

import gearpy.units as U
from gearpy.mechanical_objects import DCMotor

import lib
import scen
import si as S
import oracle_solver as O

RULE = ('cases = random motor constants in all units x duty cycles dense in [-1,1], the dead-zone boundary and its +-1..3 ulp '
        'neighbours, 0, +-1 x speeds of either sign up to 2.5 w0; non-trivial = duty cycle outside the dead zone or within 3 ulp of its boundary')


def ulps(x, k):
    for _ in range(abs(k)):
        x = math.nextafter(x, math.inf if k > 0 else -math.inf)
    return x


def gen_case(rng):
    currents = rng.random() < 0.8
    Tmax = 10 ** rng.uniform(-2, 1)
    w0 = 10 ** rng.uniform(1, 3.5)
    imax = 10 ** rng.uniform(-1, 1.3)
    i0 = imax * rng.choice([0.0, 0.02, 0.1, 0.2, 0.7 / 3, rng.uniform(0.01, 0.6)])
    m = dict(J=scen.in_unit(rng, 'InertiaMoment', 1e-4), w0=scen.in_unit(rng, 'AngularSpeed', w0), Tmax=scen.in_unit(rng, 'Torque', Tmax),
             i0=scen.in_unit(rng, 'Current', i0) if currents else None, imax=scen.in_unit(rng, 'Current', imax) if currents else None)
    if rng.random() < 0.15 and currents:      # round numbers: exact boundary representable
        m['i0'] = ['Current', rng.choice([0.7, 0.1, 0.25, 1.0, 0.0]), 'A']
        m['imax'] = ['Current', rng.choice([3.0, 2.0, 4.0, 5.0]), 'A']
    if rng.random() < 0.12:                   # exactly one of the two currents given: incomplete current data
        if rng.random() < 0.5:
            m['i0'] = scen.in_unit(rng, 'Current', i0) if m['i0'] is None else m['i0']
            m['imax'] = None
        else:
            m['imax'] = scen.in_unit(rng, 'Current', imax) if m['imax'] is None else m['imax']
            m['i0'] = None
        currents = False
    r = rng.random()
    if currents and r < 0.45:
        pmin = (U.Current(*m['i0'][1:]) / U.Current(*m['imax'][1:]))
        D = ulps(pmin, rng.choice([0, 1, -1, 2, -2, 3, -3, 5, 40])) * rng.choice([1, -1])
    elif r < 0.6:
        D = rng.choice([0, 0.0, 1, -1, 1.0, -1.0, 0.5, -0.5])
    else:
        D = rng.uniform(-1, 1)
    D = max(-1, min(1, D))
    w = rng.choice([0.0, 1.0, -1.0, 0.5, rng.uniform(-2.5, 2.5)]) * w0
    spd = scen.in_unit(rng, 'AngularSpeed', w)
    # one case in three: the user re-expresses the motor's driving torque in another unit between the two calls
    tq_unit = rng.choice(S.units('Torque')) if rng.random() < 0.33 else None
    return dict(motor=m, spd=spd, pwm=D, tq_unit=tq_unit)


def run_impl(c):
    m = c['motor']
    kw = {}
    if m['i0'] is not None:
        kw['no_load_electric_current'] = scen.mkq(m['i0'])
    if m['imax'] is not None:
        kw['maximum_electric_current'] = scen.mkq(m['imax'])
    try:
        mot = DCMotor(name='m', inertia_moment=scen.mkq(m['J']), no_load_speed=scen.mkq(m['w0']), maximum_torque=scen.mkq(m['Tmax']), **kw)
    except Exception as e:  # noqa
        return dict(skip=True)
    try:
        mot.angular_speed = scen.mkq(c['spd'])
        mot.pwm = c['pwm']
        mot.compute_torque()
        T = scen.fu(mot.driving_torque)
        if c.get('tq_unit'):
            mot.driving_torque = mot.driving_torque.to(c['tq_unit'])
        cur = None
        if mot.electric_current_is_computable:
            mot.compute_electric_current()
            cur = scen.fu(mot.electric_current)
        return dict(T=T, I=cur, err=None)
    except Exception as e:  # noqa
        n = type(e).__name__
        return dict(err=n if n in scen.EXN else 'Other:' + n, errmsg=str(e)[:200])


def case_coq(c, r):
    m = c['motor']
    motor = f'(@Build_motor FX {scen.cq(m["w0"])} {scen.cq(m["Tmax"])} {scen.copt(m["i0"], scen.cq)} {scen.copt(m["imax"], scen.cq)})'
    if r['err'] is None:
        exp = f'(MOk {scen.cfu(r["T"])} {scen.copt(r["I"], scen.cfu)})'
    else:
        exp = f'(MErr {r["err"] if not r["err"].startswith("Other") else "OracleMiss"})'
    return f'{{| mc_motor := {motor}; mc_spd := {scen.cq(c["spd"])}; mc_pwm := {lib.flit(c["pwm"])}; mc_tq_unit := {"None" if not c.get("tq_unit") else "(Some " + lib.coq_str(c["tq_unit"]) + ")"}; mc_exp := {exp} |}}'


def nontrivial(c):
    m = c['motor']
    if m['i0'] is None or m['imax'] is None:
        return True
    pmin = m['i0'][1] * S.ffactor('Current', m['i0'][2]) / (m['imax'][1] * S.ffactor('Current', m['imax'][2]))
    return abs(c['pwm']) > pmin or abs(abs(c['pwm']) - pmin) <= 4e-16 * max(pmin, 1e-300)


def correspondence(pid, tier, seed):
    rng = random.Random(seed * 4099 + 11)
    n = lib.size(3000, 40000, tier)
    cases = [gen_case(rng) for _ in range(n)]
    outs = [run_impl(c) for c in cases]
    pairs = [(c, r) for c, r in zip(cases, outs) if not r.get('skip')]
    per = 500
    shards = [(scen.header_with_oracle([]), [case_coq(c, r) for c, r in pairs[i:i + per]]) for i in range(0, len(pairs), per)]
    ans, errs = lib.run_shards('motor', shards, 'Definition cases : list (mcase O) :=', 'mfailing O cases')
    broken = []
    if errs:
        broken.append('motor correspondence: a case file did not evaluate: ' + errs[0][1][-300:])
    bad = []
    for si_, a in enumerate(ans):
        for (i, code, _) in lib.parse_triples(a):
            bad.append((si_ * per + i, code))
    rounding = [(g, c - 100) for g, c in bad if 100 <= c < 200]      # torque/current within 1e-9 relative: recorded, not a broken tie
    bad = [(g, c) for g, c in bad if not 100 <= c < 200]
    failing = [dict(case=pairs[g2][0], impl=pairs[g2][1], code=100 + c2) for g2, c2 in rounding[:10]]
    if bad:
        g, code = bad[0]
        failing = [dict(case=pairs[g2][0], impl=pairs[g2][1], code=c2) for g2, c2 in bad[:10]]
        broken.append(f'motor correspondence: the model (binary64) and gearpy differ on {len(bad)} of {len(pairs)} cases '
                      f'(first: {json.dumps(failing[0], default=str)[:400]}; code 6 = torque, 9 = current, 12-14 = exception)')
    dist = {}
    for c, r in pairs:
        k = ('currents' if c['motor']['i0'] and c['motor']['imax'] else 'one-current' if c['motor']['i0'] or c['motor']['imax'] else 'no-currents') + ':' + (r['err'] or 'ok')
        dist[k] = dist.get(k, 0) + 1
    nt = len({lib.sha(c) for c, r in pairs if nontrivial(c)})
    return dict(ok=not broken, evaluations=len(pairs), nontrivial=nt, samples=[dict(case=c, impl=r) for c, r in pairs[:4]], rule=RULE,
                distribution=dict(outcomes=dist, rounding_level_only=len(rounding)), broken=broken, failing_cases=failing)


def doc_check(c, r):
    """the documented law on one case (SI, relative tolerance); [] or one witness"""
    m = O.motor_si(dict(motor=c['motor']))
    w = c['spd'][1] * S.ffactor('AngularSpeed', c['spd'][2])
    D = c['pwm']
    if r['err'] is not None:
        return [dict(cls='raises', what=f'compute_torque/compute_electric_current raised {r["err"]} ({r.get("errmsg")}) at duty cycle {D!r}, speed {w!r} rad/s', case=c)]
    T = r['T'][0] * S.ffactor('Torque', r['T'][1])
    Tdoc, Idoc = O.motor_law(m, w, D)
    out = []
    if (math.isnan(T) or math.isinf(T)) and 0 < abs(D) < 1e-290:
        return [dict(cls='D15', what=f'driving torque {T!r} at the subnormal-range duty cycle {D!r} (speed {w!r} rad/s): w/(D*w0) overflows', case=c)]
    if Tdoc is not None and not O.close(T, Tdoc, 1e-9 * m['Tmax'] * (1 + abs(w) / m['w0'])):
        out.append(dict(cls='torque', what=f'driving torque {T!r} Nm at duty cycle {D!r}, speed {w!r} rad/s; the documented characteristic gives {Tdoc!r}', case=c))
    if Tdoc is not None and r['I'] is not None and Idoc is not None:
        I = r['I'][0] * S.ffactor('Current', r['I'][1])
        if not O.close(I, Idoc, 1e-9 * m['imax'] * (1 + abs(w) / m['w0'])):
            out.append(dict(cls='current', what=f'absorbed current {I!r} A at duty cycle {D!r}, speed {w!r} rad/s (torque {T!r} Nm); the documented law gives {Idoc!r}', case=c))
    return out


def search(pid, tier, seed, escalate, hints):
    rng = random.Random(seed * 131 + 5)
    n = (3000 if tier == 'quick' else 30000) * (4 if escalate else 1)
    out = []
    k = 0
    for _ in range(n):
        c = gen_case(rng)
        r = run_impl(c)
        if r.get('skip'):
            continue
        k += 1
        out += doc_check(c, r)
        # mirror symmetry: reversing both D and w reverses torque and current
        c2 = dict(c, pwm=-c['pwm'], spd=[c['spd'][0], -c['spd'][1], c['spd'][2]])
        r2 = run_impl(c2)
        if c['motor']['i0'] is not None and c['motor']['imax'] is not None and r['err'] is None and r2.get('err') is None and not r2.get('skip'):
            if not math.isnan(r['T'][0]) and (r['T'][0] != -r2['T'][0] or (r['I'] is not None and r['I'][0] != -r2['I'][0])):
                out.append(dict(cls='mirror', what=f'reversing duty cycle and speed does not reverse torque/current exactly: {r["T"]}, {r["I"]} vs {r2["T"]}, {r2["I"]}', case=c))
        if len([x for x in out if x['cls'] != 'D15']) >= 5:
            break
    return out, k


def replay_known(pid, k):
    import oracle_findings as OF
    return OF.replay(k['id'])


def replay(pid, path):
    d = json.load(open(path))
    w = d.get('witness')
    if not w or 'motor' not in (w.get('case') or {}):
        print('no concrete input recorded:', d.get('no_longer_checks'))
        return 1
    ws = doc_check(w['case'], run_impl(w['case']))
    if ws:
        print('still fails:', ws[0]['what'])
        return 1
    print('no longer fails on this input')
    return 0
