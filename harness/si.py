"""Independent SI definitions and dimension table, used only by the failing-input SEARCH (never to decide a passing run).

Written from the SI definitions, not from gearpy's tables: a factor is (rational, power of pi)."""
import math
from fractions import Fraction as F

G0 = F(980665, 100000)

SI = {
    'AngularPosition': {'rad': (F(1), 0), 'deg': (F(1, 180), 1), 'arcmin': (F(1, 10800), 1), 'arcsec': (F(1, 648000), 1),
                        'rot': (F(2), 1)},
    'AngularSpeed': {'rad/s': (F(1), 0), 'rad/min': (F(1, 60), 0), 'rad/h': (F(1, 3600), 0), 'deg/s': (F(1, 180), 1),
                     'deg/min': (F(1, 10800), 1), 'deg/h': (F(1, 648000), 1), 'rps': (F(2), 1), 'rpm': (F(1, 30), 1),
                     'rph': (F(1, 1800), 1)},
    'AngularAcceleration': {'rad/s^2': (F(1), 0), 'deg/s^2': (F(1, 180), 1), 'rot/s^2': (F(2), 1)},
    'InertiaMoment': {'kgm^2': (F(1), 0), 'kgdm^2': (F(1, 100), 0), 'kgcm^2': (F(1, 10 ** 4), 0), 'kgmm^2': (F(1, 10 ** 6), 0),
                      'gm^2': (F(1, 1000), 0), 'gdm^2': (F(1, 10 ** 5), 0), 'gcm^2': (F(1, 10 ** 7), 0), 'gmm^2': (F(1, 10 ** 9), 0)},
    'Torque': {'Nm': (F(1), 0), 'mNm': (F(1, 1000), 0), 'mNdm': (F(1, 10 ** 4), 0), 'mNcm': (F(1, 10 ** 5), 0),
               'mNmm': (F(1, 10 ** 6), 0), 'kNm': (F(1000), 0), 'kNdm': (F(100), 0), 'kNcm': (F(10), 0), 'kNmm': (F(1), 0),
               'kgfm': (G0, 0), 'kgfdm': (G0 / 10, 0), 'kgfcm': (G0 / 100, 0), 'kgfmm': (G0 / 1000, 0),
               'gfm': (G0 / 1000, 0), 'gfdm': (G0 / 10 ** 4, 0), 'gfcm': (G0 / 10 ** 5, 0), 'gfmm': (G0 / 10 ** 6, 0)},
    'Time': {'sec': (F(1), 0), 'min': (F(60), 0), 'hour': (F(3600), 0), 'ms': (F(1, 1000), 0)},
    'Length': {'m': (F(1), 0), 'dm': (F(1, 10), 0), 'cm': (F(1, 100), 0), 'mm': (F(1, 1000), 0)},
    'Surface': {'m^2': (F(1), 0), 'dm^2': (F(1, 100), 0), 'cm^2': (F(1, 10 ** 4), 0), 'mm^2': (F(1, 10 ** 6), 0)},
    'Force': {'N': (F(1), 0), 'mN': (F(1, 1000), 0), 'kN': (F(1000), 0), 'kgf': (G0, 0), 'gf': (G0 / 1000, 0)},
    'Stress': {'Pa': (F(1), 0), 'kPa': (F(1000), 0), 'MPa': (F(10 ** 6), 0), 'GPa': (F(10 ** 9), 0)},
    'Current': {'A': (F(1), 0), 'mA': (F(1, 1000), 0), 'uA': (F(1, 10 ** 6), 0)},
}
PARENT = {'Angle': 'AngularPosition', 'TimeInterval': 'Time'}
KINDS = ['AngularPosition', 'Angle', 'AngularSpeed', 'AngularAcceleration', 'InertiaMoment', 'Torque', 'Time',
         'TimeInterval', 'Length', 'Surface', 'Force', 'Stress', 'Current']
POSITIVE = {'InertiaMoment', 'TimeInterval', 'Length', 'Surface'}
NONNEG = {'Angle'}
PI = F(math.pi)


def base(k):
    return PARENT.get(k, k)


def units(k):
    return list(SI[base(k)])


def factor(k, u):
    """exact SI factor with pi taken as the binary64 pi (relative error 1e-16 w.r.t. the true pi)"""
    q, z = SI[base(k)][u]
    return q * PI ** z


def ffactor(k, u):
    return float(factor(k, u))


def si(k, v, u):
    return F(v) * factor(k, u)


def mul_kind(a, b):
    A, B = base(a), base(b)
    if {A, B} == {'AngularSpeed', 'Time'}:
        return 'AngularPosition'
    if {A, B} == {'AngularAcceleration', 'Time'}:
        return 'AngularSpeed'
    if A == B == 'Length':
        return 'Surface'
    return None


def div_kind(a, b):
    if base(a) == base(b):
        return 'number'
    return {('Torque', 'InertiaMoment'): 'AngularAcceleration', ('Torque', 'Length'): 'Force',
            ('Force', 'Surface'): 'Stress'}.get((a, b))


def addsub_kind(a, b):
    if base(a) != base(b):
        return None
    return a if a == b else base(a)


def valid_value(k, v):
    if k in POSITIVE:
        return v > 0
    if k in NONNEG:
        return v >= 0
    return True
