"""C07: unit independence.  Tie = the correspondences of every model family (their generators draw every input quantity in a random
unit of its kind: behaviour of the code that depends on units and that the models do not share is a disagreement); search = the
metamorphic statement on the implementation (all inputs re-expressed in other units, SI outputs compared)."""
import copy
import json
import math
import random

import lib
import scen
import si as S
import fam_solver
import fam_motor
import fam_rel
import fam_gear
import fam_keys
import oracle_solver as O

RULE = ('correspondence = solver + motor + relations + gear families with random units; search = metamorphic pairs: every input quantity of a '
        'scenario re-expressed in another unit of its kind (each kind\'s unit list cycled through); non-trivial = pair differing in >= 1 unit whose '
        'runs are not within rounding of a discrete threshold')


def correspondence(pid, tier, seed):
    parts = []
    broken = []
    ev, nt = 0, 0
    dist = {}
    for name, fn in (('solver', lambda: fam_solver.correspondence('C12', tier, seed)), ('motor', lambda: fam_motor.correspondence('C08', tier, seed)),
                     ('relations', lambda: fam_rel.correspondence('C10', tier, seed)), ('gear', lambda: fam_gear.correspondence('C09', tier, seed))):
        c = fn()
        if name == 'solver':
            # for unit independence every field concerns the property: report any disagreeing scenario
            if c['distribution'].get('mismatching_any_field', 0) and not c['broken']:
                broken.append(f'solver correspondence: {c["distribution"]["mismatching_any_field"]} scenarios differ between the model and gearpy')
        broken += [f'[{name}] ' + b for b in c['broken']]
        ev += c['evaluations']
        nt += c['nontrivial']
        dist[name] = c['evaluations']
        parts.append(c)
    return dict(ok=not broken, evaluations=ev, nontrivial=nt, samples=parts[0]['samples'][:1], rule=RULE, distribution=dict(families=dist),
                broken=broken, failing_cases=([h for c in parts for h in (c.get('failing_cases') or []) if isinstance(h, dict) and 'scenario' in h][:12] +
                               [h for c in parts for h in (c.get('failing_cases') or []) if isinstance(h, dict) and isinstance(h.get('case'), dict) and 'motor' in h['case']][:12]))


# ------------------------------------------------------------------ metamorphic search
def reexpress(rng, q, cyc):
    """the same magnitude in another unit of the kind (units cycled so that every unit of every kind is used across a campaign)"""
    kind, v, u = q
    us = S.units(kind)
    cyc[kind] = (cyc.get(kind, rng.randrange(len(us))) + 1) % len(us)
    u2 = us[cyc[kind]]
    if u2 == u:
        return q                  # same unit: nothing to re-express (and (v*f)/f would perturb v by an ulp)
    if kind == 'Angle' and q[1] in (14.5, 20, 25, 30) and u == 'deg' and rng.random() < 0.5:
        return q
    return [kind, v * S.ffactor(kind, u) / S.ffactor(kind, u2), u2]


def walk(rng, x, cyc):
    if isinstance(x, list) and len(x) == 3 and isinstance(x[0], str) and x[0] in S.KINDS and isinstance(x[2], str):
        return reexpress(rng, x, cyc)
    if isinstance(x, list):
        return [walk(rng, y, cyc) for y in x]
    if isinstance(x, dict):
        return {k: (walk(rng, v, cyc) if k not in ('load',) else v) for k, v in x.items()}
    return x


def load_reexpress(rng, l):
    u2 = rng.choice(S.units('Torque'))
    f = S.ffactor('Torque', l['u']) / S.ffactor('Torque', u2)
    return dict(c0=l['c0'] * f, ct=l['ct'] * f, cp=l['cp'] * f, cs=l['cs'] * f, u=u2)


def search(pid, tier, seed, escalate, hints):
    rng = random.Random(seed * 613 + 7)
    n = (60 if tier == 'quick' else 900) * (4 if escalate else 1)
    out, k = [], 0
    cyc = {}
    flavours = ['plain', 'schedule', 'plain', 'stop', 'lock', 'control']
    hinted = [h['scenario'] for h in (hints or []) if isinstance(h, dict) and 'scenario' in h]
    todo = [hs for hs in hinted for _ in range(4)]          # the scenarios on which a model and the code disagree, four re-expressions each
    n2 = (100 if tier == 'quick' else 900) * (2 if escalate else 1)
    for i in range(n + len(todo) + n2):
        sc = copy.deepcopy(todo[i]) if i < len(todo) else scen.gen_scenario(rng, flavours[i % len(flavours)])
        if i >= len(todo) + n:
            # a second class: one position-based rule (or disjoint time windows), the controlled run repeated after a reset with the
            # same control objects; in the re-expressed scenario the second set of initial conditions is written in other units than
            # the first (state kept by a rule or a sensor across the reset shows then)
            sc = scen.gen_scenario(rng, 'rules')
            first = next((op for op in sc['ops'] if op[0] == 'run'), None)
            if first is None or not first[3]:
                continue
            sc['ops'] = sc['ops'] + [['reset'], ['setinit', sc['pos0'], sc['spd0']], ['run', first[1], first[2], first[3], first[4]]]
        if i >= len(todo) and rng.random() < 0.5:
            sc = fam_keys.enrich(rng, sc)           # gears with structural data: tooth forces and stresses are outputs too
        sc2 = walk(rng, copy.deepcopy(sc), cyc)
        sc2['load'] = load_reexpress(rng, sc['load'])
        for op in sc2['ops']:
            if op[0] == 'setload':
                op[1] = load_reexpress(rng, op[1])
        r1, r2 = scen.run_impl(sc, keep_objects=True), scen.run_impl(sc2, keep_objects=True)
        k += 1
        if 'Timeout' in (r1['err'] or '') + (r2['err'] or ''):
            continue                    # the harness's own wall-clock limit, not an outcome of the code
        W = lambda cls, what: dict(cls=cls, what=what, case=dict(scenario=sc, reexpressed=sc2))  # noqa
        if (r1['err'] is None) != (r2['err'] is None) or (r1['err'] and r1['err'] != r2['err']):
            if r1.get('build_failed') or r2.get('build_failed'):
                msg = (r1.get('errmsg') or '') + (r2.get('errmsg') or '')
                if 'different helix angles' in msg or 'different modules' in msg or 'different pressure angles' in msg or \
                        ("'pressure_angle' not available" in msg and tabulated_pa(sc2)):
                    out.append(W('D5', f'equal magnitudes in different units compare as different: original {r1["err"] or "builds"}, re-expressed {r2["err"] or "builds"}: {msg[:160]}'))
                    continue
            if threshold_fragile(sc, r1) or threshold_fragile(sc2, r2):
                continue
            out.append(W('outcome', f'original: {r1["err"] or "returns"} ({r1.get("errmsg", "")[:80]}); with re-expressed inputs: {r2["err"] or "returns"} ({r2.get("errmsg", "")[:80]})'))
            continue
        if r1['err'] is not None:
            continue
        rw = reach_witness(sc, r1, r2)
        if rw:
            out.append(W('reach', rw))
            continue
        if threshold_fragile(sc, r1) or threshold_fragile(sc2, r2):
            continue
        if blown_up(sc, r1) or blown_up(sc2, r2):
            continue
        d = O.hist_equal(r1['rows'], r2['rows'], exact=False)
        if d:
            out.append(W('history', f'histories differ after re-expressing the inputs in other units: {d}'))
        elif 'objects' in r1 and 'objects' in r2:
            d = derived_equal(r1['objects'], r2['objects'])
            if d:
                out.append(W('derived', f'after re-expressing the inputs in other units: {d}'))
        if len([w for w in out if w['cls'] != 'D5']) >= 5:
            break
    # the motor law alone: the same motor, speed and duty cycle with every quantity re-expressed (the motor cases on which the model and
    # the code disagree first)
    rng = random.Random(seed * 619 + 13)
    mh = [h['case'] for h in (hints or []) if isinstance(h, dict) and isinstance(h.get('case'), dict) and 'motor' in h['case']]
    mcases = [copy.deepcopy(c_) for c_ in mh for _ in range(3)]
    for i in range(len(mcases) + (400 if tier == 'quick' else 4000)):
        c1 = mcases[i] if i < len(mcases) else fam_motor.gen_case(rng)
        c2 = walk(rng, copy.deepcopy(c1), cyc)
        a, b = fam_motor.run_impl(c1), fam_motor.run_impl(c2)
        k += 1
        if a.get('skip') or b.get('skip'):
            continue
        m_ = O.motor_si(dict(motor=c1['motor']))
        if m_['i0'] is not None and m_['imax'] is not None:
            pmin = m_['i0'] / m_['imax']
            if abs(abs(c1['pwm']) - pmin) <= 1e-9 * max(pmin, 1e-12):
                continue                      # the dead-zone boundary within rounding
        Wm = lambda what: dict(cls='motor', what=what, case=dict(case=c1, reexpressed=c2))  # noqa
        if a.get('err') != b.get('err'):
            out.append(Wm(f'motor law: {a.get("err") or "returns"} with the inputs as given, {b.get("err") or "returns"} after re-expressing them'))
        elif a.get('err') is None:
            ta, tb = a['T'][0] * S.ffactor('Torque', a['T'][1]), b['T'][0] * S.ffactor('Torque', b['T'][1])
            w_ = abs(c1['spd'][1] * S.ffactor('AngularSpeed', c1['spd'][2]))
            sc_t = m_['Tmax'] * (1 + w_ / m_['w0'])
            if not O.close(ta, tb, 1e-9 * sc_t):
                out.append(Wm(f'motor law: driving torque {ta!r} Nm with the inputs as given, {tb!r} Nm after re-expressing them in other units'))
            elif (a['I'] is None) != (b['I'] is None):
                out.append(Wm('motor law: a current is computed for one unit choice only'))
            elif a['I'] is not None:
                ia, ib = a['I'][0] * S.ffactor('Current', a['I'][1]), b['I'][0] * S.ffactor('Current', b['I'][1])
                if not O.close(ia, ib, 1e-9 * m_['imax'] * (1 + w_ / m_['w0']) * (1 + 1 / max(abs(c1['pwm']), 1e-3))):
                    out.append(Wm(f'motor law: current {ia!r} A with the inputs as given, {ib!r} A after re-expressing them in other units'))
        if len([w for w in out if w['cls'] != 'D5']) >= 5:
            break
    # constructors and relations: the same declaration history with re-expressed angles / lengths
    rng = random.Random(seed * 617 + 11)          # its own stream: the cases do not depend on where the loop above stopped
    for i in range(n):
        c = fam_rel.gen_case(rng)
        c2 = copy.deepcopy(c)
        for e in c2['elems']:
            for key in ('module', 'helix', 'pa'):
                if key in e:
                    e[key] = reexpress(rng, e[key], cyc) if not (key == 'pa') else [e[key][0], e[key][1] * S.ffactor('Angle', 'deg') / S.ffactor('Angle', 'arcmin' if i % 2 else 'rad'), 'arcmin' if i % 2 else 'rad']
        a, b = fam_rel.run_impl(c), fam_rel.run_impl(c2)
        k += 1
        if a.get('skip') or b.get('skip'):
            if bool(a.get('skip')) != bool(b.get('skip')) and 'cyclic' not in str(a.get('why')) + str(b.get('why')):
                out.append(dict(cls='constructor', what=f'construction succeeds for one unit choice and fails for the other: {a.get("why")} / {b.get("why")}', case=dict(elems=c['elems'], reexpressed=c2['elems'])))
            continue
        for j, (x, y) in enumerate(zip(a['calls'], b['calls'])):
            if x['err'] != y['err']:
                if near_threshold_call(c, j):
                    break
                if 'different' in x['msg'] + y['msg'] and x['err'] in (None, 'ValueError') and y['err'] in (None, 'ValueError') and \
                        band_explains((c2 if y['err'] else c)['elems'], c['calls'][j]):
                    out.append(dict(cls='D5', what=f'call {j} {c["calls"][j]}: equal magnitudes in different units compare as different: {x["msg"] or "accepted"} / {y["msg"] or "accepted"}',
                                    case=dict(elems=c['elems'], calls=c['calls'], reexpressed=c2['elems'])))
                    break
                out.append(dict(cls='relation-outcome', what=f'call {j} {c["calls"][j]}: {x["err"] or "accepted"} vs {y["err"] or "accepted"} after re-expressing angles/modules', case=dict(elems=c['elems'], calls=c['calls'], reexpressed=c2['elems'])))
                break
            bad = False
            for ox, oy in zip(x['state'], y['state']):
                if (ox['ratio'] is None) != (oy['ratio'] is None) or (ox['ratio'] is not None and abs(ox['ratio'] - oy['ratio']) > 1e-12 * abs(ox['ratio'])) \
                        or abs(ox['eff'] - oy['eff']) > 1e-9 or (ox['lock'] != oy['lock'] and not any(near_threshold_call(c, i) for i in range(j + 1))) or ox['drives'] != oy['drives']:
                    bad = True
            if bad:
                out.append(dict(cls='relation-state', what=f'call {j} {c["calls"][j]}: link state differs after re-expressing angles/modules', case=dict(elems=c['elems'], calls=c['calls'], reexpressed=c2['elems'])))
                break
        if len([w for w in out if w['cls'] != 'D5']) >= 5:
            break
    return out, k


FS = {'tangential force': 'Force', 'bending stress': 'Stress', 'contact stress': 'Stress'}


def derived_equal(o1, o2):
    """the outputs derived from the histories: recorded tooth forces and stresses, and a snapshot between two instants (default units)"""
    (pt1, els1, _), (pt2, els2, _) = o1, o2
    for e1, e2 in zip(els1, els2):
        for key, kind in FS.items():
            a, b = e1.time_variables.get(key), e2.time_variables.get(key)
            if (a is None) != (b is None):
                return f'{e1.name} records {key!r} for one unit choice only'
            if a is None:
                continue
            if len(a) != len(b):
                return f'{e1.name} {key}: {len(a)} vs {len(b)} samples'
            for j, (x, y) in enumerate(zip(a, b)):
                if not (hasattr(x, 'value') and hasattr(y, 'value')):
                    if type(x) is not type(y):
                        return f'{e1.name} {key} sample {j}: {x!r} vs {y!r}'
                    continue
                sx, sy = x.value * S.ffactor(kind, x.unit), y.value * S.ffactor(kind, y.unit)
                if not O.close(sx, sy, 1e-300, 1e-7):
                    return f'{e1.name} {key} sample {j}: {sx!r} vs {sy!r} (SI)'
    # the exported files (default units): the same numbers whatever units the inputs were written in
    if len(pt1.time) >= 1 and len(pt1.time) == len(pt2.time):
        import os
        import tempfile
        import pandas as pd
        with tempfile.TemporaryDirectory() as tmp:
            errs = []
            for j_, pt in enumerate((pt1, pt2)):
                try:
                    pt.export_time_variables(folder_path=os.path.join(tmp, str(j_)))
                    errs.append(None)
                except Exception as ex:  # noqa
                    errs.append(type(ex).__name__)
            if errs[0] != errs[1]:
                return f'export: {errs[0] or "succeeds"} with the inputs as given, {errs[1] or "succeeds"} after re-expressing them'
            if errs[0] is None:
                for e1 in els1:
                    fa, fb = os.path.join(tmp, '0', e1.name + '.csv'), os.path.join(tmp, '1', e1.name + '.csv')
                    if not (os.path.exists(fa) and os.path.exists(fb)):
                        continue
                    da, db = pd.read_csv(fa, float_precision='round_trip'), pd.read_csv(fb, float_precision='round_trip')
                    if list(da.columns) != list(db.columns) or len(da) != len(db):
                        return f'export of {e1.name}: different columns or row counts'
                    for c_ in da.columns:
                        sc_ = max(float(da[c_].abs().max()), float(db[c_].abs().max()), 1e-300)
                        for i_ in range(len(da)):
                            x, y = float(da[c_][i_]), float(db[c_][i_])
                            if (x != x) != (y != y) or (x == x and not O.close(x, y, 1e-9 * sc_, 1e-6)):
                                return f'export of {e1.name}, column {c_!r}, row {i_}: {x!r} vs {y!r}'
    if len(pt1.time) >= 2 and len(pt1.time) == len(pt2.time):
        j = len(pt1.time) // 2
        t1 = pt1.time[j - 1] + (pt1.time[j] - pt1.time[j - 1]) * 0.5 if j >= 1 else pt1.time[0]
        outs = []
        for pt in (pt1, pt2):
            try:
                outs.append(pt.snapshot(target_time=t1, print_data=False))
            except Exception as ex:  # noqa
                outs.append(type(ex).__name__ + ': ' + str(ex)[:100])
        if isinstance(outs[0], str) or isinstance(outs[1], str):
            if isinstance(outs[0], str) != isinstance(outs[1], str):
                return f'snapshot at {t1!r}: {outs[0] if isinstance(outs[0], str) else "returns"} vs {outs[1] if isinstance(outs[1], str) else "returns"}'
            return None
        d1, d2 = outs
        if list(d1.columns) != list(d2.columns) or list(d1.index) != list(d2.index):
            return f'snapshot at {t1!r}: different columns / rows'
        for c_ in d1.columns:
            # the scale of a column: the largest magnitude the variable takes anywhere in the two recorded histories, in the column's unit
            # (an interpolated value between +a and -a can be anything small); the duty cycle is a pure number of scale 1
            var = c_.split(' (')[0]
            scale = 1.0 if var == 'pwm' else 0.0
            if var != 'pwm':
                unit = c_.split(' (')[1].rstrip(')')
                for els_ in (els1, els2):
                    for e_ in els_:
                        for smp in e_.time_variables.get(var, []):
                            try:
                                scale = max(scale, abs(float(smp.to(unit).value)))
                            except Exception:  # noqa
                                pass
            for r_ in d1.index:
                x, y = d1.loc[r_, c_], d2.loc[r_, c_]
                if isinstance(x, (int, float)) and isinstance(y, (int, float)):
                    if (x != x) != (y != y) or (x == x and not O.close(float(x), float(y), 1e-9 * max(scale, 1e-300), 1e-6)):
                        return f'snapshot at {t1!r}: {r_} {c_}: {x!r} vs {y!r} (scale of the variable in the run {scale!r})'
    return None


def blown_up(sc, r):
    """the run has left the regime in which the explicit scheme is stable (motor speed beyond twenty times the no-load speed): every
    perturbation, the last-bit differences of re-expressed inputs included, is then amplified step after step and through the
    cancelling StartLimitCurrent formula; two such runs are not comparable instant by instant at any fixed tolerance"""
    try:
        w0 = O.motor_si(sc)['w0']
        return any(abs(x['spd'][0][0] * S.ffactor('AngularSpeed', x['spd'][0][1])) > 20 * w0 for x in (r.get('rows') or []))
    except Exception:  # noqa
        return False


def reach_witness(sc, r1, r2):
    """scenarios under a ReachAngularPosition rule are not compared instant by instant (where braking starts is a threshold that moves
    with the load torque), but WHEN braking starts must not depend on the units: the first instant at which the duty cycle leaves 1
    may differ by a step or two, not by a tenth of the run"""
    # the final history is what was simulated after the last reset: one run there, under one ReachAngularPosition rule, no stop
    last = max([i for i, op in enumerate(sc['ops']) if op[0] == 'reset'] + [-1])
    single = [op for op in sc['ops'][last + 1:] if op[0] == 'run']
    if len(single) != 1 or not single[0][3] or len(single[0][3]) != 1 or single[0][3][0]['r'] != 'reach' or single[0][4]:
        return None
    if any(op[0] in ('setpwm',) for op in sc['ops']):
        return None
    a, b = r1['rows'], r2['rows']
    if not a or not b or len(a) != len(b):
        return None

    def start(rows):
        for k, r in enumerate(rows):
            if r['pwm'] == r['pwm'] and abs(r['pwm'] - 1) > 1e-9:
                return k
        return len(rows)
    ka, kb = start(a), start(b)
    if abs(ka - kb) > max(3, len(a) // 10):
        return (f'ReachAngularPosition: braking starts at instant {ka} of {len(a)} with the inputs as given and at instant {kb} after re-expressing '
                f'them in other units')
    return None


def band_explains(elems, call):
    """can the absolute 1e-12 band (D5) explain that equal magnitudes compared as different?  Only when a compared value is large
    enough in its unit for rounding of the conversion to reach 1e-12"""
    big = 0.0
    for i in call[1:3]:
        for key in ('module', 'helix', 'pa'):
            if isinstance(i, int) and key in elems[i] and elems[i][key] is not None:
                big = max(big, abs(elems[i][key][1]))
    return big >= 1000


def tabulated_pa(sc):
    """every worm / wheel pressure angle of the scenario is a tabulated angle (up to 1e-9 relative) — its rejection in some unit is the
    absolute comparison band of D5, not a different angle"""
    for e in sc['elems']:
        if e.get('pa') is not None and e.get('kind') in ('worm', 'wheel'):
            d = e['pa'][1] * S.ffactor('Angle', e['pa'][2]) / S.ffactor('Angle', 'deg')
            if min(abs(d - t) for t in (14.5, 20, 25, 30)) > 1e-9 * d:
                return False
    return True


def near_threshold_call(c, j):
    call = c['calls'][j]
    if call[0] == 'worm':
        e = c['elems'][call[1]] if c['elems'][call[1]]['kind'] == 'worm' else c['elems'][call[2]]
        if 'pa' not in e or 'helix' not in e:
            return True
        a, b = math.radians(fam_rel.angle_deg(e['pa'])), math.radians(fam_rel.angle_deg(e['helix']))
        thr = math.cos(a) * math.tan(b)
        f = call[3]
        if abs(f - thr) < 1e-9 * max(thr, 1e-9):
            return True
        for t in (math.tan(b),):
            eff1 = (math.cos(a) - f * t) / (math.cos(a) + f / t) if t else 0
            eff2 = (math.cos(a) - f / t) / (math.cos(a) + f * t) if t else 0
            if min(abs(eff1), abs(eff1 - 1), abs(eff2), abs(eff2 - 1)) < 1e-9:
                return True
    if call[0] == 'gear':
        # two compared parameters that are unequal but within rounding of each other: "equal or different" is a threshold decision
        a, b = c['elems'][call[1]], c['elems'][call[2]]
        for key, kind in (('module', 'Length'), ('helix', 'Angle'), ('pa', 'Angle')):
            if a.get(key) is not None and b.get(key) is not None:
                x, y = a[key][1] * S.ffactor(kind, a[key][2]), b[key][1] * S.ffactor(kind, b[key][2])
                if a[key] != b[key] and abs(abs(x) - abs(y)) <= 1e-9 * max(abs(x), abs(y)):
                    return True
        return call[3] in (0, 1) or abs(call[3] - 1) < 1e-6
    return False


def threshold_fragile(sc, r):
    """a discrete decision within rounding distance of its threshold somewhere in the run (the property's exclusion)"""
    if r['err'] is not None or not r['rows']:
        # a raise may itself be a threshold effect (dt >= T, two rules at a window edge): judge by the inputs
        for op in sc['ops']:
            if op[0] == 'run' and op[3]:
                return True
        return False
    if O.fragile(r['rows']):
        return True
    rows = O.rows_si(r['rows'])
    for op in sc['ops']:
        if op[0] != 'run':
            continue
        if op[3]:
            for x in op[3]:
                if x['r'] == 'const':
                    if O.time_fragile([x], r['rows']):
                        return True
                else:
                    TG = O.sv('AngularPosition', x['target'][1:])
                    for row in rows:
                        p = row['pos'][x['enc']]
                        if abs(p - TG) <= 1e-9 * max(abs(TG), 1e-6):
                            return True
                    if x['r'] == 'reach':
                        return True          # its threshold moves with the load torque: not judged here
        if op[4]:
            s = op[4]
            kind = {'enc': 'AngularPosition', 'tach': 'AngularSpeed', 'amp': 'Current'}[s['sensor'][0]]
            thr = O.sv(kind, s['thr'][1:])
            for row in rows:
                v = {'enc': lambda: row['pos'][s['sensor'][1]], 'tach': lambda: row['spd'][s['sensor'][1]], 'amp': lambda: row['cur']}[s['sensor'][0]]()
                if v is not None and abs(v - thr) <= 1e-9 * max(abs(thr), 1e-6):
                    return True
        # T/dt near a half-integer, or dt within the band of T
        dts = op[1][1] * S.ffactor('Time', op[1][2])
        Ts = op[2][1] * S.ffactor('Time', op[2][2])
        q = Ts / dts
        if abs(q - round(q)) > 0.4 or abs(dts - Ts) < 1e-9:
            return True
    for row in rows:
        if row['pwm'] != 0 and abs(row['pwm']) < 1e-9:
            return True
    return False


def replay_known(pid, k):
    import oracle_findings as OF
    return OF.replay(k['id'])


def replay(pid, path):
    """re-executes the recorded pair (inputs as given / re-expressed) on /repo and compares again"""
    d = json.load(open(path))
    w = d.get('witness') or {}
    case = w.get('case') or {}
    found = None
    if 'scenario' in case and 'reexpressed' in case:
        sc, sc2 = case['scenario'], case['reexpressed']
        r1, r2 = scen.run_impl(sc, keep_objects=True), scen.run_impl(sc2, keep_objects=True)
        if (r1['err'] or None) != (r2['err'] or None):
            found = f'original: {r1["err"] or "returns"}; re-expressed: {r2["err"] or "returns"}'
        elif r1['err'] is None:
            found = reach_witness(sc, r1, r2) or (None if threshold_fragile(sc, r1) or threshold_fragile(sc2, r2) or blown_up(sc, r1) or blown_up(sc2, r2) else O.hist_equal(r1['rows'], r2['rows'], exact=False))
            if not found and 'objects' in r1 and 'objects' in r2:
                found = derived_equal(r1['objects'], r2['objects'])
    elif isinstance(case.get('case'), dict) and 'motor' in case['case'] and 'reexpressed' in case:
        a, b = fam_motor.run_impl(case['case']), fam_motor.run_impl(case['reexpressed'])
        if a.get('err') != b.get('err'):
            found = f'{a.get("err")} vs {b.get("err")}'
        elif a.get('err') is None:
            ta, tb = a['T'][0] * S.ffactor('Torque', a['T'][1]), b['T'][0] * S.ffactor('Torque', b['T'][1])
            if not O.close(ta, tb, 1e-300, 1e-6):
                found = f'driving torque {ta!r} vs {tb!r} Nm'
            elif a['I'] is not None and b['I'] is not None:
                ia, ib = a['I'][0] * S.ffactor('Current', a['I'][1]), b['I'][0] * S.ffactor('Current', b['I'][1])
                if not O.close(ia, ib, 1e-300, 1e-6):
                    found = f'current {ia!r} vs {ib!r} A'
    elif 'elems' in case and 'reexpressed' in case and 'calls' in case:
        a = fam_rel.run_impl(dict(elems=case['elems'], calls=case['calls']))
        b = fam_rel.run_impl(dict(elems=case['reexpressed'], calls=case['calls']))
        if not a.get('skip') and not b.get('skip'):
            for j, (x, y) in enumerate(zip(a['calls'], b['calls'])):
                if x['err'] != y['err'] or any(ox['drives'] != oy['drives'] or ox['lock'] != oy['lock'] for ox, oy in zip(x['state'], y['state'])):
                    found = f'call {j}: outcome or link state differs'
                    break
    else:
        print('replay: re-run the check; recorded witness:', json.dumps(w, default=str)[:800])
        return 1
    if found:
        print('still fails:', found)
        return 1
    print('no longer fails on this pair of inputs')
    return 0
