"""Quantity-layer correspondence: cases for gearpy/units, run on the implementation, written as Coq qcase literals."""
import math
import zlib
import random

import gearpy.units as U
from lib import flit, coq_str

KINDS = ['AngularPosition', 'Angle', 'AngularSpeed', 'AngularAcceleration', 'InertiaMoment', 'Torque', 'Time',
         'TimeInterval', 'Length', 'Surface', 'Force', 'Stress', 'Current']
PARENT = {'Angle': 'AngularPosition', 'TimeInterval': 'Time'}
POSITIVE = {'InertiaMoment', 'TimeInterval', 'Length', 'Surface'}
NONNEG = {'Angle'}
CMPS = {'MEq': '__eq__', 'MNe': '__ne__', 'MGt': '__gt__', 'MGe': '__ge__', 'MLt': '__lt__', 'MLe': '__le__'}
PYOP = {'MEq': lambda a, b: a == b, 'MNe': lambda a, b: a != b, 'MGt': lambda a, b: a > b, 'MGe': lambda a, b: a >= b,
        'MLt': lambda a, b: a < b, 'MLe': lambda a, b: a <= b}
EXN = {'TypeError', 'ValueError', 'KeyError', 'ZeroDivisionError', 'NameError', 'IndexError', 'AttributeError'}


def units_of(kind):
    base = PARENT.get(kind, kind)
    return list(getattr(getattr(U, base), f'_{base}__UNITS').keys())


def factor_of(kind, unit):
    base = PARENT.get(kind, kind)
    return getattr(getattr(U, base), f'_{base}__UNITS')[unit]


def rand_value(rng, kind=None, allow_invalid=True):
    r = rng.random()
    if r < 0.04:
        v = 0.0
    elif r < 0.08:
        v = float(rng.randint(-20, 20))
    elif r < 0.86:
        v = rng.uniform(1, 10) * 10.0 ** rng.randint(-6, 6)
    else:
        v = rng.uniform(1, 10) * 10.0 ** rng.randint(-150, 150)
    if rng.random() < 0.35:
        v = -v
    if kind in POSITIVE and not (allow_invalid and rng.random() < 0.08):
        v = abs(v) or 1.5
    if kind in NONNEG and not (allow_invalid and rng.random() < 0.08):
        v = abs(v)
    return v


def rand_q(rng, kind=None, allow_invalid=False):
    kind = kind or rng.choice(KINDS)
    return ('Q', kind, rand_value(rng, kind, allow_invalid), rng.choice(units_of(kind)))


def rand_num(rng):
    r = rng.random()
    if r < 0.1:
        return ('N', 0.0 if rng.random() < 0.5 else 0)
    if r < 0.3:
        return ('N', rng.randint(-5, 5))
    v = rng.uniform(0.1, 10) * 10.0 ** rng.randint(-3, 3)
    return ('N', -v if rng.random() < 0.3 else v)


def build(lit, allow_int=True):
    if lit[0] == 'Q':
        v = lit[2]
        # one integral value in three is handed over as a Python int (deterministically: a replay builds the same object)
        if allow_int and isinstance(v, float) and v != 0 and v.is_integer() and abs(v) < 2 ** 31 and zlib.crc32(repr(lit).encode()) % 3 == 0:
            v = int(v)
        return getattr(U, lit[1])(v, lit[3])
    if lit[0] == 'N':
        return lit[1]
    return 'foreign'


def outcome(fn):
    try:
        r = fn()
    except Exception as e:  # noqa
        n = type(e).__name__
        return ('E', n if n in EXN else 'Other:' + n)
    if isinstance(r, U.UnitBase):
        return ('Q', type(r).__name__, r.value, r.unit)
    if isinstance(r, bool):
        return ('B', r)
    if isinstance(r, (int, float)):
        return ('N', r)
    if r is None:
        return ('None',)
    return ('E', 'Other:' + type(r).__name__)


def run_impl(case):
    op, a, b = case['op'], case['a'], case['b']
    if op == 'QCtor':
        return outcome(lambda: getattr(U, a[1])(a[2], a[3]))
    # operands are built outside the measured call; an invalid operand is a generator bug
    # an int quantity value next to an int number can give an int zero where floats give -0.0 (0 * -8): ints only on one side
    ok_int = not any(l is not None and l[0] == 'N' and isinstance(l[1], int) for l in (a, b))
    A = build(a, ok_int)
    B = build(b, ok_int) if b is not None else None
    if case.get('pre'):
        try:
            A.to(case['pre'], inplace=True)
        except Exception as e:  # noqa
            n = type(e).__name__
            return ('E', n if n in EXN else 'Other:' + n)
    if op == 'QAdd':
        return outcome(lambda: A + B)
    if op == 'QSub':
        return outcome(lambda: A - B)
    if op == 'QMul':
        return outcome(lambda: A * B)
    if op == 'QDiv':
        return outcome(lambda: A / B)
    if op == 'QRMul':
        return outcome(lambda: A * B)      # A is the number, B the quantity
    if op == 'QAbs':
        return outcome(lambda: abs(A))
    if op == 'QNeg':
        return outcome(lambda: -A)
    if op.startswith('QCmp'):
        return outcome(lambda: PYOP[case['m']](A, B))
    if op == 'QTo':
        return outcome(lambda: A.to(case['u']))
    if op == 'QToInplace':
        return outcome(lambda: A.to(case['u'], inplace=True))
    raise AssertionError(op)


def lit_coq(l):
    if l is None or l[0] == 'S':
        return 'LStr'
    if l[0] == 'Q':
        return f'(LQ K{l[1]} {flit(l[2])} {coq_str(l[3])})'
    return f'(LN {flit(l[1])})'


def out_coq(o):
    if o[0] == 'Q':
        return f'(XQ K{o[1]} {flit(o[2])} {coq_str(o[3])})'
    if o[0] == 'N':
        return f'(XN {flit(o[1])})'
    if o[0] == 'B':
        return f'(XB {"true" if o[1] else "false"})'
    if o[0] == 'None':
        return 'XNone'
    if o[1].startswith('Other'):
        return '(XErr OracleMiss)'      # never produced by the model: always reported
    return f'(XErr {o[1]})'


def case_coq(case, o):
    op = case['op']
    if op == 'QCmp':
        opc = f'(QCmp {case["m"]})'
    elif op in ('QTo', 'QToInplace'):
        opc = f'({op} {coq_str(case["u"])})'
    else:
        opc = op
    pre = f'(Some {coq_str(case["pre"])})' if case.get('pre') else 'None'
    return f'{{| c_op := {opc}; c_a := {lit_coq(case["a"])}; c_b := {lit_coq(case["b"])}; c_pre := {pre}; c_out := {out_coq(o)} |}}'


def valid_q(rng, kind):
    return rand_q(rng, kind, allow_invalid=False)


def sweep_cases(rng):
    """Finite sweeps: every ordered pair of operand classes x {+,-,*,/}; every ordered unit pair per kind for to()
    (copy and in place); every comparison on every kind across two different units."""
    cases = []
    classes = KINDS + ['float', 'int']
    for ka in KINDS:
        for kb in classes:
            for op in ('QAdd', 'QSub', 'QMul', 'QDiv'):
                a = valid_q(rng, ka)
                if kb == 'float':
                    b = ('N', rng.uniform(0.5, 4))
                elif kb == 'int':
                    b = ('N', rng.randint(1, 4))
                else:
                    b = valid_q(rng, kb)
                cases.append(dict(op=op, a=a, b=b, tag='pair'))
        for num in (('N', rng.uniform(0.5, 4)), ('N', rng.randint(1, 4)), ('N', -2.0), ('N', 0)):
            cases.append(dict(op='QRMul', a=num, b=valid_q(rng, ka), tag='pair'))
        # the number on the LEFT of the other operators and of the comparisons (reflected dispatch)
        for op in ('QAdd', 'QSub', 'QDiv'):
            for num in (('N', rng.uniform(0.5, 4)), ('N', rng.randint(0, 4))):
                cases.append(dict(op=op, a=num, b=valid_q(rng, ka), tag='pair'))
        for m in CMPS:
            cases.append(dict(op='QCmp', m=m, a=('N', rng.choice([0, 1, 2.5, -1.0])), b=valid_q(rng, ka), tag='foreign'))
        cases.append(dict(op='QAdd', a=valid_q(rng, ka), b=('S',), tag='foreign'))
        cases.append(dict(op='QMul', a=valid_q(rng, ka), b=('S',), tag='foreign'))
        cases.append(dict(op='QDiv', a=valid_q(rng, ka), b=('S',), tag='foreign'))
        cases.append(dict(op='QCmp', m='MLt', a=valid_q(rng, ka), b=('S',), tag='foreign'))
        cases.append(dict(op='QCmp', m='MEq', a=valid_q(rng, ka), b=('N', 1.0), tag='foreign'))
    for k in KINDS:
        for u1 in units_of(k):
            for u2 in units_of(k):
                v = rand_value(rng, k, allow_invalid=False)
                cases.append(dict(op='QTo', u=u2, a=('Q', k, v, u1), b=None, tag='to'))
                cases.append(dict(op='QToInplace', u=u2, a=('Q', k, v, u1), b=None, tag='to'))
                # comparison across the unit pair: same magnitude computed two ways, and clearly different
                w = v * factor_of(k, u1) / factor_of(k, u2)
                m = rng.choice(list(CMPS))
                cases.append(dict(op='QCmp', m=m, a=('Q', k, v, u1), b=('Q', k, w, u2), tag='cmp-same'))
                m = rng.choice(list(CMPS))
                cases.append(dict(op='QCmp', m=m, a=('Q', k, v, u1), b=('Q', k, w * rng.choice([0.5, 2.0, 1 + 1e-9, 1 - 1e-9]), u2), tag='cmp-diff'))
        cases.append(dict(op='QTo', u='parsec', a=valid_q(rng, k), b=None, tag='to-bad'))
    # family comparisons in both orders (reflected dispatch)
    for (p, c) in (('AngularPosition', 'Angle'), ('Time', 'TimeInterval')):
        for m in CMPS:
            for (ka, kb) in ((p, c), (c, p), (c, c)):
                a = valid_q(rng, ka)
                a = ('Q', ka, abs(a[2]) or 1.0, a[3])
                ub = rng.choice(units_of(kb))
                w = a[2] * factor_of(ka, a[3]) / factor_of(kb, ub)
                for scale in (1.0, 1 + 3e-13, 1 - 3e-13, 2.0):
                    cases.append(dict(op='QCmp', m=m, a=a, b=('Q', kb, w * scale, ub), tag='cmp-family'))
    return cases


def random_cases(rng, n):
    cases = []
    compat = {  # right operand kinds that are not rejected, per op
        'QMul': {'AngularSpeed': ['Time', 'TimeInterval'], 'AngularAcceleration': ['Time', 'TimeInterval'],
                 'Time': ['AngularSpeed', 'AngularAcceleration'], 'Length': ['Length']},
        'QDiv': {'Torque': ['InertiaMoment', 'Length', 'Torque'], 'Force': ['Force', 'Surface']},
    }
    for _ in range(n):
        r = rng.random()
        ka = rng.choice(KINDS)
        a = rand_q(rng, ka)
        if r < 0.30:
            op = rng.choice(['QAdd', 'QSub'])
            fam = [ka] + [c for c, p in PARENT.items() if p == ka] + ([PARENT[ka]] if ka in PARENT else [])
            kb = rng.choice(fam) if rng.random() < 0.9 else rng.choice(KINDS)
            cases.append(dict(op=op, a=a, b=rand_q(rng, kb), tag='addsub'))
        elif r < 0.55:
            op = rng.choice(['QMul', 'QDiv'])
            rr = rng.random()
            if rr < 0.45:
                b = rand_num(rng)
            elif rr < 0.85:
                opts = compat.get(op, {}).get(PARENT.get(ka, ka), []) + ([ka, PARENT.get(ka, ka)] if op == 'QDiv' else [])
                b = rand_q(rng, rng.choice(opts)) if opts else rand_num(rng)
                if rng.random() < 0.05:
                    b = (b[0], b[1], 0.0, b[3]) if b[0] == 'Q' and b[1] not in POSITIVE else b
            else:
                b = rand_q(rng)
            cases.append(dict(op=op, a=a, b=b, tag='muldiv'))
        elif r < 0.62:
            cases.append(dict(op='QRMul', a=rand_num(rng), b=a, tag='rmul'))
        elif r < 0.68:
            cases.append(dict(op=rng.choice(['QAbs', 'QNeg']), a=a, b=None, tag='unary'))
        elif r < 0.82:
            m = rng.choice(list(CMPS))
            fam = [ka] + [c for c, p in PARENT.items() if p == ka] + ([PARENT[ka]] if ka in PARENT else [])
            kb = rng.choice(fam)
            ub = rng.choice(units_of(kb))
            rr = rng.random()
            if rr < 0.5:
                w = a[2] * factor_of(ka, a[3]) / factor_of(kb, ub)
                w *= rng.choice([1.0, 1.0, 1 + 1e-15, 1 - 1e-15, 1 + 1e-12, 1 - 1e-12, 1 + 1e-6, 1 - 1e-6])
                if kb in POSITIVE and w <= 0:
                    w = 1.0
                if kb in NONNEG and w < 0:
                    w = 0.0
                b = ('Q', kb, w, ub)
            else:
                b = rand_q(rng, kb)
            cases.append(dict(op='QCmp', m=m, a=a, b=b, tag='cmp'))
        elif r < 0.93:
            u = rng.choice(units_of(ka)) if rng.random() < 0.97 else 'furlong'
            cases.append(dict(op=rng.choice(['QTo', 'QToInplace']), u=u, a=a, b=None, tag='to'))
        else:
            k = rng.choice(KINDS)
            u = rng.choice(units_of(k)) if rng.random() < 0.9 else rng.choice(units_of(rng.choice(KINDS)))
            cases.append(dict(op='QCtor', a=('Q', k, rand_value(rng, k, allow_invalid=True), u), b=None, tag='ctor'))
    # one case in five with a quantity on the left: that operand is first converted IN PLACE to another unit of its kind (an object's
    # arithmetic, comparisons and further conversions must not depend on how it came to its present value and unit)
    for c in cases:
        if c['op'] not in ('QCtor', 'QRMul') and c['a'] is not None and c['a'][0] == 'Q' and rng.random() < 0.2:
            c['pre'] = rng.choice(units_of(c['a'][1]))
            c['tag'] = c['tag'] + '+inplace'
    return cases


def generate(seed, n_random, with_sweep=True):
    rng = random.Random(seed * 7919 + 13)
    cases = (sweep_cases(rng) if with_sweep else []) + random_cases(rng, n_random)
    return cases


HEADER = """From Coq Require Import ZArith String List PrimFloat.
From GP Require Import ArithDef UnitsCore QuantityCorr.
Import ListNotations. Open Scope string_scope."""
DEFINE = "Definition cases : list qcase :="
