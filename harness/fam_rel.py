"""C10, C20: relation declarations and powertrain assembly.  Tie = coq/Relations.v (binary64) vs gearpy on declaration histories
(failing calls included): the full public link state of every element after every call, and the outcome of Powertrain(motor)."""
import json
import math
import random

import gearpy.units as U
from gearpy.mechanical_objects import DCMotor, SpurGear, HelicalGear, Flywheel, WormGear, WormWheel, MatingMaster, MatingSlave
from gearpy.utils import add_fixed_joint, add_gear_mating, add_worm_gear_mating
from gearpy.powertrain import Powertrain

import lib
import scen
import si as S

RULE = {
    'C10': 'cases = declaration histories over 3-9 elements of all kinds (all four pressure angles, helix angles to the limit, friction and '
           'efficiency in and out of range, incompatible pairs); non-trivial = history with an accepted call or a call rejected after the type checks',
    'C20': 'cases = the same histories followed by Powertrain(motor) (chains of 2-12 elements, re-routed chains, duplicate names); '
           'non-trivial = history that re-routes the chain, or a duplicate name, or >= 2 worm stages',
}
KINDC = {'motor': 'EMotor', 'fly': 'EFly', 'spur': 'ESpur', 'helical': 'EHelical', 'worm': 'EWorm', 'wheel': 'EWheel'}
PA = [14.5, 20, 25, 30]
HMAX = {14.5: 15, 20: 25, 25: 35, 30: 45}


def gen_elems(rng, n):
    els = [dict(kind='motor', name='motor')]
    mod_pool = [scen.in_unit(rng, 'Length', rng.choice([1e-3, 2e-3, 1.5e-3])) for _ in range(2)]
    helix_pool = [['Angle', rng.choice([10.0, 15.0, 20.0, 30.0]), 'deg'] for _ in range(2)]
    pa = rng.choice(PA)
    for i in range(1, n):
        k = rng.choice(['fly', 'spur', 'spur', 'spur', 'helical', 'helical', 'worm', 'wheel', 'worm', 'wheel'])
        name = f'e{i}' if rng.random() < 0.93 else f'e{rng.randint(1, n - 1)}'
        e = dict(kind=k, name=name)
        if k in ('spur', 'helical', 'wheel'):
            e['z'] = rng.randint(10, 80)
            if rng.random() < 0.6:
                m = mod_pool[0] if rng.random() < 0.8 else mod_pool[1]
                if rng.random() < 0.5:           # the same module in another unit
                    u = rng.choice(S.units('Length'))
                    m = ['Length', m[1] * S.ffactor('Length', m[2]) / S.ffactor('Length', u), u]
                e['module'] = m
        if k == 'helical':
            h = helix_pool[0] if rng.random() < 0.8 else helix_pool[1]
            if rng.random() < 0.4:
                u = rng.choice(S.units('Angle'))
                h = ['Angle', h[1] * S.ffactor('Angle', h[2]) / S.ffactor('Angle', u), u]
            e['helix'] = h
        if k in ('worm', 'wheel'):
            p = pa if rng.random() < 0.85 else rng.choice(PA)
            e['pa'] = ['Angle', p, 'deg']
            hm = HMAX[p]
            e['helix'] = ['Angle', rng.choice([hm, hm * 0.999, rng.uniform(0.5, hm), rng.uniform(1, 12), 45.0 if p == 30 else rng.uniform(1, hm)]), 'deg']
            if k == 'worm':
                e['z'] = rng.randint(1, 4)
        els.append(e)
    return els


def gen_calls(rng, els):
    n = len(els)
    calls = []
    gears = [i for i, e in enumerate(els) if e['kind'] in ('spur', 'helical', 'wheel')]
    worms = [i for i, e in enumerate(els) if e['kind'] == 'worm']
    wheels = [i for i, e in enumerate(els) if e['kind'] == 'wheel']
    # a backbone chain from the motor, then extra (re-routing / failing) calls
    order = list(range(1, n))
    rng.shuffle(order)
    prev = 0
    for j in order[:rng.randint(1, n - 1)]:
        calls.append(link_call(rng, els, prev, j))
        prev = j
    for _ in range(rng.randint(0, 4)):
        i, j = rng.randrange(n), rng.randrange(n)
        r = rng.random()
        if r < 0.3:
            calls.insert(rng.randint(0, len(calls)), ['joint', i, j])
        elif r < 0.6 and len(gears) >= 1:
            calls.insert(rng.randint(0, len(calls)), ['gear', rng.choice(gears + [i]), rng.choice(gears + [j]), rand_eff(rng)])
        elif worms and wheels:
            a, b = rng.choice(worms), rng.choice(wheels)
            if rng.random() < 0.5:
                a, b = b, a
            calls.insert(rng.randint(0, len(calls)), ['worm', a, b, rand_f(rng, els, a if els[a]['kind'] == 'worm' else b, a)])
        else:
            calls.insert(rng.randint(0, len(calls)), ['worm', i, j, 0.3])
    return calls


def rand_eff(rng):
    return rng.choice([1, 1.0, 0.9, 0.5, 0.95, 0.8, rng.uniform(0, 1), rng.uniform(0.5, 1), 0, 0.0, 1.0000001, -0.1, 1.5])


def rand_f(rng, els, worm, master):
    e = els[worm]
    a, b = math.radians(e['pa'][1]), math.radians(e['helix'][1] * S.ffactor('Angle', e['helix'][2]) / S.ffactor('Angle', 'deg'))
    thr = math.cos(a) * math.tan(b)
    return rng.choice([thr, math.nextafter(thr, 2), math.nextafter(thr, 0), thr * rng.uniform(0.1, 0.99), thr * rng.uniform(1.01, 3), rng.uniform(0, 1), 0, 1, 1.2, -0.1, 0.05, 0.4])


def link_call(rng, els, i, j):
    ki, kj = els[i]['kind'], els[j]['kind']
    if {ki, kj} == {'worm', 'wheel'} and rng.random() < 0.8:
        w = i if ki == 'worm' else j
        return ['worm', i, j, rand_f(rng, els, w, i)]
    if ki in ('spur', 'helical', 'wheel') and kj in ('spur', 'helical', 'wheel') and rng.random() < (0.85 if (ki == 'spur') == (kj == 'spur') else 0.15):
        return ['gear', i, j, rand_eff(rng)]
    return ['joint', i, j]


def build_elems(els):
    objs = []
    J = U.InertiaMoment(1e-4, 'kgm^2')
    for e in els:
        k = e['kind']
        if k == 'motor':
            o = DCMotor(name=e['name'], inertia_moment=J, no_load_speed=U.AngularSpeed(1000, 'rpm'), maximum_torque=U.Torque(1, 'Nm'))
        elif k == 'fly':
            o = Flywheel(name=e['name'], inertia_moment=J)
        elif k == 'spur':
            o = SpurGear(name=e['name'], n_teeth=e['z'], inertia_moment=J, module=scen.mkq(e['module']) if 'module' in e else None)
        elif k == 'helical':
            o = HelicalGear(name=e['name'], n_teeth=e['z'], inertia_moment=J, helix_angle=scen.mkq(e['helix']), module=scen.mkq(e['module']) if 'module' in e else None)
        elif k == 'worm':
            o = WormGear(name=e['name'], n_starts=e['z'], inertia_moment=J, helix_angle=scen.mkq(e['helix']), pressure_angle=scen.mkq(e['pa']))
        else:
            o = WormWheel(name=e['name'], n_teeth=e['z'], inertia_moment=J, helix_angle=scen.mkq(e['helix']), pressure_angle=scen.mkq(e['pa']),
                          module=scen.mkq(e['module']) if 'module' in e else None)
        objs.append(o)
    return objs


def observe(objs):
    idx = {id(o): i for i, o in enumerate(objs)}
    out = []
    for o in objs:
        drives = getattr(o, 'drives', None)
        driven = getattr(o, 'driven_by', None)
        role = getattr(o, 'mating_role', None)
        ratio = getattr(o, 'master_gear_ratio', None)
        eff = getattr(o, 'master_gear_efficiency', 1)
        lock = getattr(o, 'self_locking', None) if isinstance(o, WormGear) else None
        out.append(dict(drives=idx.get(id(drives)) if drives is not None else None, driven_by=idx.get(id(driven)) if driven is not None else None,
                        role=0 if role is None else (1 if role is MatingMaster else 2), ratio=None if ratio is None else float(ratio),
                        eff=float(eff), lock=0 if lock is None else (2 if lock else 1)))
    return out


def run_impl(sc):
    try:
        objs = build_elems(sc['elems'])
    except Exception as e:  # noqa
        return dict(skip=True, why=f'{type(e).__name__}: {e}')
    outs = []
    orc = []
    for c in sc['calls']:
        err = None
        msg = ''
        try:
            if c[0] == 'joint':
                add_fixed_joint(master=objs[c[1]], slave=objs[c[2]])
            elif c[0] == 'gear':
                add_gear_mating(master=objs[c[1]], slave=objs[c[2]], efficiency=c[3])
            else:
                add_worm_gear_mating(master=objs[c[1]], slave=objs[c[2]], friction_coefficient=c[3])
        except Exception as e:  # noqa
            n = type(e).__name__
            err = n if n in scen.EXN else 'Other:' + n
            msg = str(e)[:200]
        outs.append(dict(err=err, msg=msg, state=observe(objs)))
    for e in sc['elems']:                       # libm oracle: cos / tan of every declared angle
        for key, fns in (('pa', ('LCos',)), ('helix', ('LTan', 'LSin', 'LCos'))):
            if key in e:
                x = 2 * math.pi * (1 / 2 / math.pi) * scen.mkq(e[key]).to('rad').value
                for fn in fns:
                    orc.append([fn, x, {'LCos': math.cos, 'LTan': math.tan, 'LSin': math.sin}[fn](x)])
    asm = None
    st_last = outs[-1]['state'] if outs else observe(objs)
    seen_, i_ = {0}, 0
    while st_last[i_]['drives'] is not None:            # a cyclic 'drives' graph: Powertrain(motor) would not terminate
        i_ = st_last[i_]['drives']
        if i_ in seen_:
            return dict(skip=True, why='cyclic drives graph')
        seen_.add(i_)
    try:
        pt = Powertrain(motor=objs[0])
        idx = {id(o): i for i, o in enumerate(objs)}
        asm = dict(ids=[idx[id(o)] for o in pt.elements], selflock=bool(pt.self_locking), err=None, tuple=isinstance(pt.elements, tuple))
        try:
            pt.elements = ()
            asm['mutable'] = True
        except AttributeError:
            asm['mutable'] = False
        try:
            pt.self_locking = not pt.self_locking
            asm['mutable'] = True
        except AttributeError:
            pass
        asm['after'] = afterwards(pt, objs, idx)
    except Exception as e:  # noqa
        n = type(e).__name__
        asm = dict(err=n if n in scen.EXN else 'Other:' + n)
    return dict(calls=outs, asm=asm, oracle=orc)


def afterwards(pt, objs, idx):
    """'cannot be changed afterwards': use the assembled powertrain the way a script would go on using it -- re-declare every worm
    mating of the chain with a friction coefficient on the other side of its self-locking threshold, simulate, reset, then extend
    the chain behind the last element -- and observe elements / self_locking again"""
    from gearpy.solver import Solver
    log = []
    chain = list(pt.elements)
    for o in chain:
        if isinstance(o, WormGear):
            for mate, worm_is_master in ((getattr(o, 'drives', None), True), (getattr(o, 'driven_by', None), False)):
                if isinstance(mate, WormWheel):
                    f2 = 1e-3 if o.self_locking else 0.99
                    try:
                        add_worm_gear_mating(master=o if worm_is_master else mate, slave=mate if worm_is_master else o, friction_coefficient=f2)
                        log.append(f'worm mating of {o.name} re-declared with friction {f2}')
                    except Exception as e:  # noqa
                        log.append(f're-declaration raised {type(e).__name__}')
    try:
        last = chain[-1]
        last.external_torque = lambda: U.Torque(0, 'Nm')
        last.angular_position = U.AngularPosition(0, 'rad')
        last.angular_speed = U.AngularSpeed(0, 'rad/s')
        Solver(powertrain=pt).run(time_discretization=U.TimeInterval(1, 'ms'), simulation_time=U.TimeInterval(3, 'ms'))
        log.append('run')
    except Exception as e:  # noqa
        log.append(f'run raised {type(e).__name__}')
    try:
        pt.reset()
        log.append('reset')
    except Exception as e:  # noqa
        log.append(f'reset raised {type(e).__name__}')
    mid = dict(ids=[idx.get(id(o), -1) for o in pt.elements], selflock=bool(pt.self_locking))
    try:
        add_fixed_joint(master=chain[-1], slave=Flywheel(name='appended afterwards', inertia_moment=U.InertiaMoment(1e-4, 'kgm^2')))
        log.append('joint appended behind the last element')
    except Exception as e:  # noqa
        log.append(f'appending raised {type(e).__name__}')
    return dict(mid=mid, ids=[idx.get(id(o), -1) for o in pt.elements], selflock=bool(pt.self_locking), log=log)


def cdecl(e):
    return (f'(@Build_edecl FX {KINDC[e["kind"]]} {lib.coq_str(e["name"])} {e.get("z", 0)}%Z {scen.copt(e.get("module"), scen.cq)} '
            f'{scen.copt(e.get("helix"), scen.cq)} {scen.copt(e.get("pa"), scen.cq)})')


def cobs(o):
    on = lambda x: 'None' if x is None else f'(Some {x}%nat)'  # noqa
    return (f'{{| o_drives := {on(o["drives"])}; o_driven_by := {on(o["driven_by"])}; o_role := {o["role"]}%nat; '
            f'o_ratio := {scen.copt(o["ratio"], lib.flit)}; o_eff := {lib.flit(o["eff"])}; o_lock := {o["lock"]}%nat |}}')


def ccall(c, out):
    if c[0] == 'joint':
        call = f'(@CJoint FX {c[1]}%nat {c[2]}%nat)'
    elif c[0] == 'gear':
        call = f'(@CGear FX {c[1]}%nat {c[2]}%nat {lib.flit(c[3])})'
    else:
        call = f'(@CWorm FX {c[1]}%nat {c[2]}%nat {lib.flit(c[3])})'
    st = scen.clist([cobs(o) for o in out['state']])
    if out['err'] is None:
        return f'({call}, CallOk {st})'
    e = out['err'] if not out['err'].startswith('Other') else 'OracleMiss'
    return f'({call}, CallErr {e} {st})'


def case_coq(sc, r):
    a = r['asm']
    if a['err'] is None:
        fin = a.get('after') or a                 # what the powertrain shows after it has been used (it must still be the assembled value)
        ids = fin['ids'] if all(i >= 0 for i in fin['ids']) else fin['ids'][:-1] + [len(sc['elems'])]
        asm = f'(AsmOk {scen.clist([f"{i}%nat" for i in ids])} {"true" if fin["selflock"] else "false"})'
    else:
        asm = f'(AsmErr {a["err"] if not a["err"].startswith("Other") else "OracleMiss"})'
    return (f'{{| rc_elems := {scen.clist([cdecl(e) for e in sc["elems"]])}; rc_calls := {scen.clist([ccall(c, o) for c, o in zip(sc["calls"], r["calls"])])}; '
            f'rc_motor := 0%nat; rc_asm := {asm} |}}')


HEADER_EXTRA = "From GP Require Import Relations RelCorr."


def gen_case(rng):
    els = gen_elems(rng, rng.randint(3, 9) if rng.random() < 0.85 else rng.randint(9, 12))
    return dict(elems=els, calls=gen_calls(rng, els))


def correspondence(pid, tier, seed):
    rng = random.Random(seed * 7001 + 3)
    n = lib.size(600, 8000, tier)
    cases = [gen_case(rng) for _ in range(n)]
    outs = [run_impl(c) for c in cases]
    pairs = [(c, r) for c, r in zip(cases, outs) if not r.get('skip')]
    per = 100
    shards = []
    for i in range(0, len(pairs), per):
        orc = []
        seen = set()
        for _, r in pairs[i:i + per]:
            for o in r['oracle']:
                if (o[0], o[1]) not in seen:
                    seen.add((o[0], o[1]))
                    orc.append(o)
        shards.append((scen.header_with_oracle(orc).replace('Import ListNotations.', HEADER_EXTRA + ' Import ListNotations.'),
                       [case_coq(c, r) for c, r in pairs[i:i + per]]))
    ans, errs = lib.run_shards('rel', shards, 'Definition cases : list (rcase O) :=', 'rfailing O cases')
    broken = []
    if errs:
        broken.append('relations correspondence: a case file did not evaluate: ' + errs[0][1][-400:])
    bad = []
    for si_, a in enumerate(ans):
        for (i, code, _) in lib.parse_triples(a):
            bad.append((si_ * per + i, code))
    rounding = [(g, c) for g, c in bad if c >= 400]            # a ratio / efficiency differing in its last bits only: recorded, not a broken tie
    bad = [(g, c) for g, c in bad if c < 400]
    mine = [(g, c) for g, c in bad if (c >= 100) == (pid == 'C10') or pid == 'C10' and c >= 100 or pid == 'C20' and c < 100]
    failing = []
    if mine:
        g, code = mine[0]
        failing = [dict(case=pairs[g2][0], code=c2) for g2, c2 in mine[:10]]
        broken.append(f'relations correspondence: the model (binary64) and gearpy differ on {len(mine)} of {len(pairs)} declaration histories '
                      f'(first: case {g}, code {code}: 100+k = outcome class of call k, 200+k = link state after call k, 50-52 = Powertrain(motor)); '
                      f'{json.dumps(pairs[g][0]["calls"])[:300]}')
    dist = {}
    for c, r in pairs:
        for cc, o in zip(c['calls'], r['calls']):
            k = cc[0] + ':' + (o['err'] or 'ok')
            dist[k] = dist.get(k, 0) + 1
        k = 'assemble:' + (r['asm']['err'] or 'ok')
        dist[k] = dist.get(k, 0) + 1
    if pid == 'C10':
        nt = sum(1 for c, r in pairs if any(o['err'] in (None, 'ValueError') for o in r['calls']))
    else:
        nt = sum(1 for c, r in pairs if len({e['name'] for e in c['elems']}) < len(c['elems']) or sum(1 for e in c['elems'] if e['kind'] == 'worm') >= 2 or len(c['calls']) > len(c['elems']))
    return dict(ok=not broken, evaluations=len(pairs), nontrivial=nt, samples=[dict(case=c) for c, r in pairs[:3]], rule=RULE[pid],
                distribution=dict(outcomes=dist, skipped=len(cases) - len(pairs), rounding_level_only=len(rounding)), broken=broken, failing_cases=failing)


# ------------------------------------------------------------------ search: the statements on the implementation
def angle_deg(q):
    return q[1] * S.ffactor('Angle', q[2]) / S.ffactor('Angle', 'deg')


def c10_check(sc, r):
    out = []
    els = sc['elems']
    prev = [dict(drives=None, driven_by=None, role=0, ratio=None, eff=1.0, lock=0) for e in els]
    for k, (c, o) in enumerate(zip(sc['calls'], r['calls'])):
        st = o['state']
        i, j = c[1], c[2]
        W = lambda cls, what: dict(cls=cls, what=f'call {k} {c}: {what}', case=dict(elems=els, calls=sc['calls'][:k + 1]))  # noqa
        if o['err'] is not None:
            if st != prev:
                ch = [(x, a, b) for x, (a, b) in enumerate(zip(prev, st)) if a != b]
                out.append(W('frame', f'rejected with {o["err"]} but elements changed: {ch[:2]}'))
                return out
        else:
            for x in range(len(els)):
                if x not in (i, j) and st[x] != prev[x]:
                    out.append(W('frame-others', f'accepted call changed element {x}: {prev[x]} -> {st[x]}'))
                    return out
            if st[i]['drives'] != j or st[j]['driven_by'] != i:
                out.append(W('link', f'not mutually linked: {st[i]}, {st[j]}'))
                return out
            ki, kj = els[i]['kind'], els[j]['kind']
            if c[0] == 'joint':
                want_ratio, want_eff = 1.0, prev[j]['eff']
            elif c[0] == 'gear':
                want_ratio, want_eff = els[j]['z'] / els[i]['z'], float(c[3])
            else:
                f = c[3]
                a = math.radians(angle_deg(els[i]['pa']))
                b = math.radians(angle_deg(els[i]['helix']))
                if ki == 'worm':
                    want_ratio = els[j]['z'] / els[i]['z']
                    want_eff = (math.cos(a) - f * math.tan(b)) / (math.cos(a) + f / math.tan(b))
                    w = i
                else:
                    want_ratio = els[j]['z'] / els[i]['z']
                    want_eff = (math.cos(a) - f / math.tan(b)) / (math.cos(a) + f * math.tan(b))
                    w = j
                aw = math.radians(angle_deg(els[w]['pa']))
                bw = math.radians(angle_deg(els[w]['helix']))
                thr = math.cos(aw) * math.tan(bw)
                if abs(f - thr) > 1e-9 * max(thr, 1e-9):
                    if (st[w]['lock'] == 2) != (f > thr):
                        out.append(W('selflock', f'worm flagged self_locking={st[w]["lock"] == 2}, but f={f!r} vs cos(alpha)*tan(beta)={thr!r}'))
                        return out
            if c[0] != 'joint' and (st[i]['role'] != 1 or st[j]['role'] != 2):
                out.append(W('roles', f'roles are {st[i]["role"]}, {st[j]["role"]} (1 = master, 2 = slave)'))
                return out
            if st[j]['ratio'] is None or abs(st[j]['ratio'] - want_ratio) > 1e-12 * want_ratio or not st[j]['ratio'] > 0:
                out.append(W('ratio', f'slave ratio {st[j]["ratio"]!r}, expected {want_ratio!r}'))
                return out
            if abs(st[j]['eff'] - want_eff) > 1e-9 or not (0 <= st[j]['eff'] <= 1):
                out.append(W('efficiency', f'slave efficiency {st[j]["eff"]!r}, expected {want_eff!r} within [0, 1]'))
                return out
        # incompatible pairs must be rejected
        if o['err'] is None and c[0] == 'gear':
            ei, ej = els[i], els[j]
            if ('module' in ei and 'module' in ej and abs(S.si('Length', *ei['module'][1:]) - S.si('Length', *ej['module'][1:])) > 1e-9) \
                    or (ei['kind'] == 'spur') != (ej['kind'] == 'spur') or i == j:
                out.append(W('accepted-incompatible', f'incompatible gears accepted: {ei}, {ej}'))
                return out
        prev = st
    return out


def c20_check(sc, r):
    out = []
    a = r['asm']
    st = r['calls'][-1]['state'] if r['calls'] else None
    if st is None:
        return out
    W = lambda cls, what: dict(cls=cls, what=what, case=dict(elems=sc['elems'], calls=sc['calls']))  # noqa
    # the chain reachable from the motor by 'drives'
    path, seen, i = [0], {0}, 0
    while st[i]['drives'] is not None:
        i = st[i]['drives']
        if i in seen:
            return out              # cyclic graph: outside the statement (the constructor does not terminate)
        seen.add(i)
        path.append(i)
    names = [sc['elems'][x]['name'] for x in path]
    if len(path) == 1:
        if a['err'] != 'ValueError':
            out.append(W('motor-drives-nothing', f'the motor drives nothing but Powertrain(motor) gave {a}'))
        return out
    if len(set(names)) < len(names):
        if a['err'] != 'NameError':
            out.append(W('duplicate-name', f'names {names} repeat but Powertrain(motor) gave {a}'))
        return out
    if a['err'] is not None:
        out.append(W('assembly-raises', f'Powertrain(motor) raised {a["err"]} for the chain {path}'))
        return out
    if a['ids'] != path:
        out.append(W('elements', f'powertrain.elements is {a["ids"]}, the drive chain from the motor is {path}'))
    want = any(sc['elems'][x]['kind'] == 'worm' and st[x]['lock'] == 2 for x in path)
    if a['selflock'] != want:
        out.append(W('self-locking', f'powertrain.self_locking is {a["selflock"]}, worm flags along the chain {[(x, st[x]["lock"] == 2) for x in path if sc["elems"][x]["kind"] == "worm"]}'))
    af = a.get('after')
    if af and (af['mid']['ids'] != a['ids'] or af['mid']['selflock'] != a['selflock'] or af['ids'] != a['ids'] or af['selflock'] != a['selflock']):
        out.append(W('changed-afterwards', f'at assembly elements {a["ids"]} self_locking {a["selflock"]}; after [{"; ".join(af["log"])}]: '
                                           f'elements {af["mid"]["ids"]} -> {af["ids"]}, self_locking {af["mid"]["selflock"]} -> {af["selflock"]}'))
    if a.get('mutable') or not a.get('tuple'):
        out.append(W('mutable', 'powertrain.elements / self_locking can be reassigned, or elements is not a tuple'))
    return out


def search(pid, tier, seed, escalate, hints):
    rng = random.Random(seed * 911 + 1)
    n = (600 if tier == 'quick' else 6000) * (4 if escalate else 1)
    out, k = [], 0
    for _ in range(n):
        sc = gen_case(rng)
        r = run_impl(sc)
        if r.get('skip'):
            continue
        k += 1
        out += c10_check(sc, r) if pid == 'C10' else c20_check(sc, r)
        if len(out) >= 5:
            break
    return out, k


def replay_known(pid, k):
    import oracle_findings as OF
    return OF.replay(k['id'])


def replay(pid, path):
    d = json.load(open(path))
    w = d.get('witness')
    if not w or 'elems' not in (w.get('case') or {}):
        print('no concrete input recorded:', d.get('no_longer_checks'))
        return 1
    sc = w['case']
    r = run_impl(sc)
    ws = c10_check(sc, r) if pid == 'C10' else c20_check(sc, r)
    if ws:
        print('still fails:', ws[0]['what'])
        return 1
    print('no longer fails on this history')
    return 0
