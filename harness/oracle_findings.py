"""Replays of the recorded findings on the implementation (known: still expected to fail; fixed: must not fail again)."""
import math
import os
import sys
import tempfile

sys.path.insert(0, os.path.join(os.path.dirname(os.path.abspath(__file__)), '..', 'findings'))
from common import *  # noqa: F401,F403  (gearpy classes and the two example trains)


def d1():
    pt = spur_train()
    Solver(pt).run(TimeInterval(0.1, 'sec'), TimeInterval(0.3, 'sec'))
    n, last = len(pt.time) - 1, pt.time[-1]
    return n != 3 or abs(last.to('sec').value - 0.3) > 1e-9, f'run(dt=0.1 s, T=0.3 s) records {n} further instants, last {last}'


def d2():
    pt = spur_train()
    s = Solver(pt)
    s.run(TimeInterval(0.5, 'sec'), TimeInterval(2, 'sec'))
    s.run(TimeInterval(500, 'ms'), TimeInterval(2000, 'ms'))
    return len(pt.time) != 9, f'run(0.5 s, 2 s) then run(500 ms, 2000 ms): {len(pt.time)} instants recorded, 9 expected'


def d3():
    pt = worm_train(load=Torque(50, 'Nm'))
    s = Solver(pt)
    s.run(TimeInterval(1, 'ms'), TimeInterval(10, 'ms'))
    a0 = pt.elements[-1].time_variables['angular acceleration'][0].to('rad/s^2').value
    pt.reset()
    s.run(TimeInterval(1, 'ms'), TimeInterval(10, 'ms'))
    a1 = pt.elements[-1].time_variables['angular acceleration'][0].to('rad/s^2').value
    return a0 != a1, f'self-locking train, reset and rerun on the same solver: instant-0 acceleration {a0!r} -> {a1!r}'


def d4():
    def once(pt, solver):
        c = PWMControl(powertrain=pt)
        c.add_rule(ConstantPWM(timer=Timer(start_time=Time(0, 'sec'), duration=TimeInterval(1, 'sec')), powertrain=pt, target_pwm_value=0))
        solver.run(TimeInterval(1, 'ms'), TimeInterval(10, 'ms'), motor_control=c)
        return pt.elements[-1].time_variables['angular acceleration'][0].to('rad/s^2').value
    pt = worm_train(load=Torque(-5, 'Nm'))
    a0 = once(pt, Solver(pt))
    pt.reset()
    a1 = once(pt, Solver(pt))
    return a0 != a1, (f'self-locking train with ConstantPWM(0) from t=0: reset + rerun with a new solver changes the instant-0 acceleration '
                      f'{a0!r} -> {a1!r} (reset restores the post-control duty cycle, which the lock test of instant 0 reads)')


def d7():
    try:
        WormGear(name='w', n_starts=1, inertia_moment=InertiaMoment(1e-4, 'kgm^2'), helix_angle=Angle(10, 'deg'),
                 pressure_angle=Angle(30 * math.pi / 180, 'rad'))
        w2 = WormGear(name='w', n_starts=1, inertia_moment=InertiaMoment(1e-4, 'kgm^2'), helix_angle=Angle(10, 'deg'),
                      pressure_angle=Angle(14.5 * 60, 'arcmin'))
        return False, ''
    except Exception as e:  # noqa
        return True, f'WormGear with the pressure angle given in rad / arcmin raises {type(e).__name__}: {e}'


def d8():
    m = DCMotor(name='m', inertia_moment=InertiaMoment(1e-4, 'kgm^2'), no_load_speed=AngularSpeed(100, 'rad/s'), maximum_torque=Torque(1, 'Nm'),
                no_load_electric_current=Current(0.7, 'A'), maximum_electric_current=Current(3, 'A'))
    m.angular_speed = AngularSpeed(10, 'rad/s')
    m.pwm = 0.23333333333333334
    try:
        m.compute_torque()
        m.compute_electric_current()
        return False, ''
    except ZeroDivisionError as e:
        return True, f'i0=0.7 A, imax=3 A, D=0.23333333333333334 (1 ulp above the dead zone): ZeroDivisionError in the current law ({e})'


def d9():
    worm = WormGear(name='worm', n_starts=1, inertia_moment=InertiaMoment(1e-4, 'kgm^2'), helix_angle=Angle(45, 'deg'), pressure_angle=Angle(30, 'deg'))
    wheel = WormWheel(name='wheel', n_teeth=50, inertia_moment=InertiaMoment(5e-4, 'kgm^2'), helix_angle=Angle(45, 'deg'), pressure_angle=Angle(30, 'deg'))
    try:
        add_worm_gear_mating(master=worm, slave=wheel, friction_coefficient=1)
        return False, ''
    except ValueError:
        bad = bool(worm.drives is not None or wheel.driven_by is not None or wheel.master_gear_ratio is not None or worm.self_locking)
        return bad, f'rejected add_worm_gear_mating(f=1) leaves drives={worm.drives}, ratio={wheel.master_gear_ratio}, self_locking={worm.self_locking}'


def d10():
    pt = spur_train()
    motor = pt.elements[0]
    c = PWMControl(powertrain=pt)
    c.add_rule(StartLimitCurrent(encoder=AbsoluteRotaryEncoder(pt.elements[-1]), tachometer=Tachometer(motor), motor=motor,
                                 target_angular_position=AngularPosition(10, 'rad'), limit_electric_current=Current(0.05, 'A')))
    pt.elements[-1].angular_speed = AngularSpeed(3000 * 0.075 / 3, 'rpm')
    try:
        Solver(pt).run(TimeInterval(1, 'ms'), TimeInterval(5, 'ms'), motor_control=c)
    except ValueError:
        return False, ''
    bad = any(isinstance(p, float) and math.isnan(p) for p in motor.time_variables['pwm'])
    return bad, 'StartLimitCurrent with a limit below the no-load current records a NaN duty cycle'


def d11():
    pt = spur_train(load=Torque(-5, 'mNm'))
    c = PWMControl(powertrain=pt)
    c.add_rule(ReachAngularPosition(encoder=AbsoluteRotaryEncoder(pt.elements[-1]), powertrain=pt,
                                    target_angular_position=AngularPosition(1, 'rad'), braking_angle=Angle(0.5, 'rad')))
    try:
        Solver(pt).run(TimeInterval(1, 'ms'), TimeInterval(5, 'ms'), motor_control=c)
        return False, ''
    except ValueError as e:
        return True, f'ReachAngularPosition with a load torque of -5 mNm raises ValueError: {e}'


def d13():
    pt = worm_train(load=Torque(1, 'Nm'), friction=0.1, helix=10, worm_diameter=False, wheel_data=True)
    Solver(pt).run(TimeInterval(1, 'ms'), TimeInterval(10, 'ms'))
    wheel = pt.elements[-1]
    n = len(wheel.time_variables.get('bending stress', []))
    adv = 'bending stress' in wheel.time_variables
    return adv and n != len(pt.time), (f'worm wheel (module, face width) mated with a worm without reference diameter advertises "bending stress" '
                                       f'but records {n} samples for {len(pt.time)} instants (export_time_variables then raises)')


def d14():
    pt = spur_train()
    Solver(pt).run(TimeInterval(1, 'ms'), TimeInterval(10, 'ms'))
    df = pt.snapshot(target_time=Time(5, 'ms'), variables=['angular speed'], print_data=False)
    cols = list(df.columns)
    return cols != ['angular speed (rad/s)'], f"snapshot(variables=['angular speed']) has columns {cols}"


def d16():
    pt = spur_train()
    Solver(pt).run(TimeInterval(0.0131, 'sec'), TimeInterval(0.1572, 'sec'))
    t = pt.time[-1].to('ms')
    try:
        pt.snapshot(target_time=t, print_data=False)
        return False, ''
    except ValueError as e:
        return True, f'snapshot at the last recorded instant expressed in ms ({t}) raises ValueError: {str(e)[:120]}'


def d15():
    m = DCMotor(name='m', inertia_moment=InertiaMoment(1e-4, 'kgm^2'), no_load_speed=AngularSpeed(100, 'rad/s'), maximum_torque=Torque(1, 'Nm'),
                no_load_electric_current=Current(0, 'A'), maximum_electric_current=Current(2, 'A'))
    m.angular_speed = AngularSpeed(10, 'rad/s')
    m.pwm = 5e-324
    m.compute_torque()
    t = m.driving_torque.value
    return math.isnan(t) or math.isinf(t), f'motor with i0 = 0 at duty cycle 5e-324 (a floating-point neighbour of the dead-zone boundary 0) and 10 rad/s: driving torque {t!r}'


def d5():
    import oracle_quantity
    return oracle_quantity.d5_replay()


def d6():
    import oracle_quantity
    return oracle_quantity.d6_replay()


TABLE = dict(D5=d5, D6=d6, D15=d15, D1=d1, D2=d2, D3=d3, D4=d4, D7=d7, D8=d8, D9=d9, D10=d10, D11=d11, D13=d13, D14=d14, D16=d16)


def replay(fid):
    f = TABLE.get(fid)
    if f is None:
        return False, ''
    try:
        return f()
    except Exception as e:  # noqa
        return True, f'replay of {fid} raised {type(e).__name__}: {e}'
