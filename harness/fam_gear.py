"""C09: tooth force and stresses.  Tie = coq/Gears.v (binary64, regenerated tables, libm as oracle tables) vs gearpy's
compute_tangential_force / compute_bending_stress / compute_contact_stress / lewis_factor, bit for bit; search = the documented
formulas in SI on the implementation."""
import copy
import json
import math
import random

import gearpy.units as U
from gearpy.mechanical_objects import SpurGear, HelicalGear, WormGear, WormWheel
from gearpy.utils import add_gear_mating, add_worm_gear_mating

import lib
import scen
import si as S

RULE = ('cases = mated pairs of every kind (spur, helical, worm-wheel in both orientations), teeth 10..600 exhaustively for the Lewis factor, '
        'helix angles in [0,90) deg, the four worm pressure angles, every subset of the optional data, torques of either sign; '
        'non-trivial = a formula that returns a number (not rejected)')
KINDC = {'spur': 'ESpur', 'helical': 'EHelical', 'worm': 'EWorm', 'wheel': 'EWheel'}
PA = [14.5, 20, 25, 30]
HMAX = {14.5: 15, 20: 25, 25: 35, 30: 45}


def opt(rng, kind, full=False):
    o = {}
    p = 0.9 if full else 0.7
    if kind in ('spur', 'helical', 'wheel'):
        if rng.random() < p:
            o['module'] = scen.in_unit(rng, 'Length', rng.choice([1e-3, 2e-3, 0.5e-3, rng.uniform(0.3e-3, 5e-3)]))
        if rng.random() < p:
            o['face_width'] = scen.in_unit(rng, 'Length', rng.uniform(2e-3, 40e-3))
        if kind != 'wheel' and rng.random() < p:
            o['elastic_modulus'] = scen.in_unit(rng, 'Stress', rng.uniform(1e9, 250e9))
    if kind == 'worm' and rng.random() < p:
        o['reference_diameter'] = scen.in_unit(rng, 'Length', rng.uniform(5e-3, 60e-3))
    return o


def pa_deg(e):
    d = e['pa'][1] * S.ffactor('Angle', e['pa'][2]) / S.ffactor('Angle', 'deg')
    return min(PA, key=lambda x: abs(x - d))


def gen_pair(rng):
    kind = rng.choice(['spur', 'helical', 'wormwheel', 'wheelworm'])
    full = rng.random() < 0.6
    if kind == 'spur':
        a = dict(kind='spur', z=rng.randint(10, 120), opt=opt(rng, 'spur', full))
        b = dict(kind='spur', z=rng.randint(10, 600), opt=opt(rng, 'spur', full))
        if 'module' in a['opt'] and 'module' in b['opt']:
            b['opt']['module'] = a['opt']['module']
    elif kind == 'helical':
        h = ['Angle', rng.choice([0.0, 5.0, 15.0, 30.0, 45.0, 60.0, 89.0, rng.uniform(0, 89.9)]), 'deg']
        if rng.random() < 0.4:
            u = rng.choice(S.units('Angle'))
            h = ['Angle', h[1] * S.ffactor('Angle', 'deg') / S.ffactor('Angle', u), u]
        a = dict(kind='helical', z=rng.randint(10, 120), helix=h, opt=opt(rng, 'helical', full))
        b = dict(kind='helical', z=rng.randint(10, 300), helix=h, opt=opt(rng, 'helical', full))
        if 'module' in a['opt'] and 'module' in b['opt']:
            b['opt']['module'] = a['opt']['module']
    else:
        pa = rng.choice(PA)
        hw = ['Angle', rng.uniform(1, HMAX[pa]), 'deg']
        hh = hw if rng.random() < 0.6 else ['Angle', rng.uniform(1, HMAX[pa]), 'deg']        # the wheel's own helix angle may differ
        paq = ['Angle', pa, 'deg']
        if rng.random() < 0.3:               # the tabulated angle in another unit, possibly an ulp or a sub-tolerance amount off (list.index semantics)
            u = rng.choice(S.units('Angle'))
            v = pa * S.ffactor('Angle', 'deg') / S.ffactor('Angle', u)
            paq = ['Angle', rng.choice([v, v, math.nextafter(v, math.inf), v * (1 + 2e-16), v + 1e-14 * S.ffactor('Angle', 'deg') / S.ffactor('Angle', u)]), u]
        worm = dict(kind='worm', z=rng.randint(1, 4), helix=hw, pa=paq, opt=opt(rng, 'worm', full))
        wheel = dict(kind='wheel', z=rng.randint(10, 80), helix=hh, pa=paq, opt=opt(rng, 'wheel', full))
        a, b = (worm, wheel) if kind == 'wormwheel' else (wheel, worm)
    tq = lambda: scen.in_unit(rng, 'Torque', rng.choice([0.0, rng.uniform(-50, 50), rng.uniform(-1, 1) * 1e-3]))  # noqa
    sc = dict(pair=kind, a=a, b=b, torques=[[tq(), tq()], [tq(), tq()]], mated=rng.random() < 0.93, f=rng.uniform(0.01, 0.2))
    if sc['mated'] and rng.random() < 0.35:
        # the same gear object a is mated again, with another gear c, after its stresses have been evaluated once (a design sweep):
        # c takes b's place, or (spur / helical) a becomes the slave of c
        c = copy.deepcopy(b)
        c['z'] = rng.randint(1, 4) if c['kind'] == 'worm' else rng.randint(10, 300)
        c['opt'] = opt(rng, c['kind'], full)
        if kind in ('spur', 'helical') and 'module' in a['opt'] and 'module' in c['opt']:
            c['opt']['module'] = a['opt']['module']
        sc['c'] = c
        sc['c_is_master'] = kind in ('spur', 'helical') and rng.random() < 0.5
        sc['torques2'] = [[tq(), tq()], [tq(), tq()]]
    return sc


def build(e):
    J = U.InertiaMoment(1e-4, 'kgm^2')
    o = {k: scen.mkq(v) for k, v in e['opt'].items()}
    if e['kind'] == 'spur':
        return SpurGear(name='g', n_teeth=e['z'], inertia_moment=J, **o)
    if e['kind'] == 'helical':
        return HelicalGear(name='g', n_teeth=e['z'], inertia_moment=J, helix_angle=scen.mkq(e['helix']), **o)
    if e['kind'] == 'worm':
        return WormGear(name='g', n_starts=e['z'], inertia_moment=J, helix_angle=scen.mkq(e['helix']), pressure_angle=scen.mkq(e['pa']), **o)
    return WormWheel(name='g', n_teeth=e['z'], inertia_moment=J, helix_angle=scen.mkq(e['helix']), pressure_angle=scen.mkq(e['pa']), **o)


ORC = []


def trig(fn, x):
    ORC.append([fn, x, {'LSin': math.sin, 'LCos': math.cos, 'LTan': math.tan, 'LAtan': math.atan}[fn](x)])


def angle_oracle(q):
    x = 2 * math.pi * (1 / 2 / math.pi) * q.to('rad').value
    for fn in ('LSin', 'LCos', 'LTan'):
        trig(fn, x)
    return x


def oracle_for(e):
    """every libm call the constructor and the formulas of this element can make"""
    angle_oracle(U.Angle(20, 'deg'))
    if 'pa' in e:
        angle_oracle(scen.mkq(e['pa']))
    if 'helix' in e:
        h = scen.mkq(e['helix'])
        angle_oracle(h)
        if e['kind'] == 'helical':
            pa = U.Angle(20, 'deg')
            x = pa.tan() / h.cos() if h.cos() != 0 else None
            if x is not None:
                trig('LAtan', x)
                tpa = U.Angle(math.atan(x), 'rad')
                angle_oracle(tpa)
                y = tpa.cos() * h.tan()
                trig('LAtan', y)
                bha = U.Angle(math.atan(y), 'rad')
                angle_oracle(bha)
                c = bha.cos()
                ORC.append(['LSquare', c, c ** 2])


def outcome(fn):
    try:
        r = fn()
    except Exception as ex:  # noqa
        n = type(ex).__name__
        return ['E', n if n in scen.EXN else 'Other:' + n]
    if isinstance(r, U.UnitBase):
        return ['Q', float(r.value), r.unit]
    if r is None:
        return ['E', 'Other:None']
    return ['N', float(r)]


def cgear(e):
    o = e['opt']
    return (f'(@Build_gear FX {KINDC[e["kind"]]} {e["z"]}%Z {scen.copt(o.get("module"), scen.cq)} {scen.copt(o.get("face_width"), scen.cq)} '
            f'{scen.copt(o.get("elastic_modulus"), scen.cq)} {scen.copt(e.get("helix"), scen.cq)} {scen.copt(e.get("pa"), scen.cq)} {scen.copt(o.get("reference_diameter"), scen.cq)})')


def cexp(o):
    if o[0] == 'Q':
        return f'(GQ {lib.flit(o[1])} {lib.coq_str(o[2])})'
    if o[0] == 'N':
        return f'(GNum {lib.flit(o[1])})'
    return f'(GErr {o[1] if not o[1].startswith("Other") else "OracleMiss"})'


def run_pair(sc):
    """returns list of (coq case string, python record for the oracle)"""
    global ORC
    try:
        A, B = build(sc['a']), build(sc['b'])
    except Exception:  # noqa
        return []
    oracle_for(sc['a'])
    oracle_for(sc['b'])
    if sc['mated']:
        try:
            if sc['pair'] in ('spur', 'helical'):
                add_gear_mating(master=A, slave=B, efficiency=0.9)
            else:
                add_worm_gear_mating(master=A, slave=B, friction_coefficient=sc['f'])
        except Exception:  # noqa
            return []
    out = []
    stages = [((A, sc['a'], sc['b'], 'RMaster', sc['torques'][0]), (B, sc['b'], sc['a'], 'RSlave', sc['torques'][1]))]
    if 'c' in sc:
        stages.append('remate')
    for stage in stages:
        if stage == 'remate':
            try:
                C = build(sc['c'])
                oracle_for(sc['c'])
                if sc['pair'] in ('spur', 'helical'):
                    if sc['c_is_master']:
                        add_gear_mating(master=C, slave=A, efficiency=0.9)
                    else:
                        add_gear_mating(master=A, slave=C, efficiency=0.9)
                else:
                    add_worm_gear_mating(master=A, slave=C, friction_coefficient=sc['f'])
            except Exception:  # noqa
                break
            ra, rc = ('RSlave', 'RMaster') if sc['c_is_master'] else ('RMaster', 'RSlave')
            stage = ((A, sc['a'], sc['c'], ra, sc['torques2'][0]), (C, sc['c'], sc['a'], rc, sc['torques2'][1]))
        out += eval_stage(sc, stage)
    return out


def eval_stage(sc, stage):
    out = []
    for g, e, mate, role, (lt, dt) in stage:
        r = f'(Some {role})' if sc['mated'] else 'None'
        m = f'(Some {cgear(mate)})' if sc['mated'] else 'None'
        g.load_torque, g.driving_torque = scen.mkq(lt), scen.mkq(dt)
        rec = dict(elem=e, mate=mate if sc['mated'] else None, role=role if sc['mated'] else None, ltq=lt, dtq=dt,
                   history=sc if 'c' in sc else None)       # with a re-mating, the whole declaration history is the replay
        if e['kind'] != 'worm':
            lw = outcome(lambda: g.lewis_factor)
            if lw[0] == 'E' and lw[1] == 'AttributeError':
                lw = None                       # the private attribute does not exist: the formula is not reachable through the public API
            if lw is not None:
                out.append((f'(@GLewis O {cgear(e)}, {cexp(lw)})', dict(rec, what='lewis', got=lw)))
        f = outcome(lambda: (g.compute_tangential_force(), g.tangential_force)[1]) if g.tangential_force_is_computable else None
        if f is not None:
            out.append((f'(@GForce O {cgear(e)} {r} {scen.cq(lt)} {scen.cq(dt)}, {cexp(f)})', dict(rec, what='force', got=f)))
        if f is not None and f[0] == 'Q' and e['kind'] != 'worm' and g.bending_stress_is_computable:
            ft = ['Force', f[1], f[2]]
            b = outcome(lambda: (g.compute_bending_stress(), g.bending_stress)[1])
            out.append((f'(@GBend O {cgear(e)} {r} {m} {scen.cq(ft)}, {cexp(b)})', dict(rec, what='bending', got=b, ft=ft)))
            if g.contact_stress_is_computable:
                c = outcome(lambda: (g.compute_contact_stress(), g.contact_stress)[1])
                out.append((f'(@GContact O {cgear(e)} {r} {m} {scen.cq(ft)}, {cexp(c)})', dict(rec, what='contact', got=c, ft=ft)))
    return out


def lewis_sweep():
    """every teeth number from the table's minimum to beyond its end, spur gears"""
    out = []
    for z in list(range(10, 560)) + [600, 1000]:
        e = dict(kind='spur', z=z, opt={'module': ['Length', 1.0, 'mm'], 'face_width': ['Length', 5.0, 'mm']})
        g = build(e)
        lw = outcome(lambda: g.lewis_factor)
        out.append((f'(@GLewis O {cgear(e)}, {cexp(lw)})', dict(elem=e, what='lewis', got=lw, mate=None, role=None)))
    return out


def correspondence(pid, tier, seed):
    global ORC
    rng = random.Random(seed * 997 + 7)
    n = lib.size(500, 6000, tier)
    ORC = []
    cases = lewis_sweep()
    for _ in range(n):
        cases += run_pair(gen_pair(rng))
    seen, orc = set(), []
    for o in ORC:
        if (o[0], o[1]) not in seen and not math.isnan(o[1]):
            seen.add((o[0], o[1]))
            orc.append(o)
    per = 400
    hdr = scen.header_with_oracle(orc).replace('Import ListNotations.', 'From GP Require Import Relations Gears RelCorr. Import ListNotations.')
    shards = [(hdr, [c for c, _ in cases[i:i + per]]) for i in range(0, len(cases), per)]
    ans, errs = lib.run_shards('gear', shards, 'Definition cases : list (gcall O * gexp) :=', 'gearfailing O cases')
    broken = []
    if errs:
        broken.append('gear correspondence: a case file did not evaluate: ' + errs[0][1][-400:])
    bad = []
    for si_, a in enumerate(ans):
        for (i, code, _) in lib.parse_triples(a):
            bad.append((si_ * per + i, code))
    rounding = [(g, c - 100) for g, c in bad if c >= 100]        # within 1e-9 relative: recorded, handed to the search, not a broken tie
    bad = [(g, c) for g, c in bad if c < 100]
    failing = [dict(case=cases[g2][1], code=100 + c2) for g2, c2 in rounding[:10]]
    if bad:
        g, code = bad[0]
        failing = [dict(case=cases[g2][1], code=c2) for g2, c2 in bad[:10]]
        broken.append(f'gear correspondence: the model (binary64) and gearpy differ on {len(bad)} of {len(cases)} formula evaluations '
                      f'(first: {json.dumps(cases[g][1], default=str)[:500]}; 1 = force, 2 = Lewis factor, 3 = bending, 4 = contact)')
    dist = {}
    for _, r in cases:
        k = r['what'] + ':' + r['elem']['kind'] + ':' + (r['got'][1] if r['got'][0] == 'E' else 'ok')
        dist[k] = dist.get(k, 0) + 1
    nt = sum(1 for _, r in cases if r['got'][0] != 'E')
    return dict(ok=not broken, evaluations=len(cases), nontrivial=nt, samples=[r for _, r in cases[560:563]], rule=RULE,
                distribution=dict(outcomes=dist, libm_oracle_entries=len(orc), rounding_level_only=len(rounding)), broken=broken, failing_cases=failing)


# ------------------------------------------------------------------ search: the documented formulas
def rad(q):
    return q[1] * S.ffactor('Angle', q[2])


LEWIS = None


def lewis_doc(z):
    """linear interpolation of the tabulated values, clamped outside (independent re-reading of the CSV)"""
    global LEWIS
    if LEWIS is None:
        import csv
        import os
        p = os.path.join(lib.REPO, 'gearpy/mechanical_objects/gear_data/lewis_factor_table.csv')
        rows = list(csv.reader(open(p)))[1:]
        LEWIS = [(float(a), float(b)) for a, b in rows if a]
    t = LEWIS
    if z <= t[0][0]:
        return t[0][1]
    if z >= t[-1][0]:
        return t[-1][1]
    for (x0, y0), (x1, y1) in zip(t, t[1:]):
        if x0 <= z <= x1:
            return y0 + (y1 - y0) * (z - x0) / (x1 - x0)


WORM_Y = {14.5: 0.1, 20: 0.125, 25: 0.15, 30: 0.175}


def doc_check(r):
    e, got = r['elem'], r['got']
    W = lambda cls, what: [dict(cls=cls, what=what, case=r)]  # noqa
    o = e['opt']
    si_len = lambda q: q[1] * S.ffactor('Length', q[2])  # noqa
    if r['what'] == 'lewis':
        if got[0] != 'N':
            return []
        if e['kind'] == 'spur':
            want = lewis_doc(e['z'])
        elif e['kind'] == 'helical':
            b = rad(e['helix'])
            at = math.atan(math.tan(math.radians(20)) / math.cos(b))
            bb = math.atan(math.cos(at) * math.tan(b))
            want = lewis_doc(e['z'] / math.cos(bb) ** 2 / math.cos(b))
        else:
            want = WORM_Y[pa_deg(e)]
        if abs(got[1] - want) > 1e-9:
            return W('lewis', f'Lewis factor of {e["kind"]} z={e["z"]} is {got[1]!r}, the table gives {want!r}')
        return []
    if got[0] != 'Q':
        if r['what'] == 'contact' and got[0] == 'E' and got[1] == 'ValueError':
            mo = (r['mate'] or {}).get('opt', {})
            if 'module' in mo and 'elastic_modulus' in mo and r['role'] is not None:
                return W('contact-raises', f'contact stress raised although the mate has module and elastic modulus')
        return []
    if r['what'] == 'force':
        tq = r['ltq'] if r['role'] == 'RMaster' else r['dtq']
        T = abs(tq[1] * S.ffactor('Torque', tq[2]))
        d = si_len(o['reference_diameter']) if e['kind'] == 'worm' else e['z'] * si_len(o['module'])
        want = T / (d / 2) * (math.tan(rad(e['helix'])) if e['kind'] == 'worm' else 1)
        g = got[1] * S.ffactor('Force', got[2])
        if abs(g - want) > 1e-9 * max(abs(want), 1e-300):
            return W('force', f'tangential force {g!r} N of a {e["kind"]} ({r["role"]}), |reference torque| / (d/2) = {want!r} N')
        return []
    ft = r['ft'][1] * S.ffactor('Force', r['ft'][2])
    g = got[1] * S.ffactor('Stress', got[2])
    if r['what'] == 'bending':
        if e['kind'] == 'wheel':
            m = r['mate']
            dw = si_len(m['opt']['reference_diameter'])
            pn = math.pi * dw * math.sin(rad(m['helix'])) / e['z']
            beff = min(si_len(o['face_width']), 0.67 * dw)
            want = ft / (pn * beff * WORM_Y[pa_deg(e)])
        else:
            Y = doc_check(dict(r, what='lewis', got=['N', 0]))  # not used
            if e['kind'] == 'spur':
                Yv = lewis_doc(e['z'])
            else:
                b = rad(e['helix'])
                at = math.atan(math.tan(math.radians(20)) / math.cos(b))
                bb = math.atan(math.cos(at) * math.tan(b))
                Yv = lewis_doc(e['z'] / math.cos(bb) ** 2 / math.cos(b))
            want = ft / (si_len(o['module']) * si_len(o['face_width']) * Yv)
        if abs(g - want) > 1e-9 * max(abs(want), 1e-300):
            return W('bending', f'bending stress {g!r} Pa of a {e["kind"]} ({r["role"]}), documented formula gives {want!r} Pa')
        return []
    if r['what'] == 'contact':
        m = r['mate']
        d1 = e['z'] * si_len(o['module'])
        d2 = m['z'] * si_len(m['opt']['module'])
        E1 = o['elastic_modulus'][1] * S.ffactor('Stress', o['elastic_modulus'][2])
        E2 = m['opt']['elastic_modulus'][1] * S.ffactor('Stress', m['opt']['elastic_modulus'][2])
        b = si_len(o['face_width'])
        if e['kind'] == 'helical':
            beta = rad(e['helix'])
            a = math.atan(math.tan(math.radians(20)) / math.cos(beta))
            b = b / math.cos(beta)
        else:
            a = math.radians(20)
        want = 0.262922 * math.sqrt(4 * ft / (b * math.cos(a) * math.sin(a)) * (1 / d1 + 1 / d2) * E1 * E2 / (E1 + E2))
        if abs(g - want) > 1e-9 * max(abs(want), 1e-300):
            return W('contact', f'contact stress {g!r} Pa of a {e["kind"]} ({r["role"]}), documented Hertz expression gives {want!r} Pa')
    return []


def search(pid, tier, seed, escalate, hints):
    global ORC
    rng = random.Random(seed * 389 + 3)
    n = (500 if tier == 'quick' else 6000) * (4 if escalate else 1)
    out, k = [], 0
    ORC = []
    recs = [r for _, r in lewis_sweep()]
    for _ in range(n):
        recs += [r for _, r in run_pair(gen_pair(rng))]
        ORC = []
    for r in recs:
        k += 1
        out += doc_check(r)
        if len(out) >= 5:
            break
    return out, k


def replay_known(pid, k):
    import oracle_findings as OF
    return OF.replay(k['id'])


def replay(pid, path):
    global ORC
    d = json.load(open(path))
    w = d.get('witness') or {}
    case = w.get('case') or {}
    if 'elem' not in case:
        print('replay: re-run the check; recorded witness:', json.dumps(w, default=str)[:800])
        return 1
    # the declaration history when the witness has one (a gear mated again after a first evaluation), otherwise the pair alone
    sc = case.get('history')
    if sc is None:
        a, b = (case['elem'], case['mate']) if case.get('role') != 'RSlave' else (case['mate'], case['elem'])
        if b is None:
            b = case['elem']
        tqs = [[case['ltq'], case['dtq']], [case['ltq'], case['dtq']]]
        kind = {('spur', 'spur'): 'spur', ('helical', 'helical'): 'helical', ('worm', 'wheel'): 'wormwheel', ('wheel', 'worm'): 'wheelworm'}[(a['kind'], b['kind'])]
        sc = dict(pair=kind, a=a, b=b, torques=tqs, mated=case.get('mate') is not None, f=0.1)
    ORC = []
    ws = [x for _, r in run_pair(sc) for x in doc_check(r)]
    if ws:
        print('still fails:', ws[0]['what'])
        return 1
    print('no longer fails on this history')
    return 0
