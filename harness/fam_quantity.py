"""C05, C06, C19: the quantity layer.  Tie = the translator (model regenerated from the source) cross-checked by running
the generated description in binary64 against the real classes, bit for bit."""
import json
import os
import random

import lib
import quantity as Q
import oracle_quantity as O

RULE = {
    'C05': 'cases = finite sweep (every ordered unit pair of every kind for to()/in-place/comparisons) + random ops; '
           'non-trivial = conversion between two different units or comparison across units',
    'C06': 'cases = every ordered pair of operand classes x {+,-,*,/} + random ops; non-trivial = operator on a kind pair '
           'that is not rejected by TypeError, or a rejected pair not seen before',
    'C19': 'cases = constructor calls with values of either sign and zero, results of all operations, in-place conversions; '
           'non-trivial = rejected operation (ValueError) or in-place conversion or sign-constrained kind',
}


def nontrivial(pid, case, out):
    op = case['op']
    if pid == 'C05':
        if op in ('QTo', 'QToInplace'):
            return case['u'] != case['a'][3]
        if op == 'QCmp':
            return case['b'] is not None and case['b'][0] == 'Q' and case['a'][0] == 'Q' and case['b'][3] != case['a'][3]
        return False
    if pid == 'C06':
        return op in ('QAdd', 'QSub', 'QMul', 'QDiv', 'QRMul', 'QAbs', 'QNeg')
    if pid == 'C19':
        if op == 'QToInplace' or (out[0] == 'E' and out[1] == 'ValueError'):
            return True
        a = case['a']
        return a[0] == 'Q' and (a[1] in Q.POSITIVE or a[1] in Q.NONNEG)
    return False


def correspondence(pid, tier, seed):
    n_random = lib.size(3000, 40000, tier)
    cases = Q.generate(seed, n_random, with_sweep=True)
    outs = [Q.run_impl(c) for c in cases]
    items = [Q.case_coq(c, o) for c, o in zip(cases, outs)]
    failing, errors = lib.run_case_files('quantity_' + pid, Q.HEADER, Q.DEFINE, items, per_shard=500)
    broken = []
    fc = []
    if errors:
        broken.append('quantity correspondence: case file did not evaluate: ' + errors[0][1][-300:])
    if failing:
        fc = [dict(case=cases[i], impl=outs[i]) for i in failing[:20]]
        broken.append(f'quantity correspondence: {len(failing)} of {len(cases)} cases differ between the generated model (binary64) '
                      f'and gearpy, first: {json.dumps(fc[0], default=str)[:300]}')
    seen = set()
    nt = 0
    dist = {}
    for c, o in zip(cases, outs):
        key = lib.sha([c['op'], c.get('m'), c.get('u'), c['a'], c['b']])
        dist[c['tag']] = dist.get(c['tag'], 0) + 1
        if key in seen:
            continue
        seen.add(key)
        if nontrivial(pid, c, o):
            nt += 1
    outcome_dist = {}
    for o in outs:
        k = o[0] if o[0] != 'E' else 'E:' + o[1]
        outcome_dist[k] = outcome_dist.get(k, 0) + 1
    rng = random.Random(seed)
    samples = [dict(case=cases[i], impl=outs[i]) for i in sorted(rng.sample(range(len(cases)), 5))]
    return dict(ok=not broken, evaluations=len(cases), nontrivial=nt, samples=samples, rule=RULE[pid],
                distribution=dict(tags=dist, outcomes=outcome_dist), broken=broken, failing_cases=fc)


def search(pid, tier, seed, escalate, hints):
    rng = random.Random(seed * 31 + 7)
    budget = {('quick', False): 2000, ('quick', True): 20000, ('thorough', False): 20000, ('thorough', True): 100000}[(tier, escalate)]
    pre = []
    for h in hints or []:                      # the disagreeing cases of the correspondence first: is the implementation's outcome itself a violation?
        o = h.get('impl')
        if pid == 'C19' and o and o[0] == 'Q' and not O.S.valid_value(o[1], o[2]) and not (isinstance(o[2], float) and o[2] != o[2]):
            pre.append(dict(cls='invalid-object', what=f'{h["case"]["op"]} on {h["case"]["a"]} and {h["case"]["b"]} returned a live {o[1]} with value {o[2]!r} {o[3]}', case=h['case']))
    if pid == 'C05':
        w, n = O.c05_search(rng, budget)
    elif pid == 'C06':
        w, n = O.c06_search(rng, budget)
    else:
        w, n = O.c19_search(rng, budget)
    return pre + w, n


def replay_known(pid, k):
    if k['id'] == 'D5':
        return O.d5_replay()
    if k['id'] == 'D6':
        return O.d6_replay()
    return False, ''


def replay(pid, path):
    d = json.load(open(path))
    w = d.get('witness')
    if not w:
        print('no concrete input recorded:', d.get('no_longer_checks'))
        return 1
    print('replaying', json.dumps(w.get('case'), default=str)[:500])
    rng = random.Random(0)
    ws, _ = search(pid, 'quick', lib.seed(), True, [])
    same = [x for x in ws if x.get('cls') == w.get('cls')]
    if same:
        print('still fails:', same[0]['what'])
        return 1
    print('no longer fails')
    return 0
