"""C04 search: the real solver at dt, dt/2, dt/4 on linear scenarios against the closed-form exponential solution."""
import math
import random

import scen
import si as S
import oracle_solver as O


def gen_linear(rng):
    sc = scen.gen_chain(rng, worm=False, max_stages=3, currents=rng.random() < 0.7)
    if rng.random() < 0.2:                   # a mating of two gears with the same number of teeth: ratio exactly 1, efficiency below 1
        for prev, e in zip(sc['elems'], sc['elems'][1:]):
            if e['link'] == 'gear' and 'z' in prev:
                e['z'] = prev['z']
                break
    return linear_from_chain(rng, sc)


def linear_from_chain(rng, sc):
    """a linear experiment (constant duty cycle, constant load, never held) on the chain of scenario sc"""
    m = O.motor_si(sc)
    st, _ = O.expected_static(sc)
    D = rng.choice([1, 1, 0.8, 0.6, -0.6, -1, -0.8])
    if m['i0'] is not None and m['imax'] is not None and abs(D) <= m['i0'] / m['imax'] * 1.05:
        D = 1
    R = math.prod(e['ratio'] for e in st)
    G = math.prod(e['eff'] * e['ratio'] for e in st)
    J = m['J']
    for e in st:
        J = J * e['ratio'] + e['J']
    if m['i0'] is None or m['imax'] is None:
        TD, nls = m['Tmax'], m['w0']                    # without current data the duty cycle does not enter the law
    elif D > 0:
        TD, nls = m['Tmax'] * (D * m['imax'] - m['i0']) / (m['imax'] - m['i0']), D * m['w0']
    else:
        TD, nls = m['Tmax'] * (D * m['imax'] + m['i0']) / (m['imax'] - m['i0']), D * m['w0']
    kap = TD * G * R / (nls * J)
    if not kap > 0:
        return None
    stall = TD * G
    L = rng.choice([0.0, 0.3, 0.8, 1.5, -0.5]) * abs(stall) * (1 if D > 0 else -1)
    A = (TD * G - L) / J
    x = rng.choice([0.2, 0.1, 0.05])
    dt = x / kap
    nsteps = max(4, int(round(rng.uniform(2, 5) / x)))
    nsteps -= nsteps % 4
    u = rng.choice(S.units('Time'))
    lu = rng.choice(S.units('Torque'))
    sc['load'] = dict(c0=L / S.ffactor('Torque', lu), ct=0.0, cp=0.0, cs=0.0, u=lu)
    w0 = rng.choice([0.0, rng.uniform(-0.3, 0.3) * abs(nls) / R])
    sc['pos0'] = scen.in_unit(rng, 'AngularPosition', rng.uniform(-1, 1))
    sc['spd0'] = scen.in_unit(rng, 'AngularSpeed', w0)
    sc['flavour'] = 'linear'
    info = dict(A=A, kap=kap, D=D, w0=w0, th0=sc['pos0'][1] * S.ffactor('AngularPosition', sc['pos0'][2]), dt=dt, n=nsteps, unit=u)
    return sc, info


def run_at(sc, info, div):
    dt = info['dt'] / div
    n = info['n'] * div
    u = info['unit']
    f = S.ffactor('Time', u)
    s2 = dict(sc, ops=[['setpwm', info['D']], ['run', ['TimeInterval', dt / f, u], ['TimeInterval', dt * n / f, u], None, None]])
    r = scen.run_impl(s2, timeout=60)
    return s2, r, dt


def check(sc, info):
    out = []
    A, kap, w0, th0 = info['A'], info['kap'], info['w0'], info['th0']
    winf = A / kap
    errs = []
    for div in (1, 2, 4):
        s2, r, dt = run_at(sc, info, div)
        if 'Timeout' in (r['err'] or ''):
            return []                   # the harness's own wall-clock limit, not an outcome of the code
        if r['err'] is not None:
            return [O.W('raises', f'linear scenario raised {r["err"]} {r.get("errmsg")}', s2)]
        rows = O.rows_si(r['rows'])
        scale = abs(w0 - winf)
        worst_w, worst_p = 0.0, 0.0
        for k, row in enumerate(rows):
            t = row['t']
            we = winf + (w0 - winf) * math.exp(-kap * t)
            pe = th0 + winf * t + (w0 - winf) * (1 - math.exp(-kap * t)) / kap
            worst_w = max(worst_w, abs(row['spd'][-1] - we))
            worst_p = max(worst_p, abs(row['pos'][-1] - pe))
        slack_w = 1e-9 * (abs(winf) + abs(w0)) + 1e-300
        slack_p = 1e-9 * (abs(th0) + (abs(winf) + abs(w0)) * rows[-1]['t']) + 1e-300
        if worst_w > 0.4 * kap * dt * scale * (1 + 1e-6) + slack_w:
            out.append(O.W('speed-bound', f'dt={dt!r} s: speed deviates {worst_w!r} rad/s from the closed form; bound (2/5) kap dt |w0-winf| = {0.4 * kap * dt * scale!r}', s2))
        if worst_p > dt * scale * (1 + 1e-6) + slack_p:
            out.append(O.W('position-bound', f'dt={dt!r} s: position deviates {worst_p!r} rad from the closed form; bound dt |w0-winf| = {dt * scale!r}', s2))
        # error at a fixed time (one quarter of the horizon)
        kfix = (info['n'] // 4) * div
        t = rows[kfix]['t']
        errs.append(abs(rows[kfix]['spd'][-1] - (winf + (w0 - winf) * math.exp(-kap * t))))
    # the same experiment as two concatenated runs, the second with half the step: the recorded (time, speed, position) samples still lie
    # within the bound of the larger step
    if not out:
        dt = info['dt']
        u = info['unit']
        f = S.ffactor('Time', u)
        n1 = max(2, info['n'] // 2)
        s3 = dict(sc, ops=[['setpwm', info['D']], ['run', ['TimeInterval', dt / f, u], ['TimeInterval', dt * n1 / f, u], None, None],
                           ['run', ['TimeInterval', dt / 2 / f, u], ['TimeInterval', dt / 2 * (info['n'] - n1) * 2 / f, u], None, None]])
        r = scen.run_impl(s3, timeout=60)
        if r['err'] is None:
            rows = O.rows_si(r['rows'])
            scale = abs(w0 - winf)
            worst_w = worst_p = 0.0
            for row in rows:
                t = row['t']
                we = winf + (w0 - winf) * math.exp(-kap * t)
                pe = th0 + winf * t + (w0 - winf) * (1 - math.exp(-kap * t)) / kap
                worst_w = max(worst_w, abs(row['spd'][-1] - we))
                worst_p = max(worst_p, abs(row['pos'][-1] - pe))
            slack_w = 1e-9 * (abs(winf) + abs(w0)) + 1e-300
            slack_p = 1e-9 * (abs(th0) + (abs(winf) + abs(w0)) * rows[-1]['t']) + 1e-300
            if worst_w > 0.4 * kap * dt * scale * (1 + 1e-6) + slack_w:
                out.append(O.W('speed-bound', f'two concatenated runs (dt={dt!r} s, then dt/2): speed deviates {worst_w!r} rad/s from the closed form at the recorded instants; bound (2/5) kap dt |w0-winf| = {0.4 * kap * dt * scale!r}', s3))
            elif worst_p > dt * scale * (1 + 1e-6) + slack_p:
                out.append(O.W('position-bound', f'two concatenated runs (dt={dt!r} s, then dt/2): position deviates {worst_p!r} rad from the closed form at the recorded instants; bound dt |w0-winf| = {dt * scale!r}', s3))
        elif 'Timeout' not in (r['err'] or ''):
            out.append(O.W('raises', f'concatenated linear runs raised {r["err"]} {r.get("errmsg")}', s3))
    if not out and errs[0] > 1e-6 * (abs(w0) + abs(winf)) and errs[2] > 1e-7 * (abs(w0) + abs(winf)):
        for a, b in ((errs[0], errs[1]), (errs[1], errs[2])):
            if b > 0 and not (1.5 <= a / b <= 2.7):
                out.append(O.W('halving', f'speed error at a fixed time goes {errs} as dt is halved twice (ratio {a / b!r}, expected about 2)', sc))
                break
    return out


def search(tier, seed, escalate, hints=None):
    import copy
    rng = random.Random(seed * 271 + 9)
    n = (12 if tier == 'quick' else 220) * (3 if escalate else 1)
    out, k = [], 0
    # the chains of the scenarios on which the model and the code disagree come first (two experiments each)
    todo = []
    for h in hints or []:
        hs = h.get('scenario') if isinstance(h, dict) else None
        if hs and not any(e['kind'] in ('worm', 'wheel') for e in hs['elems']) and len(todo) < 16:
            for _ in range(2):
                c = copy.deepcopy({k_: hs[k_] for k_ in ('motor', 'elems', 'load', 'pos0', 'spd0')})
                for op in hs.get('ops', []):
                    if op[0] == 'seteff':
                        c['elems'][op[1]]['eff'] = op[2]
                todo.append(c)
    for i in range(n * 3 + len(todo)):
        g = linear_from_chain(rng, todo[i]) if i < len(todo) else gen_linear(rng)
        if g is None:
            continue
        sc, info = g
        k += 1
        out += check(sc, info)
        if k >= n + len(todo) or len(out) >= 5:
            break
    return out, k * 3
