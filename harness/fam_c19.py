"""C19: sign-constrained quantities (fam_quantity: regenerated model) and component constructors (fam_comp: coq/Components.v)."""
import json

import fam_quantity
import fam_comp


def correspondence(pid, tier, seed):
    a = fam_quantity.correspondence(pid, tier, seed)
    b = fam_comp.correspondence(pid, tier, seed)
    return dict(ok=a['ok'] and b['ok'], evaluations=a['evaluations'] + b['evaluations'], nontrivial=a['nontrivial'] + b['nontrivial'],
                samples=a['samples'][:3] + b['samples'][:2], rule=a['rule'] + ' || ' + b['rule'],
                distribution=dict(quantity=a['distribution'], components=b['distribution']),
                broken=a['broken'] + b['broken'], failing_cases=a.get('failing_cases', []) + b.get('failing_cases', []))


def search(pid, tier, seed, escalate, hints):
    hq = [h for h in hints or [] if 'call' not in h.get('case', {})]
    hc = [h for h in hints or [] if 'call' in h.get('case', {})]
    w1, n1 = fam_quantity.search(pid, tier, seed, escalate, hq)
    w2, n2 = fam_comp.search(pid, tier, seed, escalate, hc)
    return w1 + w2, n1 + n2


def replay_known(pid, k):
    return fam_quantity.replay_known(pid, k)


def replay(pid, path):
    r = fam_comp.replay(pid, path)
    if r is not None:
        return r
    return fam_quantity.replay(pid, path)
