"""C17: one sample per advertised variable per instant.  Tie: (1) the solver correspondence (histories); (2) the finite model
coq/Keys.v against what elements of every kind / optional-data subset / role advertise and record; search: the statement on the
implementation after every operation of generated schedules over elements with random optional data."""
import json
import os
import random
import tempfile

import gearpy.units as U
from gearpy.mechanical_objects import DCMotor, SpurGear, HelicalGear, Flywheel, WormGear, WormWheel, MatingMaster, MatingSlave
from gearpy.utils import add_fixed_joint, add_gear_mating, add_worm_gear_mating, export_time_variables
from gearpy.powertrain import Powertrain
from gearpy.solver import Solver

import lib
import scen
import fam_solver

RULE = ('cases = 3-element powertrains (motor + a mated pair of every kind) over every subset of the optional data, plus unmated gears; '
        'non-trivial = element with >= 1 optional variable advertised')
KINDC = {'motor': 'EMotor', 'fly': 'EFly', 'spur': 'ESpur', 'helical': 'EHelical', 'worm': 'EWorm', 'wheel': 'EWheel'}
KIND_OF_KEY = {'angular position': U.AngularPosition, 'angular speed': U.AngularSpeed, 'angular acceleration': U.AngularAcceleration,
               'torque': U.Torque, 'driving torque': U.Torque, 'load torque': U.Torque, 'tangential force': U.Force,
               'bending stress': U.Stress, 'contact stress': U.Stress, 'electric current': U.Current, 'pwm': (int, float)}
ATTR_OF_KEY = {'angular position': 'angular_position', 'angular speed': 'angular_speed', 'angular acceleration': 'angular_acceleration',
               'torque': 'torque', 'driving torque': 'driving_torque', 'load torque': 'load_torque', 'tangential force': 'tangential_force',
               'bending stress': 'bending_stress', 'contact stress': 'contact_stress', 'electric current': 'electric_current', 'pwm': 'pwm'}


def gen_pair(rng):
    pair = rng.choice(['spur', 'helical', 'wormwheel', 'wheelworm', 'single'])
    b = lambda p=0.5: rng.random() < p  # noqa
    cur = b()
    J = ['InertiaMoment', 1e-4, 'kgm^2']

    def gear(kind):
        e = dict(kind=kind, J=J)
        if kind in ('spur', 'helical', 'wheel'):
            e['z'] = rng.randint(12, 40)
            e['opt'] = {}
            if b(0.7):
                e['opt']['module'] = ['Length', 1.0, 'mm']
            if b(0.7):
                e['opt']['face_width'] = ['Length', 10.0, 'mm']
            if kind != 'wheel' and b(0.6):
                e['opt']['elastic_modulus'] = ['Stress', 200.0, 'GPa']
        if kind in ('helical',):
            e['helix'] = ['Angle', 15.0, 'deg']
        if kind in ('worm', 'wheel'):
            e['helix'] = ['Angle', 10.0, 'deg']
            e['pa'] = ['Angle', 20.0, 'deg']
        if kind == 'worm':
            e['starts'] = 1
            e['opt'] = {'reference_diameter': ['Length', 20.0, 'mm']} if b(0.6) else {}
        return e
    if pair == 'spur':
        els = [gear('spur'), gear('spur')]
        els[1]['link'], els[1]['eff'] = 'gear', 0.9
    elif pair == 'helical':
        els = [gear('helical'), gear('helical')]
        els[1]['link'], els[1]['eff'] = 'gear', 0.9
    elif pair == 'wormwheel':
        els = [gear('worm'), gear('wheel')]
        els[1]['link'], els[1]['f'] = 'worm', 0.1
    elif pair == 'wheelworm':
        els = [gear('wheel'), gear('worm'), dict(kind='spur', z=20, J=J, link='joint')]      # the load must sit on a gear
        els[1]['link'], els[1]['f'] = 'worm', 0.05
    else:
        els = [gear(rng.choice(['spur', 'helical']))]
    els[0]['link'] = 'joint'
    m = dict(J=J, w0=['AngularSpeed', 1000.0, 'rpm'], Tmax=['Torque', 1.0, 'Nm'],
             i0=['Current', 0.1, 'A'] if cur else None, imax=['Current', 2.0, 'A'] if cur else None)
    if not cur and b(0.4):                  # exactly one of the two currents: the motor still has no current data
        m['i0' if b() else 'imax'] = ['Current', 0.1, 'A'] if False else (['Current', 0.1, 'A'] if b() else ['Current', 2000.0, 'mA'])
    sc = dict(motor=m, elems=els, load=dict(c0=0.01, ct=0.0, cp=0.0, cs=0.0, u='Nm'), pos0=['AngularPosition', 0.0, 'rad'],
              spd0=['AngularSpeed', 0.0, 'rad/s'], ops=[['run', ['TimeInterval', 1.0, 'ms'], ['TimeInterval', 3.0, 'ms'], None, None]], flavour='keys')
    return sc


def enrich(rng, sc):
    """a solver-family scenario (chains, locks, controls, schedules) whose gears also carry the optional structural data, so that
    forces and stresses are advertised and sampled along whatever the scenario does (held at the first instant, stopped, reset ...)"""
    els = sc['elems']
    for i, e in enumerate(els):
        o = e.setdefault('opt', {})
        k = e['kind']
        if k in ('spur', 'helical') and 'module' not in o and rng.random() < 0.8:
            # a module must agree across a gear mating: give it to this gear only if no gear-mated neighbour has another one
            near = [els[j] for j in (i - 1, i + 1) if 0 <= j < len(els) and (els[max(i, j)].get('link') == 'gear')]
            mods = {tuple(n_['opt']['module']) for n_ in near if 'module' in n_.get('opt', {})}
            if len(mods) <= 1:
                o['module'] = list(mods.pop()) if mods else ['Length', 1.0, 'mm']
        if k == 'wheel' and 'module' not in o and rng.random() < 0.8:
            o['module'] = ['Length', 2.0, 'mm']
        if k in ('spur', 'helical', 'wheel') and 'face_width' not in o and rng.random() < 0.8:
            o['face_width'] = ['Length', 10.0, 'mm']
        if k in ('spur', 'helical') and 'elastic_modulus' not in o and rng.random() < 0.8:
            o['elastic_modulus'] = ['Stress', 200.0, 'GPa']
        if k == 'worm' and 'reference_diameter' not in o and rng.random() < 0.8:
            o['reference_diameter'] = ['Length', 20.0, 'mm']
    return sc


def fix_opt(sc):
    """scenario 'opt' dicts hold [kind, value, unit] triples; scen.build wants gearpy quantities"""
    sc2 = json.loads(json.dumps(sc))
    for e in sc2['elems']:
        e['opt'] = {k: scen.mkq(v) for k, v in e.get('opt', {}).items()}
    return sc2


def cfg_of(e, role, mate, cur):
    o = e.get('opt', {}) if e else {}
    mo = mate.get('opt', {}) if mate else {}
    return dict(kind=e['kind'] if e else 'motor', module='module' in o, face='face_width' in o, emod='elastic_modulus' in o,
                dref='reference_diameter' in o, cur=cur, role=role, mate_dref='reference_diameter' in mo, mate_module='module' in mo,
                mate_emod='elastic_modulus' in mo)


def run_case(sc):
    """returns list of (cfg, ctor_keys, expectation) for the motor and each element"""
    pt, els = scen.build(fix_opt(sc))
    ctor = [list(e.time_variables.keys()) for e in els]
    raised = None
    try:
        Solver(pt).run(time_discretization=scen.mkq(sc['ops'][0][1]), simulation_time=scen.mkq(sc['ops'][0][2]))
    except Exception as ex:  # noqa
        raised = type(ex).__name__
    n = len(pt.time)
    out = []
    decl = [None] + sc['elems']
    for i, e in enumerate(els):
        role = getattr(e, 'mating_role', None)
        role = None if role is None else ('RMaster' if role is MatingMaster else 'RSlave')
        mate = None
        if role == 'RMaster':
            mate = decl[i + 1]
        elif role == 'RSlave':
            mate = decl[i - 1]
        cfg = cfg_of(decl[i], role, mate, sc['motor']['i0'] is not None and sc['motor']['imax'] is not None)
        final = list(e.time_variables.keys())
        full = [k for k in final if len(e.time_variables[k]) == n]
        out.append(dict(cfg=cfg, ctor=ctor[i], raised=raised, final=final, full=full, n=n))
    return out


def ccfg(c):
    b = lambda x: 'true' if x else 'false'  # noqa
    role = 'None' if c['role'] is None else f'(Some {c["role"]})'
    return (f'{{| k_kind := {KINDC[c["kind"]]}; k_module := {b(c["module"])}; k_face := {b(c["face"])}; k_emod := {b(c["emod"])}; '
            f'k_dref := {b(c["dref"])}; k_cur := {b(c["cur"])}; k_role := {role}; k_mate_dref := {b(c["mate_dref"])}; '
            f'k_mate_module := {b(c["mate_module"])}; k_mate_emod := {b(c["mate_emod"])} |}}')


def case_coq(r, raising_elem):
    strs = lambda l: scen.clist([lib.coq_str(x) for x in l])  # noqa
    if r['raised'] is not None:
        exp = 'KRaises' if raising_elem else None
    else:
        exp = f'(KRecorded {strs(r["final"])} {strs(r["full"])})'
    return f'{{| kc_cfg := {ccfg(r["cfg"])}; kc_ctor := {strs(r["ctor"])}; kc_exp := {exp} |}}' if exp else None


def keys_correspondence(seed, n):
    rng = random.Random(seed * 31337 + 1)
    items, samples, dist = [], [], {}
    for _ in range(n):
        sc = gen_pair(rng)
        rs = run_case(sc)
        if rs[0]['raised'] is not None:
            # the run raised: exactly the elements whose configuration the model says raises are blamed; the model must blame >= 1
            # (which element raised first is not observable here, so only the whole-powertrain outcome is compared)
            cfgs = [r['cfg'] for r in rs]
            items.append(None)
            dist['raised:' + rs[0]['raised']] = dist.get('raised:' + rs[0]['raised'], 0) + 1
            # emit one case per element with KRecorded unknown -> skip; emit a combined check through python-side evaluation of the model flags
            combined = [case_coq(dict(r, raised='x'), True) for r in rs]
            items[-1] = ('any', combined, cfgs)
        else:
            for r in rs:
                items.append(('one', case_coq(r, False), r['cfg']))
            dist['ok'] = dist.get('ok', 0) + 1
        if len(samples) < 3:
            samples.append(dict(elements=[e['kind'] for e in sc['elems']], opt=[sorted(e.get('opt', {})) for e in sc['elems']], result=[dict(cfg=r['cfg'], ctor=r['ctor'], final=r['final'], full=r['full'], raised=r['raised']) for r in rs]))
    # 'one' cases go to Coq as they are; an 'any' group holds if at least one of its members evaluates to 0 (some element raises in the model)
    flat, groups = [], []
    for it in items:
        if it[0] == 'one':
            flat.append(it[1])
            groups.append([len(flat) - 1])
        else:
            idx = []
            for c in it[1]:
                flat.append(c)
                idx.append(len(flat) - 1)
            groups.append(('any', idx))
    ans, errs = lib.run_shards('keys', [(scen.header_with_oracle([]).replace('Import ListNotations.', 'From GP Require Import Relations Keys RelCorr. Import ListNotations.'), flat)],
                               'Definition cases : list kcase :=', 'kfailing cases')
    broken = []
    if errs:
        return ['keys correspondence: case file did not evaluate: ' + errs[0][1][-400:]], 0, samples, dist
    failing = {i: c for i, c, _ in lib.parse_triples(ans[0])}
    bad = []
    for g in groups:
        if isinstance(g, tuple):
            if all(i in failing for i in g[1]):
                bad.append((g[1][0], 'no element of the powertrain raises in the model although the run raised'))
        elif g[0] in failing:
            bad.append((g[0], f'code {failing[g[0]]} (1 = keys after construction, 2/3 = raises, 4 = advertised keys, 5 = keys with one sample per instant)'))
    if bad:
        broken.append(f'keys correspondence: Keys.v and gearpy differ on {len(bad)} element configurations, first: {flat[bad[0][0]][:300]} : {bad[0][1]}')
    return broken, len(flat), samples, dist


def correspondence(pid, tier, seed):
    base = fam_solver.correspondence('C16', tier, seed)          # histories: one record per instant (code 11 = length)
    broken = [b for b in base['broken']]
    kb, kn, ksamples, kdist = keys_correspondence(seed, lib.size(400, 5000, tier))
    broken += kb
    return dict(ok=not broken, evaluations=base['evaluations'] + kn, nontrivial=kn, samples=ksamples, rule=RULE,
                distribution=dict(histories=base['distribution'], keys=kdist), broken=broken, failing_cases=[])


# ------------------------------------------------------------------ search
def inspect(pt, els, where):
    out = []
    n = len(pt.time)
    for e in els:
        for key, lst in e.time_variables.items():
            if len(lst) != n:
                out.append((f'{where}: element {e.name!r} ({type(e).__name__}) variable {key!r} has {len(lst)} samples for {n} instants', key, type(e).__name__))
                continue
            kind = KIND_OF_KEY[key]
            if any(not isinstance(x, kind) or isinstance(x, bool) for x in lst):
                out.append((f'{where}: element {e.name!r} variable {key!r} holds a sample that is not a {kind}', key, type(e).__name__))
            elif n and getattr(e, ATTR_OF_KEY[key], None) is not lst[-1] and getattr(e, ATTR_OF_KEY[key], None) != lst[-1]:
                out.append((f'{where}: element {e.name!r} variable {key!r}: last sample {lst[-1]!r} differs from the attribute {getattr(e, ATTR_OF_KEY[key], None)!r}', key, type(e).__name__))
    if n >= 2 and not out:
        try:
            pt.snapshot(target_time=pt.time[n // 2], print_data=False)
            with tempfile.TemporaryDirectory() as d:
                for e in els:
                    export_time_variables(rotating_object=e, file_path=os.path.join(d, e.name + '.csv'), time_array=pt.time)
        except Exception as ex:  # noqa
            out.append((f'{where}: snapshot/export raised {type(ex).__name__}: {str(ex)[:150]}', 'export', ''))
    return out


def is_d13(sc, key, cls):
    if key != 'bending stress' or cls != 'WormWheel':
        return False
    els = sc['elems']
    for i, e in enumerate(els):
        if e['kind'] == 'wheel' and 'module' in e.get('opt', {}) and 'face_width' in e.get('opt', {}):
            mate = els[i - 1] if e.get('link') == 'worm' else (els[i + 1] if i + 1 < len(els) and els[i + 1].get('link') == 'worm' else None)
            if mate and 'reference_diameter' not in mate.get('opt', {}):
                return True
    return False


def search(pid, tier, seed, escalate, hints):
    rng = random.Random(seed * 53 + 2)
    n = (150 if tier == 'quick' else 2000) * (3 if escalate else 1)
    out, k = [], 0
    for i in range(n):
        if i % 2 == 0:
            sc = gen_pair(rng)
            sc['ops'] = rng.choice([
                [['run', ['TimeInterval', 1.0, 'ms'], ['TimeInterval', 4.0, 'ms'], None, None]],
                [['run', ['TimeInterval', 1.0, 'ms'], ['TimeInterval', 4.0, 'ms'], None, None], ['run', ['TimeInterval', 2.0, 'ms'], ['TimeInterval', 6.0, 'ms'], None, None]],
                [['run', ['TimeInterval', 1.0, 'ms'], ['TimeInterval', 4.0, 'ms'], None, None], ['reset'], ['run', ['TimeInterval', 1.0, 'ms'], ['TimeInterval', 3.0, 'ms'], None, None]],
                [['run', ['TimeInterval', 1.0, 'ms'], ['TimeInterval', 4.0, 'ms'], None, None], ['reset'], ['newsolver'], ['run', ['TimeInterval', 1.0, 'ms'], ['TimeInterval', 3.0, 'ms'], None, None],
                 ['run', ['TimeInterval', 1.0, 'ms'], ['TimeInterval', 2.0, 'ms'], None, None]],
            ])
        else:
            sc = enrich(rng, scen.gen_scenario(rng, rng.choice(['plain', 'stop', 'schedule', 'control', 'lock', 'lock'])))
        k += 1
        try:
            pt, els = scen.build(fix_opt(sc))
        except Exception:  # noqa
            continue
        solver = Solver(pt)
        probs = []
        try:
            for j, op in enumerate(sc['ops']):
                if op[0] == 'run':
                    solver.run(time_discretization=scen.mkq(op[1]), simulation_time=scen.mkq(op[2]), motor_control=scen.make_control(pt, els, op[3]),
                               stop_condition=scen.make_stop(els, op[4]))
                elif op[0] == 'reset':
                    pt.reset()
                elif op[0] == 'newsolver':
                    solver = Solver(pt)
                elif op[0] == 'setinit':
                    els[-1].angular_position = scen.mkq(op[1])
                    els[-1].angular_speed = scen.mkq(op[2])
                elif op[0] == 'setpwm':
                    els[0].pwm = op[1]
                if op[0] in ('run', 'reset', 'newsolver'):
                    probs = inspect(pt, els, f'after operation {j} {op[0]}')
                if probs:
                    break
        except Exception:  # noqa
            continue                     # a run that raises is outside the statement (it quantifies over runs that return)
        for what, key, cls in probs[:1]:
            d13 = is_d13(sc, key, cls) or (key == 'export' and any(is_d13(sc, 'bending stress', 'WormWheel') for _ in [0]))
            out.append(dict(cls='D13' if d13 else 'samples', what=what, case=dict(scenario=sc)))
        if len([w for w in out if w['cls'] != 'D13']) >= 5:
            break
    return out, k


def replay_known(pid, k):
    import oracle_findings as OF
    return OF.replay(k['id'])


def replay(pid, path):
    d = json.load(open(path))
    print('replay: re-run the check; recorded witness:', json.dumps(d.get('witness'), default=str)[:600])
    return 1
