"""C19, second clause: the constructors of the mechanical objects and the duty-cycle setter against the model coq/Components.v
(exception class or success of every call, valid and invalid arguments), and the property statement on the implementation
(non-physical parameters of the right type must be rejected)."""
import csv
import json
import math
import os
import random

import gearpy.units as U
from gearpy.mechanical_objects import DCMotor, SpurGear, HelicalGear, WormGear, WormWheel, Flywheel

import lib
import scen
import si as S

RULE = ('cases = constructor / setter calls: a valid argument list with 0-2 arguments replaced by a wrong type, a boundary or a non-physical '
        'value (all units); non-trivial = at least one replaced argument')

WORM_ROWS = None
MIN_TEETH = None


def tables():
    global WORM_ROWS, MIN_TEETH
    if WORM_ROWS is None:
        d = os.path.join(lib.REPO, 'gearpy', 'mechanical_objects', 'gear_data')
        with open(os.path.join(d, 'worm_gear_and_wheel_data.csv')) as f:
            WORM_ROWS = [(float(r['Pressure Angle']), float(r['Maximum Helix Angle'])) for r in csv.DictReader(f)]
        with open(os.path.join(d, 'lewis_factor_table.csv')) as f:
            MIN_TEETH = int(float(next(csv.DictReader(f))['Number of teeth']))
    return WORM_ROWS, MIN_TEETH


def Qa(kind, sival, rng, unit=None):
    return ['Q'] + scen.in_unit(rng, kind, sival, unit)


def constructible(a):
    if a[0] != 'Q':
        return True
    try:
        scen.mkq(a[1:])
        return True
    except Exception:  # noqa
        return False


def wrong_type(rng, kind):
    others = [k for k in ('Torque', 'Length', 'Angle', 'AngularPosition', 'AngularSpeed', 'Current', 'Stress', 'InertiaMoment', 'Time', 'Force') if k != kind]
    c = rng.choice(['I', 'F', 'S', 'N', 'B', 'Q', 'Q'])
    if c == 'I':
        return ['I', rng.choice([0, 1, 3, -2])]
    if c == 'F':
        return ['F', rng.choice([0.0, 2.5, -1.0])]
    if c == 'S':
        return ['S', rng.choice(['x', '', '20 deg'])]
    if c == 'N':
        return ['N']
    if c == 'B':
        return ['B', rng.random() < 0.5]
    k = rng.choice(others)
    return Qa(k, rng.choice([1.0, 0.5, 3.0]), rng)


DEG = math.pi / 180


def angle_pool(rng, limit_deg=None):
    """helix angles around the limits"""
    vals = [0.0, 5.0, 10.0, 15.0, 15.999999, 16.0, 16.000001, 24.9, 25.0, 25.1, 34.999, 35.0, 35.001, 44.9999, 45.0, 45.0001, 60.0,
            89.0, 89.9999999, 90.0, 90.0000001, 91.0, 120.0, 180.0, 269.0, 270.0, 285.0, 300.0, 359.0, 360.0, 400.0, 449.0, 720.0]
    if limit_deg is not None and rng.random() < 0.6:
        vals = [limit_deg, limit_deg * (1 - 1e-12), limit_deg * (1 + 1e-12), limit_deg - 1e-9, limit_deg + 1e-9, limit_deg - 1, limit_deg + 1, limit_deg / 2]
    d = rng.choice(vals)
    u = rng.choice(S.units('Angle'))
    if rng.random() < 0.5:
        return ['Q', 'Angle', d, 'deg']
    return ['Q', 'Angle', d * S.ffactor('Angle', 'deg') / S.ffactor('Angle', u), u]


def pa_pool(rng):
    rows, _ = tables()
    r = rng.random()
    d = rng.choice([x for x, _ in rows])
    if r < 0.45:
        return ['Q', 'Angle', d, 'deg'], d
    if r < 0.8:
        u = rng.choice(S.units('Angle'))
        v = d * S.ffactor('Angle', 'deg') / S.ffactor('Angle', u)
        v = rng.choice([v, v, v * (1 + 1e-15), v + 1e-9, v - 1e-13, math.nextafter(v, math.inf)])
        return ['Q', 'Angle', v, u], d
    return ['Q', 'Angle', rng.choice([22.0, 0.0, 14.0, 29.0, 45.0, 20.5]), 'deg'], None


def gen_case(rng):
    """returns dict(call=kind, args=[...], mutated=n)"""
    rows, mint = tables()
    kind = rng.choice(['motor', 'motor', 'spur', 'helical', 'wheel', 'worm', 'worm', 'fly', 'pwm'])
    mut = 0
    J = Qa('InertiaMoment', 10 ** rng.uniform(-6, -1), rng)
    name = ['S', rng.choice(['a', 'gear 1', 'm'])]

    def maybe(val, kindname, p=0.12):
        nonlocal mut
        if rng.random() < p:
            mut += 1
            return wrong_type(rng, kindname)
        return val
    if rng.random() < 0.06:
        name = rng.choice([['S', ''], ['I', 5], ['N'], ['F', 1.0]])
        mut += 1
    if rng.random() < 0.05:
        J = wrong_type(rng, 'InertiaMoment')
        mut += 1
    if kind == 'pwm':
        x = rng.choice([['F', 0.3], ['I', 1], ['I', -1], ['F', 1.0000001], ['F', -1.5], ['B', True], ['B', False], ['S', 'a'], ['N'], ['F', float('nan')], ['I', 2],
                        ['F', -1.0], ['F', 1.0], ['F', rng.uniform(-1.2, 1.2)], ['F', math.nextafter(1.0, 2)], ['F', 5e-324], ['I', 0], ['Q', 'Torque', 0.5, 'Nm']])
        return dict(call='pwm', args=[x], mutated=1)
    if kind == 'fly':
        return dict(call='fly', args=[name, J], mutated=mut)
    if kind == 'motor':
        w0v = rng.choice([10 ** rng.uniform(0, 3)] * 5 + [0.0, -5.0, -0.0, 1e-300, float('nan'), float('inf')])
        tv = rng.choice([10 ** rng.uniform(-2, 1)] * 5 + [0.0, -1.0, 5e-324, float('nan')])
        mut += (w0v <= 0 or w0v != w0v) + (tv <= 0 or tv != tv)
        w0 = maybe(Qa('AngularSpeed', w0v, rng), 'AngularSpeed')
        tq = maybe(Qa('Torque', tv, rng), 'Torque')
        r = rng.random()
        if r < 0.2:
            i0, imax = ['N'], ['N']
        elif r < 0.3:
            i0, imax = rng.choice([(['N'], Qa('Current', 2.0, rng)), (Qa('Current', 0.1, rng), ['N'])])
        else:
            im = rng.choice([10 ** rng.uniform(-1, 1.3)] * 6 + [0.0, -2.0, float('nan')])
            base = im if im == im and im > 0 else 1.0
            i0v = rng.choice([base * rng.uniform(0, 0.6)] * 6 + [0.0, -0.1, base, base * (1 + 1e-13), base * (1 - 1e-13), base * 1.5, base * (1 - 1e-9), float('nan')])
            mut += (im <= 0 or im != im) + (i0v < 0 or i0v >= base or i0v != i0v)
            i0, imax = Qa('Current', i0v, rng), Qa('Current', im, rng)
            if rng.random() < 0.3:          # the same unit: exact comparison
                imax = ['Q', 'Current', im, 'A']
                i0 = ['Q', 'Current', i0v, 'A']
            i0 = maybe(i0, 'Current', 0.06)
            imax = maybe(imax, 'Current', 0.06)
        return dict(call='motor', args=[name, J, w0, tq, i0, imax], mutated=mut)
    # gears
    nz = rng.choice([rng.randint(mint, 120)] * 6 + [mint, mint - 1, 0, -4, 1, 9])
    n = ['I', nz]
    if rng.random() < 0.08:
        n = rng.choice([['B', True], ['F', float(nz)], ['S', '20'], ['N'], ['Q', 'Length', 2.0, 'mm']])
        mut += 1
    mut += nz < mint
    module = rng.choice([['N'], Qa('Length', rng.choice([1e-3, 2e-3, 5e-4]), rng)])
    face = rng.choice([['N'], Qa('Length', rng.choice([5e-3, 2e-2]), rng)])
    ev = rng.choice([2.1e11] * 5 + [0.0, -1.0, 5e-324, float('nan')])
    emod = rng.choice([['N'], Qa('Stress', ev, rng)])
    mut += emod[0] == 'Q' and not (ev > 0)
    module = maybe(module, 'Length', 0.06)
    face = maybe(face, 'Length', 0.06)
    emod = maybe(emod, 'Stress', 0.06)
    if kind == 'spur':
        return dict(call='spur', args=[name, n, J, module, face, emod], mutated=mut)
    if kind == 'helical':
        helix = maybe(angle_pool(rng, 90.0), 'Angle', 0.1)
        return dict(call='helical', args=[name, n, J, helix, module, face, emod], mutated=mut + 1)
    pa, row = pa_pool(rng)
    lim = dict(rows).get(row) if row is not None else None
    helix = maybe(angle_pool(rng, lim), 'Angle', 0.08)
    pa = maybe(pa, 'Angle', 0.06)
    if kind == 'wheel':
        return dict(call='wheel', args=[name, n, J, helix, pa, module, face], mutated=mut + 1)
    st = rng.choice([1, 1, 2, 3, 0, -1, 4])
    n = ['I', st]
    if rng.random() < 0.08:
        n = rng.choice([['B', True], ['B', False], ['F', 1.0], ['N']])
    dref = maybe(rng.choice([['N'], Qa('Length', 0.02, rng)]), 'Length', 0.08)
    return dict(call='worm', args=[name, n, J, helix, pa, dref], mutated=mut + 1)


def pyarg(a):
    t = a[0]
    if t == 'Q':
        return scen.mkq(a[1:])
    if t in ('I', 'F', 'B', 'S'):
        return a[1]
    return None


def run_impl(c):
    a = [pyarg(x) for x in c['args']]
    try:
        k = c['call']
        if k == 'motor':
            DCMotor(name=a[0], inertia_moment=a[1], no_load_speed=a[2], maximum_torque=a[3], no_load_electric_current=a[4], maximum_electric_current=a[5])
        elif k == 'spur':
            SpurGear(name=a[0], n_teeth=a[1], inertia_moment=a[2], module=a[3], face_width=a[4], elastic_modulus=a[5])
        elif k == 'helical':
            HelicalGear(name=a[0], n_teeth=a[1], inertia_moment=a[2], helix_angle=a[3], module=a[4], face_width=a[5], elastic_modulus=a[6])
        elif k == 'wheel':
            WormWheel(name=a[0], n_teeth=a[1], inertia_moment=a[2], helix_angle=a[3], pressure_angle=a[4], module=a[5], face_width=a[6])
        elif k == 'worm':
            WormGear(name=a[0], n_starts=a[1], inertia_moment=a[2], helix_angle=a[3], pressure_angle=a[4], reference_diameter=a[5])
        elif k == 'fly':
            Flywheel(name=a[0], inertia_moment=a[1])
        elif k == 'pwm':
            m = DCMotor(name='m', inertia_moment=U.InertiaMoment(1, 'kgm^2'), no_load_speed=U.AngularSpeed(100, 'rad/s'), maximum_torque=U.Torque(1, 'Nm'))
            m.pwm = a[0]
        return dict(err=None)
    except Exception as e:  # noqa
        n = type(e).__name__
        return dict(err=n if n in scen.EXN else 'Other:' + n, msg=str(e)[:160])


def carg(a):
    t = a[0]
    if t == 'Q':
        return f'(CQ {scen.cq(a[1:])})'
    if t == 'I':
        return f'(@CInt FX ({a[1]})%Z)'
    if t == 'F':
        return f'(@CFloat FX {lib.flit(a[1])})'
    if t == 'B':
        return f'(@CBool FX {"true" if a[1] else "false"})'
    if t == 'S':
        return f'(@CStr FX {lib.coq_str(a[1])})'
    return '(@CNone FX)'


CTOR = dict(motor='KMotor', spur='KSpur', helical='KHelical', wheel='KWheel', worm='KWorm', fly='KFly', pwm='KPwm')


def case_coq(c, r):
    exp = '(XOk)' if r['err'] is None else f'(XErr {r["err"] if not r["err"].startswith("Other") else "OracleMiss"})'
    return f'(@{CTOR[c["call"]]} O {" ".join(carg(a) for a in c["args"])}, {exp})'


def correspondence(pid, tier, seed):
    rng = random.Random(seed * 733 + 29)
    n = lib.size(4000, 60000, tier)
    cases = []
    while len(cases) < n:
        c = gen_case(rng)
        if all(constructible(a) for a in c['args']):
            cases.append(c)
    outs = [run_impl(c) for c in cases]
    per = 500
    hdr = scen.header_with_oracle([]).replace('Import ListNotations.', 'From GP Require Import Relations Gears Components CompCorr. Import ListNotations.')
    shards = [(hdr, [case_coq(c, r) for c, r in zip(cases[i:i + per], outs[i:i + per])]) for i in range(0, len(cases), per)]
    ans, errs = lib.run_shards('comp', shards, 'Definition cases : list (ccall O * cexp) :=', 'cfailing O cases')
    broken = []
    if errs:
        broken.append('component correspondence: a case file did not evaluate: ' + errs[0][1][-300:])
    bad = []
    for si_, a in enumerate(ans):
        for (i, code, _) in lib.parse_triples(a):
            bad.append((si_ * per + i, code))
    failing = []
    if bad:
        failing = [dict(case=cases[g], impl=outs[g], code=c2) for g, c2 in bad[:10]]
        broken.append(f'component correspondence: the constructor model and gearpy differ on {len(bad)} of {len(cases)} calls '
                      f'(first: {json.dumps(failing[0], default=str)[:500]}; code 12 = another exception class, 13 = gearpy raised and the model accepts, 14 = the model rejects and gearpy accepts)')
    dist = {}
    for c, r in zip(cases, outs):
        k = c['call'] + ':' + (r['err'] or 'ok')
        dist[k] = dist.get(k, 0) + 1
    nt = len({lib.sha(c) for c in cases if c['mutated']})
    return dict(ok=not broken, evaluations=len(cases), nontrivial=nt, samples=[dict(case=c, impl=r) for c, r in list(zip(cases, outs))[:4]], rule=RULE,
                distribution=dict(outcomes=dist), broken=broken, failing_cases=failing)


# ------------------------------------------------------------------ the property on the implementation
def sival(a, kind):
    return a[2] * S.ffactor(kind, a[3])


def typed(a, kind):
    return a[0] == 'Q' and a[1] == kind


def nonphysical(c):
    """reasons for which the property demands a rejection (only for arguments of the right type; decisions within 1e-9 relative of a
    threshold are left alone)"""
    rows, mint = tables()
    k, a = c['call'], c['args']
    out = []
    if k == 'pwm':
        x = a[0]
        if x[0] in ('I', 'F') and not isinstance(x[1], bool) and x[1] == x[1] and abs(x[1]) > 1 + 1e-12:
            out.append(f'duty cycle {x[1]!r} outside [-1, 1]')
        return out
    if k == 'motor':
        if typed(a[2], 'AngularSpeed') and a[2][2] <= 0:
            out.append(f'no-load speed {a[2][2]!r} {a[2][3]} is not positive')
        if typed(a[3], 'Torque') and a[3][2] <= 0:
            out.append(f'maximum torque {a[3][2]!r} {a[3][3]} is not positive')
        if typed(a[4], 'Current') and a[4][2] < 0:
            out.append('negative no-load current')
        if typed(a[5], 'Current') and a[5][2] <= 0:
            out.append('maximum current not positive')
        if typed(a[4], 'Current') and typed(a[5], 'Current'):
            x, y = sival(a[4], 'Current'), sival(a[5], 'Current')
            if x >= y * (1 + 1e-9) and y > 0:
                out.append(f'no-load current {x!r} A not below the maximum current {y!r} A')
        return out
    if k in ('spur', 'helical', 'wheel'):
        if a[1][0] == 'I' and a[1][1] < mint:
            out.append(f'{a[1][1]} teeth, fewer than the tabulated minimum {mint}')
    if k in ('spur', 'helical'):
        e = a[5] if k == 'spur' else a[6]
        if typed(e, 'Stress') and e[2] <= 0:
            out.append(f'elastic modulus {e[2]!r} not positive')
    if k in ('helical', 'wheel', 'worm'):
        h = a[3]
        if typed(h, 'Angle'):
            hd = sival(h, 'Angle') / DEG
            if k in ('helical', 'wheel') and hd >= 90 * (1 + 1e-9):
                out.append(f'helix angle {hd!r} deg >= 90 deg')
            pa = a[4] if k in ('wheel', 'worm') else None
            if pa is not None and typed(pa, 'Angle'):
                pd_ = sival(pa, 'Angle') / DEG
                for x, lim in rows:
                    if abs(pd_ - x) <= 1e-9 * x and hd > lim * (1 + 1e-9):
                        out.append(f'helix angle {hd!r} deg above the worm limit {lim} deg for pressure angle {x} deg')
    if k == 'worm' and a[1][0] == 'I' and a[1][1] < 1:
        out.append(f'{a[1][1]} starts')
    return out


def search(pid, tier, seed, escalate, hints):
    rng = random.Random(seed * 739 + 31)
    n = {('quick', False): 3000, ('quick', True): 20000, ('thorough', False): 30000, ('thorough', True): 100000}[(tier, escalate)]
    out, k = [], 0
    pool = [h['case'] for h in (hints or []) if isinstance(h, dict) and 'call' in h.get('case', {})]
    while k < n and len(out) < 5:
        c = pool.pop() if pool else gen_case(rng)
        if not all(constructible(a) for a in c['args']):
            continue
        k += 1
        why = nonphysical(c)
        if not why:
            continue
        r = run_impl(c)
        if r['err'] is None:
            out.append(dict(cls='accepts-nonphysical', what=f'{c["call"]} constructor/setter accepted non-physical parameters: {"; ".join(why)}', case=c))
    return out, k


def replay(pid, path):
    d = json.load(open(path))
    w = d.get('witness')
    if not w or 'call' not in w.get('case', {}):
        return None
    why = nonphysical(w['case'])
    r = run_impl(w['case'])
    print('replaying', json.dumps(w['case'])[:400], '->', r)
    return 1 if (why and r['err'] is None) else 0
