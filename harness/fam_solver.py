"""Solver family: C01 C02 C03 C11 C12 C13 C14 C16.  Tie = hand-written Coq model (coq/Solver.v, generic in the arithmetic)
evaluated in binary64 with vm_compute and compared bit for bit with what gearpy recorded, on generated scenarios; the first
differing field of the first differing instant decides which properties the disagreement concerns (DESIGN 3.3)."""
import json
import math
import random
import traceback

import lib
import scen
import oracle_solver as O

FLAVOURS = {
    'C01': ['plain', 'lock', 'schedule', 'control', 'stop'],
    'C02': ['plain', 'control', 'lock', 'schedule', 'plain'],
    'C03': ['plain', 'schedule', 'lock', 'control', 'plain'],
    'C11': ['plain', 'schedule', 'stop', 'schedule', 'plain'],
    'C12': ['schedule', 'schedule', 'lock', 'control', 'schedule'],
    'C13': ['lock', 'lock', 'lock', 'schedule', 'control'],
    'C14': ['control', 'control', 'lock', 'control', 'schedule'],
    'C16': ['stop', 'stop', 'stop', 'schedule', 'control'],
    'C15': ['rules', 'rules', 'control', 'rules', 'control'],
    'C04': ['plain', 'plain', 'schedule', 'plain', 'plain'],
}
# which first-differing-field codes concern which property (see coq/SolverCorr.v, row_code / case_code)
CODES = {
    'C01': {2, 3, 4},
    'C02': {5, 6, 7},
    'C03': {22, 23, 24},
    'C11': {1, 11},
    'C12': set(),            # decided by schedule_specific()
    'C13': {3, 4, 23, 24, 10},
    'C14': {8},
    'C16': {11},
    'C15': {8},
    'C04': {1, 2, 3, 22, 23, 24, 5, 6, 7},     # 1: the trajectory is (time, speed, position); not 4: an upstream element's acceleration feeds nothing the output trajectory depends on
}
ERR_KEYWORDS = {
    'C01': ['angular_position', 'angular_speed', 'angular_acceleration', 'transmit'],
    'C02': ['torque', 'external'],
    'C03': ['angular_acceleration', 'time_integration', 'inertia'],
    'C11': ['update_time', 'time_discretization', 'simulation_time', 'run'],
    'C12': ['reset', 'run'],
    'C13': ['locked', 'angular_speed', 'angular_acceleration'],
    'C14': ['pwm', 'apply_rules', 'rule'],
    'C16': ['check_condition', 'stop', 'operator', 'sensor', 'get_value'],
    'C15': ['apply', 'rule', 'timer', 'is_active', 'static_error', 'pwm_min', 'get_value'],
    'C04': ['torque', 'angular', 'time_integration', 'inertia'],
}
RULE = {
    'C01': 'non-trivial = >= 3 elements, >= 2 recorded instants, some ratio != 1, non-zero motion',
    'C02': 'non-trivial = >= 3 elements, >= 2 recorded instants, non-zero load and non-zero motion',
    'C03': 'non-trivial = >= 2 recorded instants with non-zero acceleration',
    'C11': 'non-trivial = dt not exactly representable in binary64, or a continued run',
    'C12': 'non-trivial = schedule with >= 1 continuation or reset and >= 2 instants on each side',
    'C13': 'non-trivial = self-locking train whose per-instant held/not-held history is not constant',
    'C14': 'non-trivial = >= 1 rule applicable at some instant (recorded duty cycle != 1) or a two-rule conflict',
    'C16': 'non-trivial = run that stopped before the full duration',
    'C15': 'non-trivial = controlled run in which a rule is applicable at >= 1 instant and not applicable at >= 1 instant',
    'C04': 'correspondence: non-trivial = >= 2 recorded instants with non-zero acceleration; search: linear scenarios (constant duty cycle and load, never held) run at dt, dt/2, dt/4 with kap*dt <= 0.2 against the closed form',
}


def is_nontrivial(pid, sc, res):
    rows = res.get('rows')
    if pid == 'C14' and res['err'] == 'ValueError':
        return True
    if not rows or len(rows) < 2:
        return False
    n = len(sc['elems']) + 1
    moving = any(x[0] != 0 for r in rows for x in r['spd'])
    ratios = [e['ratio'] for e in res['static']['elems']]
    if pid == 'C01':
        return n >= 3 and moving and any(r != 1 for r in ratios)
    if pid == 'C02':
        return n >= 3 and moving and any(r['ltq'][-1][0] != 0 for r in rows)
    if pid in ('C03', 'C04'):
        return any(r['acc'][-1][0] != 0 for r in rows)
    if pid == 'C11':
        dts = [op[1][1] for op in sc['ops'] if op[0] == 'run']
        return any(float(int(d * 2 ** 20)) != d * 2 ** 20 for d in dts) or len(dts) > 1
    if pid == 'C12':
        return len([op for op in sc['ops'] if op[0] in ('run',)]) >= 2
    if pid == 'C13':
        h = [all(x[0] == 0 for x in r['spd']) and all(x[0] == 0 for x in r['acc']) for r in rows]
        return res['static']['selflock'] and any(h) and not all(h)
    if pid == 'C14':
        return any(r['pwm'] != 1 for r in rows)
    if pid == 'C15':
        return any(r['pwm'] != 1 for r in rows) and any(r['pwm'] == 1 for r in rows)
    if pid == 'C16':
        for op, mlen in zip(sc['ops'], res['marks']):
            if op[0] == 'run' and op[4] is not None:
                return True
        return False
    return False


def generate(pid, tier, seed, n):
    rng = random.Random(seed * 1000003 + sum(map(ord, pid)))
    fl = FLAVOURS[pid]
    return [scen.gen_scenario(rng, fl[i % len(fl)]) for i in range(n)]


def execute(scs):
    """after six scenarios that hit the wall-clock limit the rest is not run (a change that makes runs endless would otherwise cost
    20 s per scenario); the skipped ones count as timeouts"""
    out, t = [], 0
    for s in scs:
        if t >= 6:
            out.append(dict(err='Other:Timeout-skipped', rows=None, marks=[], oracle=[], pre=[], part=[], static=None))
            continue
        r = scen.run_impl(s)
        if (r['err'] or '').startswith('Other:Timeout'):
            t += 1
        out.append(r)
    return out


def runaway(r):
    """interrupted by the harness while holding more instants than all the grids of the scenario allow: a fact about the time axis"""
    return (r.get('err') or '') == 'Other:Timeout' and r.get('timeout_instants', 0) > r.get('allowed_instants', 1 << 60)


def compare(name, scs, res, per=25):
    shards = []
    for i in range(0, len(scs), per):
        orc = []
        for r in res[i:i + per]:
            orc += r['oracle']
        shards.append((scen.header_with_oracle(orc), [scen.case_coq(s, r) for s, r in zip(scs[i:i + per], res[i:i + per])]))
    ans, errs = lib.run_shards(name, shards, scen.DEFINE, scen.EVALUATOR)
    mism = []
    for si, a in enumerate(ans):
        for (i, code, inst) in lib.parse_triples(a):
            mism.append((si * per + i, code, inst))
    return mism, errs


def prefix_codes(pid, scs, res, mism):
    """gearpy raised at operation k where the model did something else (codes 12, 13): compare the operations BEFORE k, which both
    completed; a field that already differs there is the root cause and decides which property the disagreement concerns"""
    idx, cut = [], []
    for g, c, _ in mism:
        if c in (12, 13) and res[g].get('err') and not res[g].get('build_failed'):
            k = len(res[g]['marks'])
            ops = scs[g]['ops'][:k]
            if any(op[0] == 'run' for op in ops):
                idx.append(g)
                cut.append(dict(scs[g], ops=ops))
    if not cut:
        return {}
    cut, idx = cut[:40], idx[:40]
    try:
        rs = execute(cut)
    except Exception:  # noqa  (a history that cannot even be read back: leave the attribution to the traceback)
        return {}
    ok = [i for i, r in enumerate(rs) if r['err'] is None]
    if not ok:
        return {}
    mm, errs = compare('solver_' + pid + '_prefix', [cut[i] for i in ok], [rs[i] for i in ok])
    if errs:
        return {}
    out = {idx[i]: 0 for i in ok}
    for j, c, _ in mm:
        out[idx[ok[j]]] = c if c < 100 else 0
    return out


def concerns(pid, sc, res, code, inst, plain_mismatch, prefix_code=None):
    if code in (12, 13) and prefix_code:
        code = prefix_code            # the operations before the raise already disagree: attribute by that field
    if code == 14:
        # the model raised (class in `inst`: 1 TypeError, 2 ValueError, ...) where gearpy did not: with a rule set in play this is
        # the arbitration / rules (two applicable rules, setter range), otherwise it may concern anything
        has_rules = any(op[0] == 'run' and op[3] for op in sc['ops'])
        if has_rules and inst in (1, 2):
            return pid in ('C14', 'C15')
        return True
    if code in (12, 13):
        msg = (res.get('errmsg') or '') + ' ' + ' '.join(res.get('errwhere', []))
        kws = ERR_KEYWORDS[pid]
        known_any = any(k in msg for ks in ERR_KEYWORDS.values() for k in ks)
        return (not known_any) or any(k in msg for k in kws)
    if code == 11 and pid in ('C11', 'C16'):
        # a different number of recorded instants: the grid (C11) when no stop condition is in play, the stop condition (C16) otherwise
        stops = any(op[0] == 'run' and op[4] for op in sc['ops'])
        return stops == (pid == 'C16')
    if pid == 'C04' and (res.get('static') or {}).get('selflock'):
        return False                  # C04 speaks of trajectories that are never held: a self-locking train's disagreements belong to C13 / C12
    if pid == 'C12':
        sched = any(op[0] in ('reset', 'newsolver') for op in sc['ops']) or len([op for op in sc['ops'] if op[0] == 'run']) > 1
        return sched and not plain_mismatch and code not in (5, 6, 7, 8, 9)
    return code in CODES[pid]


def correspondence(pid, tier, seed):
    n = lib.size(250, 2500, tier)
    scs = generate(pid, tier, seed, n)
    res = execute(scs)
    grid_broken = []
    grid_n = 0
    if pid == 'C13':            # the powertrain's self-locking flag comes from the relation declarations and the assembly
        import fam_rel
        rel = fam_rel.correspondence('C20', tier, seed)
        grid_broken = [b for b in rel['broken']]
    if pid in ('C11', 'C12'):
        grid_broken, grid_n = grid_correspondence(seed, lib.size(9, 60, tier))
    # a scenario that hit the wall-clock limit is run once more with three times the limit (at most three of them) (a loaded machine); what still does not return
    # is a broken tie only if it is a runaway (more instants on record than the scenario's grids allow), otherwise it is only counted
    retried = 0
    for i, (s_, r_) in enumerate(zip(scs, res)):
        if (r_['err'] or '') == 'Other:Timeout' and not runaway(r_) and retried < 3:
            retried += 1
            res[i] = scen.run_impl(s_, timeout=60)
    usable = [(s, r) for s, r in zip(scs, res) if not (r['err'] or '').startswith('Other:Timeout') and not r.get('build_failed')]
    timeouts = sum(1 for r in res if runaway(r))
    unreturned = sum(1 for r in res if (r['err'] or '').startswith('Other:Timeout')) - timeouts
    scs2 = [s for s, _ in usable]
    res2 = [r for _, r in usable]
    mism_all, errs = compare('solver_' + pid, scs2, res2)
    # codes 100+c: the only disagreements of that scenario are rounding-level (within 1e-9 relative in every field of every instant).
    # They are recorded and make the search look harder, but do not by themselves contradict the tie: the model and the code agree as
    # closely as the property (checked by the search on the code itself) can tell.
    rounding = [(g, c % 100, k) for g, c, k in mism_all if 100 <= c < 300]
    diverged = len([1 for g, c, k in mism_all if 200 <= c < 300])      # ... up to a discrete decision that rounding noise flipped
    mism = [(g, c, k) for g, c, k in mism_all if not 100 <= c < 300]
    broken = list(grid_broken)
    if errs:
        broken.append('solver correspondence: a case file did not evaluate: ' + errs[0][1][-300:])
    if timeouts and pid in ('C11', 'C12', 'C16'):          # the properties that speak of which instants exist
        ex = next(r for r in res if runaway(r))
        broken.append(f'solver correspondence: on {timeouts} scenario(s) gearpy was still running at the time limit with more instants on record than the grids allow '
                      f'(first: {ex["timeout_instants"]} recorded, at most {ex["allowed_instants"]} allowed); the model returns')
    plain_mismatch = False
    if pid == 'C12' and mism:
        plain_mismatch = not schedule_specific([scs2[g] for g, _, _ in mism[:12]])
    pre = prefix_codes(pid, scs2, res2, mism)
    mine = [(g, c, k) for g, c, k in mism if concerns(pid, scs2[g], res2[g], c, k, plain_mismatch, pre.get(g))]
    failing = []
    if rounding and not mine:
        failing = [dict(scenario=scs2[g2], code=100 + c2, instant=k2) for g2, c2, k2 in rounding[:10]]
    if mine:
        g, c, k = mine[0]
        failing = [dict(scenario=scs2[g2], code=c2, instant=k2) for g2, c2, k2 in mine[:10]]
        broken.append(f'solver correspondence: the model (binary64) and gearpy differ on {len(mine)} of {len(scs2)} scenarios in a field this property depends on '
                      f'(first: scenario {g}, field code {c}, instant {k}; {len(mism)} scenarios differ in any field)')
    nt = sum(1 for s, r in zip(scs2, res2) if is_nontrivial(pid, s, r))
    dist = {}
    for s, r in zip(scs2, res2):
        key = s['flavour'] + ':' + (r['err'] or 'ok')
        dist[key] = dist.get(key, 0) + 1
    sizes = {}
    for s in scs2:
        k = len(s['elems']) + 1
        sizes[k] = sizes.get(k, 0) + 1
    rows = sum(len(r['rows'] or []) for r in res2)
    samples = [dict(motor=s['motor'], elems=s['elems'], load=s['load'], ops=s['ops']) for s in scs2[:2]]
    return dict(ok=not broken, evaluations=len(scs2), nontrivial=nt, samples=samples, rule=RULE[pid],
                distribution=dict(outcomes=dist, chain_sizes=sizes, recorded_instants=rows, mismatching_any_field=len(mism), rounding_level_only=len(rounding), rounding_flipped_a_decision=diverged, long_grid_cases=grid_n,
                                  runaway_runs=timeouts, not_returned_within_limit=unreturned),
                broken=broken, failing_cases=failing, _runs=(scs2, res2))


def grid_correspondence(seed, n):
    """long decimal grids (thousands of steps, fresh and continued): step count and sampled instants, model [run_grid] vs gearpy"""
    rng = random.Random(seed * 13 + 3)
    scs = long_grid_scenarios(rng, n)
    items = []
    for sc in scs:
        if rng.random() < 0.5:            # a continued run: a short first run, possibly in another unit
            u0 = rng.choice(['sec', 'ms', 'min', 'hour'])
            d0 = float(f'{rng.choice([1, 3, 7])}e-{rng.randint(1, 3)}')
            sc['ops'] = [['run', ['TimeInterval', d0, u0], ['TimeInterval', d0 * rng.randint(2, 9), u0], None, None]] + sc['ops']
        r = scen.run_impl(sc, timeout=120)
        if 'Timeout' in (r['err'] or ''):
            continue                    # the harness's own wall-clock limit (a loaded machine), not an outcome of the code
        if r['err'] is not None:
            return [f'grid correspondence: long run raised {r["err"]} {r.get("errmsg")}'], 0
        last_op = sc['ops'][-1]
        first_len = r['marks'][-2] if len(sc['ops']) > 1 else 0
        rows = r['rows']
        new = rows[first_len:] if first_len else rows[1:]
        last = rows[first_len - 1]['time'] if first_len else None
        idx = sorted(set([0, len(new) - 1] + [rng.randrange(len(new)) for _ in range(12)])) if new else []
        samples = '[' + '; '.join(f'({i}%nat, {lib.flit(new[i]["time"][0])})' for i in idx) + ']'
        lastc = 'None' if last is None else f'(Some {scen.cq(["Time"] + last)})'
        items.append(f'{{| g_dt := {scen.cq(last_op[1])}; g_T := {scen.cq(last_op[2])}; g_last := {lastc}; g_n := {len(new)}%nat; g_samples := {samples} |}}')
    ans, errs = lib.run_shards('grid', [(scen.header_with_oracle([]), items)], 'Definition cases : list (gcase O) :=', 'gfailing O cases')
    broken = []
    if errs:
        broken.append('grid correspondence: case file did not evaluate: ' + errs[0][1][-300:])
    bad = lib.parse_triples(ans[0]) if ans and ans[0] else []
    if bad:
        i, c, _ = bad[0]
        broken.append(f'grid correspondence: the model grid and gearpy\'s time axis differ on {len(bad)} of {len(items)} long runs (first: {scs[i]["ops"]}, code {c}: 11 = step count, 1 = an instant)')
    return broken, len(items)


def schedule_specific(scs):
    """do some of these disagreeing scenarios AGREE once cut down to their first run?  (then the disagreement needs the schedule)"""
    cut = []
    for sc in scs:
        ops = []
        for op in sc['ops']:
            ops.append(op)
            if op[0] == 'run':
                break
        if len(ops) < len(sc['ops']):
            cut.append(dict(sc, ops=ops))
    if not cut:
        return False
    res = execute(cut)
    mism, errs = compare('solver_cut', cut, res)
    return len([m for m in mism if m[1] < 100]) < len(cut)


def long_grid_scenarios(rng, n):
    """C11: decimal steps with thousands of instants on a minimal chain (the arithmetic of the grid, not the physics)"""
    out = []
    for i in range(n):
        sc = scen.gen_chain(rng, worm=False, max_stages=1, currents=False)
        sc['elems'] = [dict(kind='spur', z=20, J=['InertiaMoment', 1e-3, 'kgm^2'], link='joint')]
        sc['load'] = dict(c0=0.0, ct=0.0, cp=0.0, cs=0.0, u='Nm')
        sc['pos0'] = ['AngularPosition', 0.0, 'rad']
        sc['spd0'] = ['AngularSpeed', 0.0, 'rad/s']
        u = rng.choice(['sec', 'ms', 'min', 'hour'])
        # two cases in three: a decimal pair whose binary64 quotient T/dt is NOT the step count exactly (an ulp or two off);
        # one in three of them BELOW the count with more than 16384 steps, where one ulp of the quotient (3.6e-12) exceeds any
        # plausible tolerance a truncating implementation might add
        want_inexact = i % 3 != 2
        lo, hi = ((16400, 30000) if i % 3 == 0 else (2000, 16000))
        for _ in range(2000):
            m = rng.choice([1, 7, 3, 9, 11, 13])
            e = rng.randint(2, 5)
            dtv = float(f'{m}e-{e}')
            nst = rng.randint(lo, hi)
            Tv = float(f'{m * nst}e-{e}') if rng.random() < 0.7 else dtv * nst
            if (Tv / dtv != nst) == want_inexact and (i % 3 != 0 or Tv / dtv < nst):
                break
        sc['ops'] = [['run', ['TimeInterval', dtv, u], ['TimeInterval', Tv, u], None, None]]
        sc['flavour'] = 'longgrid'
        out.append(sc)
    return out


def search(pid, tier, seed, escalate, hints):
    """property statement evaluated on the implementation's histories"""
    if pid == 'C04':
        import oracle_c04
        return oracle_c04.search(tier, seed, escalate, hints)
    rng = random.Random(seed * 77 + 1)
    out = []
    n_checked = 0
    n_timeouts = 0
    runs = None
    scs = generate(pid, tier, seed + 17, (150 if tier == 'quick' else 1500) * (4 if escalate else 1))
    # the scenarios on which the model and the code disagree come first: does the property itself fail on them?
    hinted = [h['scenario'] for h in (hints if isinstance(hints, list) else []) if isinstance(h, dict) and 'scenario' in h]
    scs = hinted + scs
    if pid == 'C11':
        scs += long_grid_scenarios(random.Random(seed + 9), (3 if tier == 'quick' else 20) * (3 if escalate else 1))
    for sc in scs:
        r = scen.run_impl(sc)
        n_checked += 1
        if (r['err'] or '').startswith('Other:Timeout'):
            # the harness's wall-clock limit is not an outcome of the code; a run interrupted while already holding more instants than
            # its grids allow is (C11)
            n_timeouts += 1
            if pid == 'C11' and runaway(r):
                out.append(O.W('runaway', f'the run had recorded {r["timeout_instants"]} instants when the harness interrupted it; the grids of the scenario allow at most {r["allowed_instants"]}', sc))
            if n_timeouts >= 6:
                break
            continue
        if r['err'] is None:
            try:
                if pid in ('C01', 'C02', 'C03', 'C13'):
                    out += O.check_history(pid, sc, r)
                elif pid == 'C11':
                    out += O.c11_check(sc, r)
                elif pid == 'C16':
                    out += O.c16_check(sc, r)
                elif pid == 'C14':
                    out += O.c14_check(sc, r)
                elif pid == 'C15':
                    out += O.c15_check(sc, r)
            except Exception:  # noqa
                out.append(O.W('oracle-crash', 'the oracle could not read the recorded history: ' + traceback.format_exc()[-600:], sc))
        if pid == 'C12' and n_checked <= len(hinted) + (40 if tier == 'quick' else 500) * (3 if escalate else 1):
            out += O.c12_check(sc, rng)
        if len([w for w in out if w['cls'] not in ('D4',)]) >= 5:
            break
    if pid == 'C04':
        import oracle_c04
        return oracle_c04.search(tier, seed, escalate, hints)
    if pid == 'C13':
        import fam_rel
        ws, k = fam_rel.search('C20', tier, seed, escalate, [])
        out += [w for w in ws if w['cls'] == 'self-locking']
        n_checked += k
    return out, n_checked


def replay_known(pid, k):
    import oracle_findings as OF
    return OF.replay(k['id'])


def replay(pid, path):
    d = json.load(open(path))
    w = d.get('witness')
    if not w or 'scenario' not in (w.get('case') or {}):
        print('no concrete input recorded:', d.get('no_longer_checks'))
        return 1
    sc = w['case']['scenario']
    r = scen.run_impl(sc)
    ws = []
    if r['err'] is None:
        if pid in ('C01', 'C02', 'C03', 'C13'):
            ws = O.check_history(pid, sc, r)
        elif pid == 'C11':
            ws = O.c11_check(sc, r)
        elif pid == 'C16':
            ws = O.c16_check(sc, r)
        elif pid == 'C14':
            ws = O.c14_check(sc, r)
        elif pid == 'C15':
            ws = O.c15_check(sc, r)
    if pid == 'C12':
        ws = O.c12_check(sc, random.Random(0))
    if ws:
        print('still fails:', ws[0]['what'])
        return 1
    print('no longer fails on this scenario')
    return 0
