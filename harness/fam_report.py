"""C18: snapshot and export.  Tie = coq/Report.v (binary64) run on the history gearpy recorded, against gearpy's own
Powertrain.snapshot / export_time_variables on that history (cells bit for bit, column names, row names, exception classes);
search = the statement on the implementation (recorded sample converted; chord between instants; no other columns; one CSV row
per instant)."""
import json
import math
import os
import random
import tempfile

import numpy as np
import pandas as pd

import gearpy.units as U
from gearpy.mechanical_objects import DCMotor, SpurGear, HelicalGear, Flywheel, WormGear, WormWheel
from gearpy.utils import export_time_variables
from gearpy.solver import Solver

import lib
import scen
import si as S
import fam_keys

RULE = ('cases = simulated powertrains (elements with random optional data) x target times on and between instants in any time unit x '
        'random non-empty subsets of the 11 variables (and None) x random output units; non-trivial = query between two instants or a strict subset of variables')
VARS = ['angular position', 'angular speed', 'angular acceleration', 'torque', 'driving torque', 'load torque', 'tangential force',
        'bending stress', 'contact stress', 'electric current', 'pwm']
KIND = {'angular position': 'AngularPosition', 'angular speed': 'AngularSpeed', 'angular acceleration': 'AngularAcceleration', 'torque': 'Torque',
        'driving torque': 'Torque', 'load torque': 'Torque', 'tangential force': 'Force', 'bending stress': 'Stress', 'contact stress': 'Stress',
        'electric current': 'Current'}
KINDC = {DCMotor: 'EMotor', Flywheel: 'EFly', SpurGear: 'ESpur', HelicalGear: 'EHelical', WormGear: 'EWorm', WormWheel: 'EWheel'}
UKEYS = ['angular_position_unit', 'angular_speed_unit', 'angular_acceleration_unit', 'torque_unit', 'driving_torque_unit', 'load_torque_unit',
         'force_unit', 'stress_unit', 'current_unit']
UKIND = ['AngularPosition', 'AngularSpeed', 'AngularAcceleration', 'Torque', 'Torque', 'Torque', 'Force', 'Stress', 'Current']


def use_before_rerun(pt, els):
    try:
        pt.snapshot(target_time=pt.time[len(pt.time) // 2], print_data=False)
        with tempfile.TemporaryDirectory() as d_:
            pt.export_time_variables(folder_path=os.path.join(d_, 'look'))
    except Exception:  # noqa
        pass


def simulate(rng):
    """a small simulated powertrain with optional data; returns (pt, els) or None"""
    if rng.random() < 0.4:          # a solver-family scenario (self-locking trains record speeds in mixed units: the user's unit, then rad/s)
        sc = scen.gen_scenario(rng, rng.choice(['lock', 'lock', 'plain', 'control']))
        r = scen.run_impl(sc, keep_objects=True)
        if r['err'] is None and 'objects' in r and len(r['objects'][0].time) >= 2:
            return r['objects'][0], r['objects'][1], sc
    for _ in range(20):
        sc = fam_keys.gen_pair(rng)
        n = rng.randint(2, 8)
        u = rng.choice(S.units('Time'))
        dt = 1e-3 / S.ffactor('Time', u)
        sc['ops'] = [['run', ['TimeInterval', dt, u], ['TimeInterval', dt * n, u], None, None]]
        sc['load'] = dict(c0=rng.uniform(-0.05, 0.05), ct=rng.uniform(-1, 1), cp=0.0, cs=rng.uniform(0, 1e-3), u='Nm')
        try:
            pt, els = scen.build(fam_keys.fix_opt(sc))
            Solver(pt).run(time_discretization=scen.mkq(sc['ops'][0][1]), simulation_time=scen.mkq(sc['ops'][0][2]))
            r_ = rng.random()
            if r_ < 0.3:
                u2 = rng.choice(S.units('Time'))
                dt2 = 2e-3 / S.ffactor('Time', u2)
                n2 = rng.randint(2, 4)
                Solver(pt).run(time_discretization=U.TimeInterval(dt2, u2), simulation_time=U.TimeInterval(dt2 * n2, u2))
                sc['ops'] += [['newsolver'], ['run', ['TimeInterval', dt2, u2], ['TimeInterval', dt2 * n2, u2], None, None]]
            elif r_ < 0.55:
                # the powertrain has been looked at (snapshot, export) before it is reset and simulated again over ANOTHER grid with the
                # same number of instants: what a report kept from the first look must not leak into the second
                use_before_rerun(pt, els)
                u2 = rng.choice(S.units('Time'))
                dt2 = rng.choice([0.5e-3, 2e-3, 3e-3]) / S.ffactor('Time', u2)
                pt.reset()
                Solver(pt).run(time_discretization=U.TimeInterval(dt2, u2), simulation_time=U.TimeInterval(dt2 * n, u2))
                sc['ops'] += [['look'], ['reset'], ['newsolver'], ['run', ['TimeInterval', dt2, u2], ['TimeInterval', dt2 * n, u2], None, None]]
            return pt, els, sc
        except Exception:  # noqa
            continue
    return None


UVAR = ['angular position', 'angular speed', 'angular acceleration', 'torque', 'driving torque', 'load torque', 'tangential force', 'bending stress', 'electric current']


DEFAULT_UNITS = dict(angular_position_unit='rad', angular_speed_unit='rad/s', angular_acceleration_unit='rad/s^2', torque_unit='Nm',
                     driving_torque_unit='Nm', load_torque_unit='Nm', force_unit='N', stress_unit='MPa', current_unit='A')


def passed(rng, us):
    """the keyword arguments of a call: some units are left to their documented defaults (us is updated to the effective units)"""
    kw = {}
    for k in UKEYS:
        if rng.random() < 0.25:
            us[k] = DEFAULT_UNITS[k]
        else:
            kw[k] = us[k]
    return kw


def rand_units(rng, els=None):
    us = {k: rng.choice(S.units(kd)) for k, kd in zip(UKEYS, UKIND)}
    if els is not None:
        for k, v in zip(UKEYS, UVAR):           # often ask for the very unit the first sample of some element is recorded in
            if rng.random() < 0.5:
                cands = [e.time_variables[v][0].unit for e in els if v in e.time_variables and e.time_variables[v] and hasattr(e.time_variables[v][0], 'unit')]
                if cands:
                    us[k] = rng.choice(cands)
    return us


def crec(e):
    def smp(x):
        if isinstance(x, U.UnitBase):
            return f'(@SQ FX {scen.cq([type(x).__name__, float(x.value), x.unit])})'
        if not isinstance(x, (int, float)) or isinstance(x, bool):
            return f'(@SN FX {lib.flit(float("nan"))})'       # not a quantity and not a number (e.g. None): has no .to(), like a bare number
        return f'(@SN FX {lib.flit(x)})'
    vars_ = scen.clist([f'({lib.coq_str(k)}, {scen.clist([smp(x) for x in v])})' for k, v in e.time_variables.items()])
    b = lambda x: 'true' if x else 'false'  # noqa
    force = getattr(e, 'tangential_force_is_computable', False)
    bend = getattr(e, 'bending_stress_is_computable', False)
    cont = getattr(e, 'contact_stress_is_computable', False)
    cur = getattr(e, 'electric_current_is_computable', False)
    return f'(@Build_erec FX {lib.coq_str(e.name)} {KINDC[type(e)]} {b(force)} {b(bend)} {b(cont)} {b(cur)} {vars_})'


def cunits(us, time_unit='sec'):
    return ('{| u_pos := %s; u_spd := %s; u_acc := %s; u_tq := %s; u_dtq := %s; u_ltq := %s; u_force := %s; u_stress := %s; u_cur := %s; u_time := %s |}'
            % tuple(lib.coq_str(x) for x in [us[k] for k in UKEYS] + [time_unit]))


def ctimes(pt):
    return scen.clist([scen.cq(['Time', float(t.value), t.unit]) for t in pt.time])


def snap_case(rng, pt, els):
    us = rand_units(rng, els)
    kw = passed(rng, us)
    r = rng.random()
    if r < 0.25:
        req = None
    else:
        avail = sorted({k for e in els for k in e.time_variables}, key=VARS.index)
        req = rng.sample(avail, rng.randint(1, len(avail)))
        if rng.random() < 0.05:
            req = req + ['contact stress', 'bending stress']
    ts = [t.to('sec').value for t in pt.time]
    r = rng.random()
    if r < 0.3:
        tsec = rng.choice(ts)
    elif r < 0.9:
        i = rng.randrange(len(ts) - 1)
        tsec = ts[i] + rng.random() * (ts[i + 1] - ts[i])
    else:
        tsec = rng.choice([ts[-1] * 1.5, -1e-3, ts[-1] + 1e-13, ts[0] - 1e-13])
    tu = rng.choice(S.units('Time'))
    target = ['Time', tsec / S.ffactor('Time', tu), tu]
    try:
        df = pt.snapshot(target_time=scen.mkq(target), variables=None if req is None else list(req), print_data=False, **kw)
        cols = list(df.columns)
        rows = [(name, [None if (v is None or (isinstance(v, float) and math.isnan(v)) or pd.isna(v)) else float(v) for v in df.loc[name]]) for name in df.index]
        exp = ('ok', cols, rows)
    except Exception as ex:  # noqa
        n = type(ex).__name__
        exp = ('err', n if n in scen.EXN else 'Other:' + n)
    if exp[0] == 'ok':
        crow = lambda row: f'({lib.coq_str(row[0])}, {scen.clist([scen.copt(v, lib.flit) for v in row[1]])})'  # noqa
        e = f'(SnapOk {scen.clist([lib.coq_str(c) for c in exp[1]])} {scen.clist([crow(x) for x in exp[2]])})'
    else:
        e = f'(SnapErr {exp[1] if not exp[1].startswith("Other") else "OracleMiss"})'
    reqc = 'None' if req is None else f'(Some {scen.clist([lib.coq_str(v) for v in req])})'
    coq = f'(RSnap O {ctimes(pt)} {scen.clist([crec(x) for x in els])} {reqc} {cunits(us)} {scen.cq(target)} {e})'
    return coq, dict(kind='snapshot', req=req, units=us, target=target, exp=exp, on_instant=tsec in ts)


def export_pt_cases(rng, pt, els, tmpdir):
    """Powertrain.export_time_variables: one call, one file per element (the files written before an element raises are compared too)"""
    us = rand_units(rng, els)
    kw = passed(rng, us)
    tu = rng.choice(S.units('Time'))
    if rng.random() < 0.75:
        kw['time_unit'] = tu
    else:
        tu = 'sec'
    folder = os.path.join(tmpdir, f'pt{rng.random()}')
    err = None
    try:
        pt.export_time_variables(folder_path=folder, **kw)
    except Exception as ex:  # noqa
        n = type(ex).__name__
        err = n if n in scen.EXN else 'Other:' + n
    files = []
    for el in els:
        path = os.path.join(folder, el.name + '.csv')
        if not os.path.exists(path):
            break
        df = pd.read_csv(path, float_precision='round_trip')
        files.append((el.name, [(c, [float(v) for v in df[c]]) for c in df.columns]))
    cfiles = scen.clist(['(%s, %s)' % (lib.coq_str(nm), scen.clist([f"({lib.coq_str(c)}, {scen.clist([lib.flit(v) for v in vs])})" for c, vs in cols]))
                         for nm, cols in files])
    cerr = 'None' if err is None else f'(Some {err if not err.startswith("Other") else "OracleMiss"})'
    exp = ('ok', [c for _, cols in files for c in cols]) if err is None else ('err', err)
    return [(f'(RExportAll O {ctimes(pt)} {scen.clist([crec(e) for e in els])} {cunits(us, tu)} {cfiles} {cerr})',
             dict(kind='export-powertrain', elements=[e.name for e in els], units=dict(us), time_unit=tu, exp=exp, files_written=len(files)))]


def export_case(rng, pt, el, tmpdir):
    us = rand_units(rng, [el])
    kw = passed(rng, us)
    tu = rng.choice(S.units('Time'))
    path = os.path.join(tmpdir, f'{rng.random()}.csv')
    try:
        export_time_variables(rotating_object=el, file_path=path, time_array=pt.time, time_unit=tu, **kw)
        df = pd.read_csv(path, float_precision='round_trip')
        exp = ('ok', [(c, [float(v) for v in df[c]]) for c in df.columns])
    except Exception as ex:  # noqa
        n = type(ex).__name__
        exp = ('err', n if n in scen.EXN else 'Other:' + n)
    if exp[0] == 'ok':
        e = f'(ExpOk {scen.clist([f"({lib.coq_str(c)}, {scen.clist([lib.flit(v) for v in vs])})" for c, vs in exp[1]])})'
    else:
        e = f'(ExpErr {exp[1] if not exp[1].startswith("Other") else "OracleMiss"})'
    coq = f'(RExport O {ctimes(pt)} {crec(el)} {cunits(us, tu)} {e})'
    return coq, dict(kind='export', element=el.name, units=us, time_unit=tu, exp=exp)


def correspondence(pid, tier, seed):
    rng = random.Random(seed * 2003 + 9)
    n = lib.size(60, 700, tier)
    items, recs = [], []
    with tempfile.TemporaryDirectory() as d:
        for _ in range(n):
            sim = simulate(rng)
            if sim is None:
                continue
            pt, els, sc = sim
            for _ in range(5):
                c, r = snap_case(rng, pt, els)
                items.append(c)
                recs.append(r)
            for el in els:
                c, r = export_case(rng, pt, el, d)
                items.append(c)
                recs.append(r)
            for c, r in export_pt_cases(rng, pt, els, d):
                items.append(c)
                recs.append(r)
    per = 60
    hdr = scen.header_with_oracle([]).replace('Import ListNotations.', 'From GP Require Import Relations Gears Report RelCorr. Import ListNotations.')
    shards = [(hdr, items[i:i + per]) for i in range(0, len(items), per)]
    ans, errs = lib.run_shards('report', shards, 'Definition cases : list (repcall O) :=', 'repfailing O cases')
    broken = []
    if errs:
        broken.append('report correspondence: a case file did not evaluate: ' + errs[0][1][-400:])
    bad = []
    for si_, a in enumerate(ans):
        for (i, code, _) in lib.parse_triples(a):
            bad.append((si_ * per + i, code))
    if bad:
        g, code = bad[0]
        codes = {}
        for _, c_ in bad:
            codes[c_] = codes.get(c_, 0) + 1
        broken.append(f'report correspondence (codes {codes}): the model (binary64) and gearpy differ on {len(bad)} of {len(items)} queries '
                      f'(first: {json.dumps(recs[g], default=str)[:500]}; code 1 = column names, 2 = rows/cells, 3/4 = exception, 5 = exported columns, 6/7 = export exception)')
    dist = {}
    for r in recs:
        k = r['kind'] + ':' + (r['exp'][1] if r['exp'][0] == 'err' else 'ok')
        dist[k] = dist.get(k, 0) + 1
    nt = sum(1 for r in recs if r['kind'] == 'snapshot' and r['exp'][0] == 'ok' and (not r['on_instant'] or r['req'] is not None))
    return dict(ok=not broken, evaluations=len(items), nontrivial=nt, samples=[dict(kind=r['kind'], req=r.get('req'), target=r.get('target')) for r in recs[:4]],
                rule=RULE, distribution=dict(outcomes=dist), broken=broken, failing_cases=[])


# ------------------------------------------------------------------ search
UKEY = dict(zip(VARS[:9] + ['electric current'], UKEYS[:6] + ['force_unit', 'stress_unit', 'stress_unit', 'current_unit']))


def effective_units(kw):
    return {k: kw.get(k, DEFAULT_UNITS[k]) for k in UKEYS}


def check_snapshot(pt, els, sc, call):
    """one snapshot call (call = dict(i, lam, tu, req, kw)) against the recorded samples; list of witnesses"""
    ts = [t.to('sec').value for t in pt.time]
    i, lam, tu, req, kw = call['i'], call['lam'], call['tu'], call['req'], call['kw']
    us = effective_units(kw)
    tsec = ts[i] + lam * (ts[i + 1] - ts[i])
    W = lambda cls, what: dict(cls=cls, what=what, case=dict(scenario=sc, call=dict(call, kind='snapshot')))  # noqa
    try:
        df = pt.snapshot(target_time=U.Time(tsec / S.ffactor('Time', tu), tu), variables=list(req), print_data=False, **kw)
    except Exception as ex:  # noqa
        return [W('snapshot-raises', f'snapshot raised {type(ex).__name__}: {str(ex)[:120]} at t={tsec!r} s inside the simulated interval, variables {req}')]
    want_cols = ['pwm' if v == 'pwm' else f'{v} ({us[UKEY[v]]})' for v in VARS if v in req]
    if list(df.columns) != want_cols:
        return [W('columns', f'snapshot(variables={req}, units passed {kw}) has columns {list(df.columns)}, expected {want_cols}')]
    out = []
    for e in els:
        for v in req:
            if v not in e.time_variables or len(e.time_variables[v]) != len(ts):
                continue
            col = 'pwm' if v == 'pwm' else f'{v} ({us[UKEY[v]]})'
            smp = e.time_variables[v]
            y = [x if v == 'pwm' else x.value * S.ffactor(KIND[v], x.unit) / S.ffactor(KIND[v], us[UKEY[v]]) for x in smp]
            want = y[i] + lam * (y[i + 1] - y[i])
            got = df.loc[e.name, col] if e.name in df.index else float('nan')
            scale = max(abs(y[i]), abs(y[i + 1]), 1e-300)
            if not (isinstance(got, (int, float, np.floating)) and abs(float(got) - want) <= 1e-8 * scale + 1e-12 * scale * (ts[-1] / max(ts[i + 1] - ts[i], 1e-300))):
                out.append(W('cell', f'snapshot at t={tsec!r} s: {e.name} {col} is {got!r}, the recorded samples give {want!r}'))
    return out


def check_export(pt, els, sc, call, tmpdir):
    """one export (call = dict(how='function'|'method', targets=[indices], kw, tu)) against the recorded samples; list of witnesses"""
    ts = [t.to('sec').value for t in pt.time]
    how, kw, tu = call['how'], call['kw'], call['tu']
    targets = [els[j] for j in call['targets']]
    us = effective_units(kw)
    W = lambda cls, what: dict(cls=cls, what=what, case=dict(scenario=sc, call=dict(call, kind='export')))  # noqa
    folder = os.path.join(tmpdir, f'x{len(os.listdir(tmpdir))}')
    d13 = any(len(v) != len(ts) for e in targets for v in e.time_variables.values())
    try:
        if how == 'function':
            export_time_variables(rotating_object=targets[0], file_path=os.path.join(folder, targets[0].name), time_array=pt.time, time_unit=tu, **kw)
        else:
            pt.export_time_variables(folder_path=folder, time_unit=tu, **kw)
    except Exception as ex:  # noqa
        return [W('D13' if d13 else 'export-raises', f'export ({how}) of {[e.name for e in targets]} raised {type(ex).__name__}: {str(ex)[:120]}')]
    out = []
    for e in targets:
        path = os.path.join(folder, e.name + '.csv')
        if not os.path.exists(path):
            out.append(W('export-file', f'export ({how}) wrote no file for {e.name}'))
            continue
        df = pd.read_csv(path, float_precision='round_trip')
        if len(df) != len(ts):
            out.append(W('export-rows', f'exported file of {e.name} has {len(df)} rows for {len(ts)} instants'))
            continue
        tcol = f'time ({tu})'
        if tcol not in df.columns:
            out.append(W('export-column', f'export ({how}): file of {e.name} lacks column {tcol!r}: {list(df.columns)}'))
            continue
        for j, t in enumerate(pt.time):
            want = t.value * S.ffactor('Time', t.unit) / S.ffactor('Time', tu)
            if abs(float(df[tcol][j]) - want) > 1e-9 * max(abs(want), 1e-300):
                out.append(W('export-cell', f'export ({how}): {e.name} row {j} column {tcol!r} is {df[tcol][j]!r}, the recorded instant {t!r} converted is {want!r}'))
                break
        for v, smp in e.time_variables.items():
            col = 'pwm' if v == 'pwm' else f'{v} ({us[UKEY[v]]})'
            if col not in df.columns:
                out.append(W('export-column', f'export ({how}, units passed {kw}): file of {e.name} lacks column {col!r}: {list(df.columns)}'))
                break
            bad = False
            for j, x in enumerate(smp):
                want = x if v == 'pwm' else x.value * S.ffactor(KIND[v], x.unit) / S.ffactor(KIND[v], us[UKEY[v]])
                if abs(float(df[col][j]) - want) > 1e-9 * max(abs(want), 1e-300):
                    out.append(W('export-cell', f'export ({how}): {e.name} row {j} column {col!r} is {df[col][j]!r}, the recorded sample {x!r} converted is {want!r}'))
                    bad = True
                    break
            if bad:
                break
    return out


def search(pid, tier, seed, escalate, hints):
    rng = random.Random(seed * 419 + 5)
    n = (40 if tier == 'quick' else 500) * (4 if escalate else 1)
    out, k = [], 0
    with tempfile.TemporaryDirectory() as d:
        for _ in range(n):
            sim = simulate(rng)
            if sim is None:
                continue
            pt, els, sc = sim
            ts = [t.to('sec').value for t in pt.time]
            for _ in range(4):
                k += 1
                kw = passed(rng, rand_units(rng, els))
                avail = sorted({kk for e in els for kk in e.time_variables}, key=VARS.index)
                req = rng.sample(avail, rng.randint(1, len(avail)))
                call = dict(i=rng.randrange(len(ts) - 1), lam=rng.choice([0.0, 1.0, rng.random()]), tu=rng.choice(S.units('Time')), req=req, kw=kw)
                out += check_snapshot(pt, els, sc, call)
            # exports: the function, element by element, then the Powertrain method (one call, one file per element)
            calls = [dict(how='function', targets=[j], kw=passed(rng, rand_units(rng, [e])), tu=rng.choice(S.units('Time'))) for j, e in enumerate(els)]
            calls.append(dict(how='method', targets=list(range(len(els))), kw=passed(rng, rand_units(rng, els)), tu=rng.choice(S.units('Time'))))
            for call in calls:
                k += 1
                out += check_export(pt, els, sc, call, d)
            if len([w for w in out if w['cls'] != 'D13']) >= 5:
                break
    return out, k


def resimulate(sc):
    """the recorded history of a witness scenario, rebuilt (solver-family scenario, or a fam_keys pair with its run operations)"""
    if sc.get('flavour') and sc['flavour'] != 'keys':
        r = scen.run_impl(sc, keep_objects=True)
        return r['objects'][0], r['objects'][1]
    pt, els = scen.build(fam_keys.fix_opt(sc))
    solver = Solver(pt)
    for op in sc['ops']:
        if op[0] == 'newsolver':
            solver = Solver(pt)
        elif op[0] == 'look':
            use_before_rerun(pt, els)
        elif op[0] == 'reset':
            pt.reset()
        elif op[0] == 'run':
            solver.run(time_discretization=scen.mkq(op[1]), simulation_time=scen.mkq(op[2]))
    return pt, els


def replay_known(pid, k):
    import oracle_findings as OF
    return OF.replay(k['id'])


def replay(pid, path):
    d = json.load(open(path))
    w = d.get('witness') or {}
    case = w.get('case') or {}
    if 'call' not in case:
        print('replay: re-run the check; recorded witness:', json.dumps(w, default=str)[:800])
        return 1
    pt, els = resimulate(case['scenario'])
    with tempfile.TemporaryDirectory() as tmp:
        ws = check_snapshot(pt, els, case['scenario'], case['call']) if case['call']['kind'] == 'snapshot' else check_export(pt, els, case['scenario'], case['call'], tmp)
    ws = [x for x in ws if x['cls'] != 'D13']
    if ws:
        print('still fails:', ws[0]['what'])
        return 1
    print('no longer fails on this history and call')
    return 0
