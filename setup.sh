#!/bin/sh
# Build the whole Coq development once from files on disk (offline).  Checks rebuild incrementally afterwards.
cd "$(dirname "$0")" || exit 2
export PYTHONHASHSEED=0 PYTHONPATH="${GEARPY_REPO:-/repo}"
mkdir -p build evidence violations
/venv/bin/python harness/translate.py || exit 1
cd coq || exit 2
coq_makefile -f _CoqProject -o Makefile >/dev/null || exit 1
timeout 3000 make -j16 2>&1 | tail -5
if grep -rn --include=*.v -E '\b(Admitted|admit|Axiom|Conjecture)\b|Unset Guard|bypass_check' . ; then echo "hygiene: forbidden declaration"; exit 1; fi
exit 0
