"""Shared builders for the replay scripts in this directory (run with /venv/bin/python, PYTHONPATH=/repo)."""
from gearpy.mechanical_objects import DCMotor, SpurGear, HelicalGear, Flywheel, WormGear, WormWheel
from gearpy.units import *
from gearpy.utils import add_fixed_joint, add_gear_mating, add_worm_gear_mating, StopCondition
from gearpy.powertrain import Powertrain
from gearpy.solver import Solver
from gearpy.motor_control import PWMControl
from gearpy.motor_control.rules import ConstantPWM, ReachAngularPosition, StartLimitCurrent, StartProportionalToAngularPosition
from gearpy.sensors import AbsoluteRotaryEncoder, Tachometer, Timer, Amperometer


def spur_train(load=Torque(0.2, 'Nm'), currents=True):
    kw = dict(no_load_electric_current=Current(0.1, 'A'), maximum_electric_current=Current(2, 'A')) if currents else {}
    motor = DCMotor(name='motor', inertia_moment=InertiaMoment(2e-4, 'kgm^2'), no_load_speed=AngularSpeed(3000, 'rpm'),
                    maximum_torque=Torque(0.5, 'Nm'), **kw)
    g1 = SpurGear(name='g1', n_teeth=12, inertia_moment=InertiaMoment(1e-4, 'kgm^2'), module=Length(1, 'mm'), face_width=Length(8, 'mm'), elastic_modulus=Stress(200, 'GPa'))
    g2 = SpurGear(name='g2', n_teeth=36, inertia_moment=InertiaMoment(5e-4, 'kgm^2'), module=Length(1, 'mm'), face_width=Length(8, 'mm'), elastic_modulus=Stress(200, 'GPa'))
    add_fixed_joint(master=motor, slave=g1)
    add_gear_mating(master=g1, slave=g2, efficiency=0.9)
    g2.external_torque = lambda time, angular_position, angular_speed: load
    pt = Powertrain(motor=motor)
    g2.angular_position = AngularPosition(0, 'rad')
    g2.angular_speed = AngularSpeed(0, 'rad/s')
    return pt


def worm_train(load=Torque(50, 'Nm'), friction=0.4, helix=10, worm_diameter=True, wheel_data=True):
    motor = DCMotor(name='motor', inertia_moment=InertiaMoment(2e-4, 'kgm^2'), no_load_speed=AngularSpeed(3000, 'rpm'),
                    maximum_torque=Torque(0.5, 'Nm'), no_load_electric_current=Current(0.1, 'A'), maximum_electric_current=Current(2, 'A'))
    worm = WormGear(name='worm', n_starts=1, inertia_moment=InertiaMoment(1e-4, 'kgm^2'), helix_angle=Angle(helix, 'deg'),
                    pressure_angle=Angle(20, 'deg'), reference_diameter=Length(20, 'mm') if worm_diameter else None)
    wheel = WormWheel(name='wheel', n_teeth=40, inertia_moment=InertiaMoment(5e-4, 'kgm^2'), helix_angle=Angle(helix, 'deg'),
                      pressure_angle=Angle(20, 'deg'), module=Length(2, 'mm') if wheel_data else None, face_width=Length(10, 'mm') if wheel_data else None)
    add_fixed_joint(master=motor, slave=worm)
    add_worm_gear_mating(master=worm, slave=wheel, friction_coefficient=friction)
    wheel.external_torque = lambda time, angular_position, angular_speed: load
    pt = Powertrain(motor=motor)
    wheel.angular_position = AngularPosition(0, 'rad')
    wheel.angular_speed = AngularSpeed(0, 'rad/s')
    return pt
